"""./check <ID> [--tier quick|thorough] [--replay FILE]

exit 0  every obligation of the property discharged, vacuity/differential guards passed
exit 1  VIOLATION (a line `VIOLATION property=<id> replay=<path>` per violated obligation)
exit 2  UNDECIDED (solver unknown / construct outside the subset / contract no longer applies)
exit 3  CHECKER-ERROR
"""
import argparse
import hashlib
import json
import multiprocessing
import os
import re
import subprocess
import sys
import tempfile
import time
import traceback

VERIF = os.path.dirname(os.path.dirname(os.path.abspath(__file__)))
REPO = os.environ.get('PYVC_REPO', '/repo')
VENV_PY = os.environ.get('PYVC_REPLAY_PYTHON', '/venv/bin/python')
for p in (VERIF, REPO):
    if p not in sys.path:
        sys.path.insert(0, p)


def _load():
    import contracts            # noqa: F401  registers contracts, lemmas, bounded stand-ins
    from pyvc import runner
    from pyvc.contract import REGISTRY
    return runner, REGISTRY


def load_findings():
    path = os.path.join(VERIF, 'known_findings.json')
    if not os.path.exists(path):
        return []
    return json.load(open(path)).get('findings', [])


def _unit_job(job):
    kind, a, b, tier, findings = job
    from pyvc import runner
    try:
        if kind == 'unit':
            return runner.run_unit(a, b, tier, findings)
        return runner.run_lemma(a)
    except Exception:
        return dict(target=str(a), cfg=str(b), obligations=[], unsupported=[], witnesses=[], paths=0,
                    errors=[traceback.format_exc()], vacuous_paths=0, models=[], wall_s=0)


UNIT_WALL_S = {'quick': int(os.environ.get('PYVC_UNIT_WALL_S', '420')), 'thorough': int(os.environ.get('PYVC_UNIT_WALL_S', '1800'))}
UNIT_MEM_BYTES = int(os.environ.get('PYVC_UNIT_MEM_GB', '6')) * (1 << 30)


def _child(job, conn):
    try:
        import resource
        resource.setrlimit(resource.RLIMIT_AS, (UNIT_MEM_BYTES, UNIT_MEM_BYTES))
    except Exception:
        pass
    try:
        r = _unit_job(job)
    except MemoryError:
        r = _failed_unit(job, 'verification unit exceeded its memory limit')
    try:
        conn.send(r)
    except Exception as ex:
        conn.send(_failed_unit(job, 'result not transferable: %s' % ex))
    conn.close()


def n_bounded_ok(b):
    return True


def _run_jobs(jobs, nproc, tier):
    """one process per verification unit, at most nproc at a time, each under a hard wall-clock and memory limit:
    a unit that exceeds them is reported as UNDECIDED (solver run-away), never as a violation"""
    ctxmp = multiprocessing.get_context('fork')
    limit = UNIT_WALL_S[tier]
    pending = list(jobs)
    running = []
    out = []
    while pending or running:
        while pending and len(running) < nproc:
            job = pending.pop(0)
            pc, cc = ctxmp.Pipe(duplex=False)
            p = ctxmp.Process(target=_child, args=(job, cc))
            p.start()
            cc.close()
            running.append((p, pc, job, time.time()))
        still = []
        progressed = False
        for (p, pc, job, t0) in running:
            if pc.poll(0):
                try:
                    out.append(pc.recv())
                except EOFError:
                    out.append(_failed_unit(job, 'worker died without a result (memory limit or crash)'))
                p.join(5)
                progressed = True
            elif not p.is_alive():
                got = False
                if pc.poll(0.2):
                    try:
                        out.append(pc.recv())
                        got = True
                    except EOFError:
                        pass
                if not got:
                    out.append(_failed_unit(job, 'worker died without a result (memory limit or crash)'))
                progressed = True
            elif time.time() - t0 > limit:
                p.kill()
                p.join(5)
                out.append(_failed_unit(job, 'verification unit exceeded its wall-clock limit of %d s' % limit))
                progressed = True
            else:
                still.append((p, pc, job, t0))
        running = still
        if not progressed:
            time.sleep(0.02)
    return out


def _failed_unit(job, why):
    kind, a, b = job[0], job[1], job[2]
    name = a if kind == 'unit' else 'lemma#%s' % a
    cfgname = '-'
    if kind == 'unit':
        try:
            from pyvc.contract import REGISTRY
            cfgname = REGISTRY[a].config_name(b)
        except Exception:
            cfgname = str(b)
    return dict(target=str(name), cfg=cfgname, cfg_raw=b if isinstance(b, dict) else {}, obligations=[],
                unsupported=[dict(path=-1, why=why)], witnesses=[], paths=1, errors=[], vacuous_paths=0, models=[], wall_s=0)


def replay_batch(items):
    """run path witnesses / samples on the real code under the repository interpreter"""
    if not items:
        return []
    fd, pin = tempfile.mkstemp(suffix='.json', prefix='pyvc_in_')
    os.close(fd)
    pout = pin + '.out'
    try:
        json.dump(items, open(pin, 'w'))
        env = dict(os.environ, PYTHONDONTWRITEBYTECODE='1', PYVC_REPO=REPO)
        p = subprocess.run([VENV_PY, '-m', 'pyvc.replay', '--batch', pin, pout], cwd=VERIF, env=env,
                           capture_output=True, text=True, timeout=1800)
        if p.returncode != 0 or not os.path.exists(pout):
            raise RuntimeError('replay batch failed: %s\n%s' % (p.stdout[-2000:], p.stderr[-2000:]))
        return json.load(open(pout))
    finally:
        for f in (pin, pout):
            if os.path.exists(f):
                os.unlink(f)


def write_replay(prop, name, target, cfg_raw, inputs, kind, extra):
    d = os.path.join(VERIF, 'replays')
    os.makedirs(d, exist_ok=True)
    hsh = hashlib.sha1((name + json.dumps(inputs, sort_keys=True)).encode()).hexdigest()[:10]
    path = os.path.join(d, '%s-%s.json' % (prop, hsh))
    rec = dict(property=prop, obligation=name, target=target, cfg_raw=cfg_raw, inputs=inputs, kind=kind)
    rec.update(extra)
    json.dump(rec, open(path, 'w'), indent=1, sort_keys=True)
    return path


def selftest():
    """setup-time sanity: solvers present, contracts import on both interpreters, a canary obligation is refuted"""
    import z3
    runner, REGISTRY = _load()
    from pyvc import solve
    from pyvc.ctx import Ctx
    c = Ctx()
    x = z3.Int('x')
    c.assume(x > 0)
    ok = c.oblige('canary-true', x >= 1)
    bad = c.oblige('canary-false', x >= 2)
    assert solve.discharge(c, ok) == 'unsat', 'z3 failed to prove the true canary'
    assert solve.discharge(c, bad) == 'sat', 'z3 failed to refute the false canary'
    s = z3.Solver()
    s.add(x > 0, x < 0)
    assert solve.check_cvc5(s, 10)[0] == 'unsat', 'cvc5 not usable'
    env = dict(os.environ, PYTHONDONTWRITEBYTECODE='1', PYVC_REPO=REPO)
    p = subprocess.run([VENV_PY, '-c', 'import sys; sys.path[:0]=[%r,%r]; import contracts, pyvc.replay, mido; print(mido.__file__)' % (VERIF, REPO)],
                       cwd=VERIF, env=env, capture_output=True, text=True)
    assert p.returncode == 0 and p.stdout.strip().startswith(REPO), 'replay interpreter cannot import: ' + p.stderr
    print('selftest ok: %d contracts, %d lemmas, %d bounded stand-ins' % (len(REGISTRY), len(runner.LEMMAS), len(runner.BOUNDED)))
    return 0


def main(argv=None):
    if (argv or sys.argv[1:])[:1] == ['--selftest']:
        return selftest()
    ap = argparse.ArgumentParser()
    ap.add_argument('prop')
    ap.add_argument('--tier', default=os.environ.get('VERIF_TIER', 'quick'))
    ap.add_argument('--replay')
    ap.add_argument('--jobs', type=int, default=int(os.environ.get('PYVC_JOBS', '16')))
    ap.add_argument('--only', help='regex on unit names (debugging)')
    args = ap.parse_args(argv)
    if args.replay:
        env = dict(os.environ, PYTHONDONTWRITEBYTECODE='1', PYVC_REPO=REPO)
        return subprocess.call([VENV_PY, '-m', 'pyvc.replay', args.replay], cwd=VERIF, env=env)
    t0 = time.time()
    prop = args.prop
    tier = args.tier if args.tier in ('quick', 'thorough') else 'quick'
    seed = int(os.environ.get('VERIF_SEED', '0') or 0)
    try:
        return _check(prop, tier, seed, args, t0)
    except Exception:
        print('CHECKER-ERROR property=%s\n%s' % (prop, traceback.format_exc()))
        return 3


def _check(prop, tier, seed, args, t0):
    runner, REGISTRY = _load()
    from contracts.properties import PROPS
    meta = PROPS[prop]
    findings = [f for f in load_findings() if f.get('property') == prop and f.get('status', 'open') == 'open']
    jobs = []
    functions = []
    for target, c in sorted(REGISTRY.items()):
        if prop in c.properties:
            if c.target not in functions:
                functions.append(c.target)
            for cfg in c.configs:
                if getattr(c, 'thorough_only', False) and tier != 'thorough':
                    continue
                jobs.append(('unit', target, cfg, tier, findings))
    for i, lem in enumerate(runner.LEMMAS):
        if prop in lem.properties:
            jobs.append(('lemma', i, None, tier, findings))
    if args.only:
        jobs = [j for j in jobs if re.search(args.only, str(j[1]) + str(j[2]))]
    results = []
    externals = []
    for ext in meta.get('external', []):
        if tier == 'quick' and ext.get('thorough_only'):
            continue
        te = time.time()
        pe = subprocess.Popen(ext['cmd'], cwd=VERIF, stdout=subprocess.PIPE, stderr=subprocess.STDOUT, text=True)
        externals.append((ext, pe, te))
    if jobs:
        results.extend(_run_jobs(jobs, max(1, min(args.jobs, len(jobs))), tier))
    for ext, pe, te in externals:
        try:
            outp, _ = pe.communicate(timeout=ext.get('timeout', 900))
        except subprocess.TimeoutExpired:
            pe.kill()
            outp = 'timeout'
        ok = pe.returncode == 0 and 'error' not in (outp or '').lower()
        results.append(dict(target='external:' + ext['name'], cfg='-', cfg_raw={}, paths=1, vacuous_paths=0, unsupported=[],
                            witnesses=[], errors=[], models=[], wall_s=time.time() - te,
                            obligations=[dict(name='external:%s#%s' % (ext['name'], o), kind='lemma',
                                              result='unsat' if ok else 'unknown', solver=ext['solver'],
                                              time=round((time.time() - te) / max(1, len(ext['obligations'])), 3), info={}, pc=[],
                                              reason=(outp or '')[-400:], genuine=False) for o in ext['obligations']]))
    results.sort(key=lambda r: (r['target'], r['cfg']))

    # ---------------- classify obligations
    obligations = [o for r in results for o in r['obligations']]
    # an obligation that is a listed known finding without a region is not claimed at all; one with a region counts
    # as discharged when it is proved outside that region (and the finding itself is reported as KNOWN-FINDING)
    whole_findings = [o for o in obligations if o.get('known_finding') and o.get('residual') == 'unsat' and
                      not [f for f in findings if f['id'] == o['known_finding']][0].get('region')]
    n_obl = len(obligations) - len(whole_findings)
    n_ok = sum(1 for o in obligations if o['result'] == 'unsat' or
               (o.get('known_finding') and o.get('residual') == 'unsat' and o not in whole_findings))
    undecided = []
    violations = []
    known = []
    errors = [e for r in results for e in r['errors']]
    cand = []
    for r in results:
        for u in r['unsupported']:
            undecided.append(dict(name='%s[%s]@p%s' % (r['target'], r['cfg'], u['path']), why=u['why']))
        for o in r['obligations']:
            if o['result'] == 'unsat':
                continue
            o['_unit'] = r
            if o.get('known_finding'):
                known.append(o)
                if o.get('residual') == 'unsat':
                    continue
                if o.get('residual_inputs') is not None:
                    o['inputs'] = o['residual_inputs']
            cand.append(o)
    # replay candidate counterexamples on the real code
    items = [dict(target=o['_unit']['target'], cfg_raw=o['_unit']['cfg_raw'], inputs=o['inputs'])
             for o in cand if o.get('inputs') is not None]
    rep = replay_batch(items)
    ri = 0
    for o in cand:
        confirmed = None
        if o.get('inputs') is not None:
            confirmed = rep[ri]
            ri += 1
        u = o['_unit']
        if o['kind'] == 'lemma':
            undecided.append(dict(name=o['name'], why='lemma not proved (%s %s)' % (o['result'], o.get('reason', ''))))
            continue
        real_fail = confirmed is not None and confirmed.get('failed')
        if real_fail:
            path = write_replay(prop, o['name'], u['target'], u['cfg_raw'], o['inputs'], 'obligation',
                                dict(solver=o['solver'], solver_result=o['result'], pc=o['pc'],
                                     observed=confirmed, expected_clause=o['name'].split('#')[1]))
            violations.append(dict(name=o['name'], replay=path, confirmed=True, observed=confirmed))
        elif o['result'] == 'sat' and o.get('genuine'):
            path = write_replay(prop, o['name'], u['target'], u['cfg_raw'], o.get('inputs'), 'obligation',
                                dict(solver=o['solver'], solver_result=o['result'], pc=o['pc'], observed=confirmed,
                                     note='the verifier refuted this obligation; the model did not reproduce a failure '
                                          'on the real function (modular reasoning: a callee contract may be too weak '
                                          'for the changed code)'))
            violations.append(dict(name=o['name'], replay=path, confirmed=False, observed=confirmed))
        else:
            undecided.append(dict(name=o['name'], why='%s %s' % (o['result'], o.get('reason', ''))))

    # ---------------- path witnesses + contract samples on the real code (differential / run-time contracts)
    witems = []
    for r in results:
        if r['target'].startswith(('lemma:', 'external:')):
            continue
        for w in r['witnesses']:
            witems.append(dict(target=r['target'], cfg_raw=r['cfg_raw'], inputs=w['inputs'], expect=w['expect'],
                               exact=w['exact'], src='path-witness p%d' % w['path'], cfg=r['cfg']))
    for target, c in sorted(REGISTRY.items()):
        if prop not in c.properties:
            continue
        for cfg in c.configs:
            for smp in c.samples(cfg):
                witems.append(dict(target=target, cfg_raw=cfg, inputs=smp, expect=None, exact=False, src='sample',
                                   cfg=c.config_name(cfg)))
    wres = replay_batch(witems)
    n_wit = 0
    engine_mismatch = []
    distinct = set()
    for it, rr in zip(witems, wres):
        if rr['outcome'] in ('precondition-not-met',):
            continue
        if rr['outcome'] in ('replay-error', 'input-missing'):
            errors.append('replay of %s %s: %s' % (it['target'], it['inputs'], rr['detail']))
            continue
        n_wit += 1
        distinct.add((it['target'], it['cfg'], json.dumps(it['inputs'], sort_keys=True)))
        if rr['failed']:
            name = '%s[%s]#%s' % (it['target'], it['cfg'], rr['failed'][0])
            kf = _match_finding(findings, name, it['inputs'])
            if kf is not None:
                known.append(dict(name=name, known_finding=kf['id'], inputs=it['inputs']))
                continue
            path = write_replay(prop, name, it['target'], it['cfg_raw'], it['inputs'], it['src'],
                                dict(observed=rr, note='run-time contract check on the real code'))
            if not any(v['name'].split('@')[0] == name for v in violations):
                violations.append(dict(name=name, replay=path, confirmed=True, observed=rr))
        elif it['expect'] is not None and it['exact'] and rr['outcome'] != it['expect']:
            engine_mismatch.append(dict(target=it['target'], cfg=it['cfg'], inputs=it['inputs'],
                                        predicted=it['expect'], observed=rr['outcome']))

    # ---------------- bounded stand-ins (run on the real code; never counted as proved)
    bounded_res = []
    for b in runner.BOUNDED:
        if prop in b['properties']:
            tb = time.time()
            env = dict(os.environ, PYTHONDONTWRITEBYTECODE='1', PYVC_REPO=REPO)
            code = ('import sys, json; sys.path[:0]=[%r,%r]; import contracts, importlib; '
                    'm=importlib.import_module(%r); print("@@"+json.dumps(getattr(m,%r)(%r,%d)))'
                    % (VERIF, REPO, b['module'], b['func'], tier, seed))
            p = subprocess.run([VENV_PY, '-c', code], cwd=VERIF, env=env, capture_output=True, text=True, timeout=3600)
            line = [ln for ln in p.stdout.splitlines() if ln.startswith('@@')]
            if p.returncode != 0 or not line:
                tb = (p.stderr or p.stdout)[-3000:]
                frames = [ln.strip() for ln in tb.splitlines() if ln.strip().startswith('File "')]
                if frames and (os.path.realpath(REPO) + os.sep) in os.path.realpath(frames[-1].split('"')[1]) + os.sep and n_bounded_ok(b):
                    # the exception was raised INSIDE the code under test, in a call the stand-in makes without expecting
                    # any exception (it completes on the unchanged tree): a behaviour change, reported with the traceback
                    name = 'bounded:%s#aborted by an exception raised inside the code under test' % b['name']
                    path = write_replay(prop, name, None, None, None, 'bounded',
                                        dict(module=b['module'], func=b['func'], traceback=tb, tier=tier, seed=seed))
                    violations.append(dict(name=name, replay=path, confirmed=False, observed=dict(traceback=tb[-600:])))
                    continue
                errors.append('bounded stand-in %s crashed: %s' % (b['name'], tb[-1500:]))
                continue
            br = json.loads(line[-1][2:])
            br['name'] = b['name']
            br['bound'] = b['bound']
            br['wall_s'] = round(time.time() - tb, 2)
            bounded_res.append(br)
            for fl in br.get('failures', []):
                name = 'bounded:%s#%s' % (b['name'], fl.get('clause', 'fails'))
                kf = _match_finding(findings, name, fl.get('inputs'))
                if kf is not None:
                    known.append(dict(name=name, known_finding=kf['id'], inputs=fl.get('inputs')))
                    continue
                path = write_replay(prop, name, None, None, fl.get('inputs'), 'bounded',
                                    dict(module=b['module'], func=b['func'], observed=fl, tier=tier, seed=seed))
                violations.append(dict(name=name, replay=path, confirmed=True, observed=fl))

    # ---------------- vacuity guards
    guard_errors = []
    if n_obl == 0:
        guard_errors.append('no obligations were generated')
    for r in results:
        if r['target'].startswith(('lemma:', 'external:')):
            continue
        if r['paths'] and r['vacuous_paths'] == r['paths']:
            guard_errors.append('all paths of %s[%s] are vacuous (contradictory precondition?)' % (r['target'], r['cfg']))
        if not r['paths'] and not r['errors']:
            guard_errors.append('no paths for %s[%s]' % (r['target'], r['cfg']))

    # ---------------- report
    wall = time.time() - t0
    for v in violations:
        tail = '' if v['confirmed'] else ' no-failing-input-found'
        print('VIOLATION property=%s replay=%s obligation=%s%s' % (prop, v['replay'], v['name'], tail))
    seen_kf = set()
    for k in known:
        fid = k.get('known_finding')
        if fid in seen_kf:
            continue
        seen_kf.add(fid)
        f = [x for x in findings if x['id'] == fid][0]
        print('KNOWN-FINDING: property=%s %s' % (prop, f['what']))
    for u in undecided[:40]:
        print('UNDECIDED property=%s %s :: %s' % (prop, u['name'], str(u['why'])[:300]))
    for e in errors[:10]:
        print('CHECKER-ERROR property=%s %s' % (prop, str(e)[-1500:]))
    for g in guard_errors:
        print('CHECKER-ERROR property=%s guard: %s' % (prop, g))
    for m in engine_mismatch[:10]:
        print('CHECKER-ERROR property=%s engine/CPython mismatch: %s' % (prop, json.dumps(m)))

    solver_time = {}
    solver_count = {}
    for o in obligations:
        solver_time[o['solver']] = solver_time.get(o['solver'], 0.0) + o['time']
        solver_count[o['solver']] = solver_count.get(o['solver'], 0) + 1
    recheck = {}
    for o in obligations:
        if 'cvc5_recheck' in o:
            k = o['cvc5_recheck'] if o['cvc5_recheck'] in ('unsat', 'sat', 'unknown') else 'error'
            recheck[k] = recheck.get(k, 0) + 1
            if k == 'sat':
                # z3 proved it, cvc5 refutes it: one of the solvers (or the SMT-LIB translation) is wrong
                errors.append('solver disagreement on %s: z3 unsat, cvc5 sat' % o['name'])
                print('CHECKER-ERROR property=%s solver disagreement on %s: z3 unsat, cvc5 sat' % (prop, o['name']))
    samples = []
    for r in results:
        for o in r['obligations'][:2]:
            samples.append(dict(obligation=o['name'], result=o['result'], solver=o['solver'], path_condition=o['pc'][-3:]))
        if len(samples) >= 24:
            break
    evidence = dict(
        property_id=prop, tier=tier, seed=seed, level=meta['level'],
        coverage=dict(
            obligations=n_obl, discharged=n_ok,
            checker_cmd='cd /verif && ./check %s --tier %s' % (prop, tier),
            trusted_base=meta.get('trusted_base', []) + COMMON_TRUSTED,
            functions_under_contract=functions,
            independent_cvc5_recheck=recheck,
            functions_executed_symbolically=sorted({x for r in results for x in r.get('executed', ())}),
            units=len(results), paths=sum(r['paths'] for r in results),
            solver_obligations=solver_count, solver_time_s={k: round(v, 2) for k, v in solver_time.items()},
            evaluations=n_wit + sum(int(b.get('evaluations', 0)) for b in bounded_res),
            distinct_nontrivial=len(distinct) + sum(int(b.get('distinct_nontrivial', 0)) for b in bounded_res),
            rule='evaluations = path witnesses (one concrete input per enumerated symbolic path, from a model of the '
                 'path condition) plus contract samples, each run through the REAL function under /venv/bin/python '
                 'with the contract evaluated at run time; distinct = distinct (function, config, input) triples',
            samples=samples,
            clauses=meta.get('clauses', []),
            bounded_standins=bounded_res,
            undecided=[u['name'] for u in undecided][:50],
            known_findings=sorted(x for x in seen_kf if x),
            library_models=sorted({m for r in results for m in r.get('models', [])}),
            slowest_obligations=[dict(obligation=o['name'], solver=o['solver'], time_s=o['time'])
                                 for o in sorted(obligations, key=lambda o: -o['time'])[:8]],
            slowest_units=[dict(unit='%s[%s]' % (r['target'], r['cfg']), wall_s=round(r.get('wall_s', 0), 1))
                           for r in sorted(results, key=lambda r: -r.get('wall_s', 0))[:8]],
            engine_cpython_mismatches=len(engine_mismatch),
            exhaustive=False,
        ),
        assumptions=meta.get('assumptions', []) + COMMON_ASSUMPTIONS,
        wall_s=round(wall, 2),
        violations=len(violations),
    )
    if meta['level'] != 'proof':
        evidence['coverage']['explanation'] = meta.get('explanation', '')
    # evidence belongs to /repo itself; a run against another tree (PYVC_REPO: mutants, seeded copies) must not overwrite it
    evdir = os.path.join(VERIF, 'evidence') if (os.path.realpath(REPO) == '/repo' and not os.environ.get('PYVC_SCRATCH_EVIDENCE')) else os.path.join(VERIF, 'replays', 'evidence-of-other-trees')
    os.makedirs(evdir, exist_ok=True)
    json.dump(evidence, open(os.path.join(evdir, prop + '.json'), 'w'), indent=1, sort_keys=True)
    print('%s: %d/%d obligations discharged (%s), %d paths, %d real-code evaluations, %d violations, %d undecided, %.1fs'
          % (prop, n_ok, n_obl, ', '.join('%s:%d' % kv for kv in sorted(solver_count.items())),
             sum(r['paths'] for r in results), evidence['coverage']['evaluations'], len(violations), len(undecided), wall))
    if violations:
        return 1
    if errors or guard_errors or engine_mismatch:
        return 3
    if undecided:
        return 2
    return 0


def _match_finding(findings, name, inputs):
    for f in findings:
        if re.search(f['obligation'], name):
            region = f.get('region')
            if region is None:
                return f
            try:
                env = dict(inputs or {})
                from pyvc import dsl
                env.update(And=dsl.And, Or=dsl.Or, Not=dsl.Not, len=len)
                if eval(region, {'__builtins__': {}}, env):
                    return f
            except Exception:
                continue
    return None


COMMON_TRUSTED = [
    'pyvc: AST symbolic executor and VC generator in /verif/pyvc (Python semantics as listed in DESIGN.md §2)',
    'z3 4.x/5.x and cvc5 1.0 (SMT solvers)',
    'sidecar contracts and spec functions in /verif/contracts (hand-written oracle, from MIDI 1.0 / SMF 1.0)',
]
COMMON_ASSUMPTIONS = [
    'Python ints are mathematical integers (exact for CPython); bit operators encoded by div/mod arithmetic',
    'the code behaves the same under python 3.11 (verifier) and 3.12 (test-suite interpreter); every path witness is '
    're-run under 3.12',
    'no threads, signals, MemoryError/RecursionError inside one call',
]

if __name__ == '__main__':
    sys.exit(main())
