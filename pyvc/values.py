"""Symbolic value model of pyvc (see DESIGN.md §2)."""
import fractions
import z3

ISort = z3.IntSort()
BSort = z3.BoolSort()
RSort = z3.RealSort()
StrSort = z3.StringSort()
IntSeq = z3.SeqSort(ISort)


class Unsupported(Exception):
    """construct outside the modelled subset -> obligation undecided (never 'passed', never 'violated')"""


class Infeasible(Exception):
    pass


class PyRaise(Exception):
    """a Python-level exception raised by the interpreted program"""
    def __init__(self, cls, args=(), cause=None, where=None):
        Exception.__init__(self, cls.__name__)
        self.cls = cls
        self.args_ = tuple(args)
        self.cause = cause
        self.where = where

    def __repr__(self):
        return 'PyRaise(%s%r)' % (self.cls.__name__, self.args_)


def py_raise(cls, *args):
    raise PyRaise(cls, args)


class Sym:
    pass


class SInt(Sym):
    __slots__ = ('e',)

    def __init__(self, e):
        self.e = e if z3.is_expr(e) else z3.IntVal(e)

    def __repr__(self):
        return 'SInt(%s)' % self.e


class SBool(Sym):
    __slots__ = ('e',)

    def __init__(self, e):
        self.e = e if z3.is_expr(e) else z3.BoolVal(e)

    def __repr__(self):
        return 'SBool(%s)' % self.e


class SReal(Sym):
    """a float, modelled as a mathematical real (assumption: no rounding)"""
    __slots__ = ('e',)

    def __init__(self, e):
        self.e = e if z3.is_expr(e) else real_val(e)

    def __repr__(self):
        return 'SReal(%s)' % self.e


class SStr(Sym):
    __slots__ = ('e',)

    def __init__(self, e):
        self.e = e if z3.is_expr(e) else z3.StringVal(e)

    def __repr__(self):
        return 'SStr(%s)' % self.e


class ElemKind:
    """element kind of a symbolic sequence: z3 sort + conversions"""
    def __init__(self, name, sort, wrap, unwrap):
        self.name, self.sort, self.wrap, self.unwrap = name, sort, wrap, unwrap
        self.seqsort = z3.SeqSort(sort)


class SSeq(Sym):
    """immutable sequence value with symbolic length; pycls says which Python class it stands for"""
    __slots__ = ('e', 'pycls', 'ek')

    def __init__(self, e, pycls=list, ek=None):
        self.e = e
        self.pycls = pycls
        self.ek = ek or INT_EK

    def __repr__(self):
        return 'SSeq<%s>(%s)' % (self.pycls.__name__, self.e)


class Cell:
    """mutable sequence object with identity (list / bytearray / deque) whose content is an SSeq.
    A cell handed to an ABSTRACT container (which only remembers facts about the content at that moment) is `sealed`:
    a later in-place change of it would silently invalidate the abstraction, so it is recorded in MUTATED_SEALED and the
    contracts that use such containers turn that into a failed obligation."""
    MUTATED_SEALED = []

    def __init__(self, v, pycls=list):
        assert isinstance(v, SSeq)
        self.sealed = None
        self._v = v
        self.pycls = pycls
        self._v.pycls = pycls

    @property
    def v(self):
        return self._v

    @v.setter
    def v(self, nv):
        if self.sealed is not None:
            Cell.MUTATED_SEALED.append((self.sealed, self))
        self._v = nv

    def __repr__(self):
        return 'Cell<%s>(%s)' % (self.pycls.__name__, self.v.e)


class Obj:
    """instance of a class (usually a repo class): real class object + attribute dict"""
    def __init__(self, cls, attrs=None):
        self.cls = cls
        self.attrs = attrs if attrs is not None else {}
        self.ghost = {}

    def __repr__(self):
        return 'Obj<%s %r>' % (self.cls.__name__, self.attrs)


class ExcVal:
    """exception instance"""
    def __init__(self, cls, args=()):
        self.cls = cls
        self.args = tuple(args)
        self.cause = None

    def __repr__(self):
        return 'ExcVal(%s%r)' % (self.cls.__name__, self.args)


class Bound:
    def __init__(self, obj, fn):
        self.obj = obj
        self.fn = fn

    def __repr__(self):
        return 'Bound(%r, %r)' % (self.obj, self.fn)


class Closure:
    """function defined inside interpreted code (lambda / nested def / generator expression)"""
    def __init__(self, node, env, g, name='<lambda>'):
        self.node, self.env, self.g, self.name = node, env, g, name


class GenObj:
    def __init__(self, it, name='gen'):
        self.it = it
        self.name = name
        self.done = False


class Opaque:
    """a value about which nothing is known except its tag (e.g. the device behind a port)"""
    def __init__(self, tag):
        self.tag = tag

    def __repr__(self):
        return 'Opaque(%s)' % self.tag


def real_val(x):
    if isinstance(x, float):
        fr = fractions.Fraction(x)
        return z3.RealVal('%d/%d' % (fr.numerator, fr.denominator))
    return z3.RealVal(x)


def is_sym(v):
    return isinstance(v, Sym)


def has_sym(v, depth=0):
    if isinstance(v, (Sym, Obj, Cell, Bound, Closure, GenObj, ExcVal, Opaque)):
        return True
    if depth > 6:
        return False
    if isinstance(v, (list, tuple, set, frozenset)):
        return any(has_sym(x, depth + 1) for x in v)
    if isinstance(v, dict):
        return any(has_sym(x, depth + 1) for x in v.values()) or any(has_sym(x, depth + 1) for x in v.keys())
    return False


def zi(v):
    if isinstance(v, SInt):
        return v.e
    if isinstance(v, SBool):
        return z3.If(v.e, z3.IntVal(1), z3.IntVal(0))
    if isinstance(v, bool):
        return z3.IntVal(int(v))
    if isinstance(v, int):
        return z3.IntVal(v)
    raise Unsupported('not an int: %r' % (v,))


def zb(v):
    if isinstance(v, SBool):
        return v.e
    if isinstance(v, bool):
        return z3.BoolVal(v)
    raise Unsupported('not a bool: %r' % (v,))


def zr(v):
    if isinstance(v, SReal):
        return v.e
    if isinstance(v, (SInt, SBool)):
        return z3.ToReal(zi(v))
    if isinstance(v, bool):
        return z3.RealVal(int(v))
    if isinstance(v, (int, float)):
        return real_val(v)
    raise Unsupported('not a real: %r' % (v,))


def zs(v):
    if isinstance(v, SStr):
        return v.e
    if isinstance(v, str):
        return z3.StringVal(v)
    raise Unsupported('not a str: %r' % (v,))


def _int_unwrap(v):
    return zi(v)


INT_EK = ElemKind('int', ISort, SInt, _int_unwrap)
REAL_EK = ElemKind('real', RSort, SReal, lambda v: zr(v))
STR_EK = ElemKind('str', StrSort, SStr, lambda v: zs(v))
_SUMS = {}


def seq_sum_fn(ek):
    """SUM(s, n) = s[0] + ... + s[n-1]  (uninterpreted; SUM(s,0)=0, SUM(s,n+1)=SUM(s,n)+s[n] supplied as hints)"""
    if ek.name not in _SUMS:
        _SUMS[ek.name] = z3.Function('SUM_' + ek.name, ek.seqsort, ISort, ek.sort)
    return _SUMS[ek.name]


def unfold_sum(ek, s, n):
    f = seq_sum_fn(ek)
    zero = z3.IntVal(0) if ek.sort == ISort else z3.RealVal(0)
    return [f(s, z3.IntVal(0)) == zero, z3.Implies(z3.And(n >= 0, n < z3.Length(s)), f(s, n + 1) == f(s, n) + s[n])]


def zseq(v, ek=None):
    """z3 Seq term of a sequence value (symbolic or concrete-length with symbolic leaves)"""
    if isinstance(v, Cell):
        v = v.v
    if isinstance(v, SSeq):
        return v.e
    ek = ek or INT_EK
    if isinstance(v, (list, tuple, bytes, bytearray)):
        if len(v) == 0:
            return z3.Empty(ek.seqsort)
        parts = [z3.Unit(ek.unwrap(x)) for x in v]
        return z3.Concat(*parts) if len(parts) > 1 else parts[0]
    raise Unsupported('not a sequence: %r' % (v,))


def is_intlike(v):
    return isinstance(v, (SInt, SBool, int)) and not isinstance(v, float)


def is_numlike(v):
    return isinstance(v, (SInt, SBool, SReal, int, float))
