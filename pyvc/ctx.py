"""Path context: decision replay, path condition, instantiation pool, obligations."""
import time
import z3
from . import dsl
from .values import Infeasible, Unsupported


class Obligation:
    def __init__(self, name, npc, goal, hints=(), kind='ensures', info=None):
        self.name = name          # e.g. mido.messages.decode:decode_message#ensures.wellformed@p3
        self.npc = npc            # how many path-condition entries were present
        self.goal = goal          # clause (z3 Bool / All / Ex) or list of clauses
        self.hints = list(hints)  # extra sound facts (definition unfoldings, lemma instances)
        self.kind = kind
        self.info = info or {}
        self.result = None        # 'unsat' | 'sat' | 'unknown'
        self.model = None
        self.solver = None
        self.time = 0.0
        self.reason = ''


class CutPath(Exception):
    """end of an inductive-step path (loop body executed once, invariant re-established)"""


class Ctx:
    def __init__(self, decisions=(), feas_timeout_ms=10000):
        self.decisions = list(decisions)
        self.pos = 0
        self.pc = []               # list of clauses (z3 Bool or Q nodes)
        self.new_alts = []
        self.solver = z3.Solver()
        self.solver.set('timeout', feas_timeout_ms)
        self.nq = 0
        self.nfresh = 0
        self.pool = []             # index terms for instantiating ∀-hypotheses
        self.obligations = []
        self.log = []              # ghost event log: (kind, ...)
        self.gstore = {}           # overlay of module globals written by interpreted code
        self.inputs = {}           # name -> z3 const (for model projection)
        self.notes = []
        self.held = []             # held locks (C10)
        self.unknown_feas = 0

    # ---- fresh symbols (deterministic per path so replays line up)
    def fresh(self, prefix, sort=None):
        self.nfresh += 1
        name = '%s!%d' % (prefix, self.nfresh)
        return z3.Const(name, sort if sort is not None else z3.IntSort())

    def fresh_index(self, prefix='k'):
        k = self.fresh(prefix)
        self.add_pool(k)
        return k

    def add_pool(self, t):
        if isinstance(t, int):
            t = z3.IntVal(t)
        if z3.is_expr(t) and not any(t.eq(p) for p in self.pool):
            self.pool.append(t)
            # tell the feasibility solver the instances of the ∀-facts of this path at the new index term
            for c in list(self.pc) + list(self.__dict__.get('_unfold_alls', [])):
                if isinstance(c, dsl.All):
                    self._instantiate(c, t)

    def _instantiate(self, c, t):
        try:
            body = c.f(t)
            if isinstance(body, bool):
                body = z3.BoolVal(body)
            self.solver.add(z3.Implies(z3.And(c.lo <= t, t < c.hi), body))
            self._unfold_defs(body)
        except z3.Z3Exception:
            pass

    def _unfold_defs(self, e):
        """feasibility solver only: quantifier-free part of  P(t) ==> body(t)  for defined predicates in e"""
        if not dsl.DEFS or not z3.is_expr(e):
            return
        stack = [e]
        seen = self.__dict__.setdefault('_unfolded', set())
        while stack:
            x = stack.pop()
            if z3.is_app(x):
                if x.decl().name() in dsl.DEFS and x.get_id() not in seen:
                    seen.add(x.get_id())
                    self.__dict__.setdefault('_unfold_keep', []).append(x)
                    for cl in dsl.flat(dsl.DEFS[x.decl().name()](*x.children())):
                        if isinstance(cl, dsl.All):
                            q = dsl.All(cl.lo, cl.hi, lambda k, cl=cl, x=x: z3.Implies(x, cl.f(k)), cl.name)
                            for t in list(self.pool):
                                self._instantiate(q, t)
                            self.__dict__.setdefault('_unfold_alls', []).append(q)
                        elif not isinstance(cl, (dsl.Q, dsl.AnyOf)):
                            self.solver.add(z3.Implies(x, cl if not isinstance(cl, bool) else z3.BoolVal(cl)))
                stack.extend(x.children())

    # ---- assumptions
    def assume(self, clause):
        for c in dsl.flat(clause):
            if isinstance(c, dsl.Ex):
                # skolemise
                k = self.fresh_index(c.name)
                body = c.f(k)
                self.assume([c.lo <= k, k < c.hi])
                self.assume(body)
            elif isinstance(c, dsl.All):
                self.pc.append(c)
                for t in list(self.pool):
                    self._instantiate(c, t)
            elif isinstance(c, dsl.AnyOf):
                # only the quantifier-free parts can be told to the feasibility solver
                self.pc.append(c)
            else:
                if isinstance(c, bool):
                    c = z3.BoolVal(c)
                self.pc.append(c)
                self.solver.add(c)
                self._unfold_defs(c)

    def feasible(self, e):
        self.nq += 1
        self.solver.push()
        try:
            self.solver.add(e)
            r = self.solver.check()
        except z3.Z3Exception:
            r = z3.unknown            # e.g. 'reached max unfolding' in the sequence solver: treat as possibly feasible
        finally:
            self.solver.pop()
        if r == z3.unknown:
            self.unknown_feas += 1
            if getattr(self, 'prefer_cvc5', False):
                from . import solve
                s2 = z3.Solver()
                s2.add(self.solver.assertions())
                s2.add(e)
                if solve.check_cvc5(s2, 5)[0] == 'unsat':
                    return False
        return r != z3.unsat

    # ---- branching
    def _replaying(self):
        return self.pos < len(self.decisions)

    def branch(self, cond):
        """cond: z3 Bool; returns the Python bool chosen for this path"""
        if isinstance(cond, bool):
            return cond
        sc = z3.simplify(cond)       # only to recognise constants; the original term is what gets assumed
        if z3.is_true(sc):
            return True
        if z3.is_false(sc):
            return False
        if self._replaying():
            d = self.decisions[self.pos]
            self.pos += 1
            self.assume(cond if d else z3.Not(cond))
            return bool(d)
        t = self.feasible(cond)
        f = self.feasible(z3.Not(cond))
        if t and f:
            self.new_alts.append(self.decisions[:self.pos] + [0])
            d = 1
        elif t:
            d = 1
        elif f:
            d = 0
        else:
            raise Infeasible()
        self.decisions.append(d)
        self.pos += 1
        self.assume(cond if d else z3.Not(cond))
        return bool(d)

    def branch_clause(self, pos_clause, neg_clause):
        """two-way branch on a quantified condition; no feasibility pruning (sound)"""
        if self._replaying():
            d = self.decisions[self.pos]
            self.pos += 1
        else:
            self.new_alts.append(self.decisions[:self.pos] + [0])
            d = 1
            self.decisions.append(d)
            self.pos += 1
        self.assume(pos_clause if d else neg_clause)
        return bool(d)

    def fork(self, n):
        """n-way nondeterministic choice (used when applying a callee contract: which outcome)"""
        if n <= 1:
            return 0
        if self._replaying():
            d = self.decisions[self.pos]
            self.pos += 1
            return d
        for alt in range(1, n):
            self.new_alts.append(self.decisions[:self.pos] + [alt])
        self.decisions.append(0)
        self.pos += 1
        return 0

    def choose(self, conds):
        """n-way branch over mutually exclusive z3 conditions; the last one is the 'else'"""
        for i, c in enumerate(conds[:-1]):
            if self.branch(c):
                return i
        return len(conds) - 1

    def unique_int(self, e):
        """if e has exactly one value under the path condition return it (a Python int), else None"""
        e = z3.simplify(e)
        if z3.is_int_value(e):
            return e.as_long()
        self.solver.push()
        try:
            if self.solver.check() != z3.sat:
                return None
            val = self.solver.model().eval(e, model_completion=True)
        except z3.Z3Exception:
            return None
        finally:
            self.solver.pop()
        if self.feasible(e != val):
            return None
        return val.as_long()

    # ---- obligations
    def oblige(self, name, goal, hints=(), kind='ensures', info=None):
        ob = Obligation(name, len(self.pc), goal, hints, kind, info)
        self.obligations.append(ob)
        return ob

    def event(self, *ev):
        self.log.append(tuple(ev))


def explore(run, max_paths=4000, feas_timeout_ms=10000, time_budget=None):
    """enumerate all paths of run(ctx) by decision replay.
    returns list of (ctx, (kind, payload)) with kind in ok / raise / cut / unsupported"""
    from .values import PyRaise
    work = [[]]
    results = []
    t0 = time.time()
    while work:
        dec = work.pop()
        ctx = Ctx(dec, feas_timeout_ms)
        try:
            out = ('ok', run(ctx))
        except PyRaise as pr:
            out = ('raise', pr)
        except Infeasible:
            out = None
        except CutPath:
            out = ('cut', None)
        except Unsupported as u:
            out = ('unsupported', str(u))
        except RecursionError:
            out = ('unsupported', 'recursion limit of the verifier')
        work.extend(ctx.new_alts)
        if out is not None:
            results.append((ctx, out))
        if len(results) > max_paths:
            results.append((ctx, ('unsupported', 'path explosion (> %d paths)' % max_paths)))
            break
        if time_budget and time.time() - t0 > time_budget:
            results.append((ctx, ('unsupported', 'path enumeration exceeded %ss' % time_budget)))
            break
    return results
