"""Discharging obligations: z3 (Python API) first, cvc5 (binary, SMT-LIB text) on `unknown`."""
import os
import re
import subprocess
import tempfile
import time
import z3

from . import dsl

Z3_TIMEOUT_MS = int(os.environ.get('PYVC_Z3_TIMEOUT_MS', '20000'))
CVC5_TIMEOUT_S = int(os.environ.get('PYVC_CVC5_TIMEOUT_S', '60'))
CVC5 = '/usr/bin/cvc5'


def _inst_terms(pool, offsets=(), stage=3):
    """index terms at which every ∀-hypothesis is instantiated.  Stages (each a superset of the previous one;
    fewer instances keep the sequence solver fast, more instances prove more):
      0: the pool (loop indices, skolems, subscripts seen on the path) and 0
      1: + pool terms shifted down by the bounds of the ∀-hypotheses (a fact about s2 at index k - len(s1) of s1 ++ s2)
      2: + neighbours t+1, t-1
      3: + last positions (bound - 1) and pool terms shifted up"""
    out = []
    seen = set()

    def add(tt):
        tt = z3.simplify(tt)
        key = tt.get_id()
        if key not in seen:
            seen.add(key)
            out.append(tt)
    for t in list(pool) + [z3.IntVal(0)]:
        add(t)
    offs = []
    for o in offsets:
        if z3.is_expr(o) and not z3.is_int_value(o) and not any(o.eq(x) for x in offs):
            offs.append(o)
    offs = offs[:6]
    if stage >= 1:
        for o in offs:
            for t in list(pool):
                add(t - o)
                add(o - 1 - t)          # mirrored position (reversed sequences)
    if stage >= 2:
        for t in list(pool):
            add(t + 1)
            add(t - 1)
    if stage >= 3:
        for o in offs:
            add(o - 1)
            for t in list(pool):
                add(t + o)
    return out


class _Skolemised:
    def __init__(self, e):
        self.e = e


class Encoded:
    def __init__(self):
        self.assertions = []
        self.quantified = []    # full ∀ formulas, only used in the second attempt
        self.weakened = False   # True if some ∀ hypothesis was replaced by finitely many instances


def nth_indices(assertions):
    """index terms of all seq.nth applications in the assertions (used like E-matching triggers)"""
    out = []
    seen = set()
    stack = list(assertions)
    visited = set()
    while stack:
        e = stack.pop()
        if not z3.is_expr(e) or e.get_id() in visited:
            continue
        visited.add(e.get_id())
        if z3.is_quantifier(e):
            continue
        if z3.is_app(e):
            if e.decl().kind() == z3.Z3_OP_SEQ_NTH:
                i = e.arg(1)
                if i.get_id() not in seen and not z3.is_int_value(i):
                    seen.add(i.get_id())
                    out.append(i)
            stack.extend(e.children())
    return out


def encode(pc, hints, goal, pool, fresh, stage=3, extra_terms=(), small=None):
    """pc ∧ hints ∧ ¬goal as a list of quantifier-free assertions (+ the full ∀s kept aside)"""
    enc = Encoded()
    pool = list(pool)
    neg_goal = []
    goal_all_hyps = []          # ∀ hypotheses that come from negating an ∃ goal

    def neg_clause(c):
        if isinstance(c, dsl.All):
            k = fresh(c.name)
            pool.append(k)
            return z3.And(c.lo <= k, k < c.hi, z3.Not(_zb(c.f(k))))
        if isinstance(c, dsl.Ex):
            goal_all_hyps.append(dsl.All(c.lo, c.hi, lambda k, c=c: z3.Not(_zb(c.f(k))), c.name))
            return z3.BoolVal(True)
        if isinstance(c, dsl.AnyOf):
            return z3.And([neg_clause(p) for p in c.parts])
        return z3.Not(_zb(c))

    goals = dsl.flat(goal)
    # ¬(g1 ∧ g2 ∧ ...) = ¬g1 ∨ ¬g2 ...
    negs = [neg_clause(g) for g in goals]
    enc.assertions.append(z3.Or(negs) if len(negs) != 1 else negs[0])
    if goal_all_hyps and len(goals) > 1:
        raise ValueError('an ∃ goal must be its own obligation')

    hyps = [c for c in dsl.flat(list(pc) + list(hints))] + goal_all_hyps
    terms = None
    enc.alls = [c for c in hyps if isinstance(c, dsl.All)]
    enc.pool = pool

    def hyp_clause(c):
        nonlocal terms
        if isinstance(c, dsl.All) and small is not None:
            # small-model search: the range has at most `small` elements and the body holds at each of them.  This is
            # STRONGER than the ∀ hypothesis, so a model of the result is a genuine model (used only to find witnesses)
            return z3.And([c.hi - c.lo <= small] + [z3.Implies(c.lo + j < c.hi, _zb(c.f(c.lo + j))) for j in range(small)])
        if isinstance(c, dsl.All):
            if terms is None:
                offs = []
                for hq in hyps:
                    if isinstance(hq, dsl.All):
                        offs.extend([hq.lo, hq.hi])
                terms = _inst_terms(list(pool) + list(extra_terms), offs, stage)
            enc.weakened = True
            k = z3.Int('q!' + c.name)
            enc.quantified.append(z3.ForAll([k], z3.Implies(z3.And(c.lo <= k, k < c.hi), _zb(c.f(k)))))
            return z3.And([z3.Implies(z3.And(c.lo <= t, t < c.hi), _zb(c.f(t))) for t in terms])
        if isinstance(c, _Skolemised):
            return c.e
        if isinstance(c, dsl.Ex):
            k = fresh(c.name)
            return z3.And(c.lo <= k, k < c.hi, _zb(c.f(k)))
        if isinstance(c, dsl.AnyOf):
            return z3.Or([hyp_clause(p) for p in c.parts])
        return _zb(c)

    # two passes: existential hypotheses are skolemised first so that their witnesses are in the pool when the
    # universal hypotheses get instantiated
    first, second = [], []
    for h in hyps:
        (second if isinstance(h, dsl.All) else first).append(h)

    def pre_skolem(c):
        if isinstance(c, dsl.Ex):
            k = fresh(c.name)
            pool.append(k)
            return _Skolemised(z3.And(c.lo <= k, k < c.hi, _zb(c.f(k))))
        if isinstance(c, dsl.AnyOf):
            return dsl.AnyOf([pre_skolem(p) for p in c.parts])
        return c
    first = [pre_skolem(h) for h in first]
    for h in first + second:
        enc.assertions.append(hyp_clause(h))
    # unfold defined predicates at their occurrences:  P(t) ==> body(t)
    if dsl.DEFS:
        seen = set()
        for _ in range(2):
            apps = []
            stack = list(enc.assertions)
            visited = set()
            while stack:
                e = stack.pop()
                if not z3.is_expr(e) or e.get_id() in visited:
                    continue
                visited.add(e.get_id())
                if z3.is_quantifier(e):
                    stack.append(e.body())
                    continue
                if z3.is_app(e):
                    if e.decl().name() in dsl.DEFS and e.get_id() not in seen and not _has_bound_var(e):
                        seen.add(e.get_id())
                        apps.append(e)
                    stack.extend(e.children())
            if not apps:
                break
            for app in apps:
                body = dsl.DEFS[app.decl().name()](*app.children())
                for c in dsl.flat(dsl.when(app, body)):
                    enc.assertions.append(hyp_clause(c))
    return enc


def refine(enc, extra_terms, timeout_ms, rounds=10):
    """counterexample-guided instantiation: solve with the few instances of stage 0; while the solver returns a candidate
    model, add exactly those instances of the ∀ hypotheses (over the large stage-3 term universe) that the candidate violates.
    Only sound consequences are ever added, so `unsat` is a proof; anything else falls back to the staged procedure."""
    if not enc.alls:
        return None
    offs = []
    for hq in enc.alls:
        offs.extend([hq.lo, hq.hi])
    universe = _inst_terms(list(enc.pool) + list(extra_terms), offs, 3)
    if len(universe) * len(enc.alls) > 6000:
        universe = universe[:max(40, 6000 // len(enc.alls))]
    assertions = list(enc.assertions)
    seen = set()
    t_end = time.time() + timeout_ms / 1000.0
    for _ in range(rounds):
        left = int((t_end - time.time()) * 1000)
        if left < 500:
            return None
        s, r, dt = check_z3(assertions + seq_axioms(assertions), min(left, 8000))
        if r == z3.unsat:
            return 'unsat'
        if r != z3.sat:
            return None
        m = s.model()
        new = []
        for c in enc.alls:
            for t in universe:
                try:
                    guard = m.eval(z3.And(c.lo <= t, t < c.hi), model_completion=True)
                    if not z3.is_true(guard):
                        continue
                    body = _zb(c.f(t))
                    if z3.is_false(m.eval(body, model_completion=True)):
                        inst = z3.Implies(z3.And(c.lo <= t, t < c.hi), body)
                        if inst.get_id() not in seen:
                            seen.add(inst.get_id())
                            new.append(inst)
                except z3.Z3Exception:
                    continue
        if not new:
            return None
        assertions.extend(new[:400])
    return None


def _has_bound_var(e):
    stack = [e]
    while stack:
        x = stack.pop()
        if z3.is_var(x):
            return True
        if z3.is_app(x):
            stack.extend(x.children())
    return False


def seq_axioms(assertions, rounds=3):
    """sound instances of sequence-theory facts that z3 is slow to find by itself:
         nth(a ++ b ++ ..., i)    = nth of the part that contains position i
         nth(extract(s, o, l), i) = nth(s, o + i)           for 0 <= i < l, 0 <= o, o + l <= len(s)
       generated for the nth-terms that occur in the assertions (fixpoint up to `rounds`)."""
    seen = set()
    out = []
    todo = list(assertions)
    for _ in range(rounds):
        found = []
        stack = list(todo)
        visited = set()
        while stack:
            e = stack.pop()
            if not z3.is_expr(e):
                continue
            eid = e.get_id()
            if eid in visited:
                continue
            visited.add(eid)
            if z3.is_quantifier(e):
                continue
            if z3.is_app(e):
                if e.decl().kind() == z3.Z3_OP_SEQ_NTH and eid not in seen:
                    seen.add(eid)
                    found.append(e)
                stack.extend(e.children())
        new = []
        for e in found:
            s, i = e.arg(0), e.arg(1)
            if not z3.is_app(s):
                continue
            k = s.decl().kind()
            if k == z3.Z3_OP_SEQ_CONCAT:
                parts = s.children()
                off = z3.IntVal(0)
                for p in parts:
                    ln = z3.Length(p)
                    new.append(z3.Implies(z3.And(i >= off, i < off + ln), e == p[i - off]))
                    off = off + ln
            elif k == z3.Z3_OP_SEQ_EXTRACT:
                base, o, l = s.arg(0), s.arg(1), s.arg(2)
                new.append(z3.Implies(z3.And(i >= 0, i < l, o >= 0, o + l <= z3.Length(base)), e == base[o + i]))
            elif k == z3.Z3_OP_SEQ_UNIT:
                new.append(z3.Implies(i == 0, e == s.arg(0)))
        if not new:
            break
        out.extend(new)
        todo = new
    return out


def _zb(x):
    if isinstance(x, bool):
        return z3.BoolVal(x)
    return x


def check_z3(assertions, timeout_ms):
    s = z3.Solver()
    s.set('timeout', timeout_ms)
    for a in assertions:
        s.add(a)
    t0 = time.time()
    r = s.check()
    dt = time.time() - t0
    return s, r, dt


def check_cvc5(solver, timeout_s):
    text = solver.to_smt2()
    text = text.replace('int.to.str', 'str.from_int').replace('str.to.int', 'str.to_int')
    if 'seq.nth_' in text:
        # z3-internal names produced by its simplifier: nth_i is nth inside the bounds, nth_u is unspecified
        text = text.replace('seq.nth_i', 'seq.nth').replace('seq.nth_u', 'pyvc_nth_u')
        text = text.replace('(set-info :status', '(declare-fun pyvc_nth_u ((Seq Int) Int) Int)\n(set-info :status', 1) \
            if '(set-info :status' in text else '(declare-fun pyvc_nth_u ((Seq Int) Int) Int)\n' + text
    text = '(set-logic ALL)\n' + text
    fd, path = tempfile.mkstemp(suffix='.smt2', prefix='pyvc_')
    try:
        with os.fdopen(fd, 'w') as fh:
            fh.write(text)
        t0 = time.time()
        try:
            p = subprocess.run([CVC5, '--strings-exp', '--tlimit=%d' % (timeout_s * 1000), path],
                               capture_output=True, text=True, timeout=timeout_s + 10)
            out = p.stdout.strip().splitlines()
            res = out[0].strip() if out else 'unknown'
            if res not in ('sat', 'unsat', 'unknown'):
                res = 'unknown'
        except subprocess.TimeoutExpired:
            res = 'unknown'
        return res, time.time() - t0
    finally:
        os.unlink(path)


class Have:
    """intermediate assertion (Dafny's `assert`): proved first, under the same path condition and without the
    other hints, and only then used as an extra hypothesis.  A `Have` that cannot be proved is dropped."""
    def __init__(self, formula, name='have'):
        self.formula = formula
        self.name = name


def _resolve_haves(ctx, ob, z3_timeout_ms):
    out = []
    for h in ob.hints:
        if isinstance(h, Have):
            from .ctx import Obligation
            sub = Obligation(ob.name + '.' + h.name, ob.npc, h.formula, [x for x in out], 'have')
            r = discharge(ctx, sub, max(2000, (z3_timeout_ms or Z3_TIMEOUT_MS) // 2), use_cvc5=False)
            if os.environ.get('PYVC_TRACE'):
                print('      [have] %s -> %s' % (sub.name, r), flush=True)
            if r == 'unsat':
                out.append(h.formula)
        else:
            out.append(h)
    return out


def discharge(ctx, ob, z3_timeout_ms=None, use_cvc5=True):
    """sets ob.result in {'unsat','sat','unknown'}; ob.model (z3 model) when a candidate exists;
    ob.genuine = True when `sat` was obtained without weakening any hypothesis"""
    z3_timeout_ms = z3_timeout_ms or Z3_TIMEOUT_MS
    t0 = time.time()
    if any(isinstance(h, Have) for h in ob.hints):
        ob.hints = _resolve_haves(ctx, ob, z3_timeout_ms)
    nfresh0 = ctx.nfresh
    extra = []
    if getattr(ctx, 'prefer_cvc5', False) and use_cvc5 and os.path.exists(CVC5):
        # string-heavy units (contract attribute solver = 'cvc5'): word equations are cvc5's strength, z3 only burns its budget
        enc = encode(ctx.pc[:ob.npc], ob.hints, ob.goal, ctx.pool, ctx.fresh, 0, extra)
        ctx.nfresh = nfresh0
        s0 = z3.Solver()
        for a in enc.assertions + seq_axioms(enc.assertions):
            s0.add(a)
        res, dtc = check_cvc5(s0, CVC5_TIMEOUT_S)
        if res == 'unsat':
            ob.result, ob.solver, ob.genuine, ob.time = 'unsat', 'cvc5', False, time.time() - t0
            return ob.result
        z3_timeout_ms = min(z3_timeout_ms, 5000)
    for stage in (0, 1, 2, 3):
        ctx.nfresh = nfresh0          # same skolem names at every stage
        enc = encode(ctx.pc[:ob.npc], ob.hints, ob.goal, ctx.pool, ctx.fresh, stage, extra)
        last = stage == 3 or not enc.weakened
        enc.assertions = enc.assertions + seq_axioms(enc.assertions)
        if stage == 0 and enc.weakened:
            # E-matching on nth: the positions at which the path / the sequence axioms look into sequences are the
            # positions at which the ∀-facts about those sequences are needed
            known = {t.get_id() for t in ctx.pool}
            extra = [t for t in nth_indices(enc.assertions) if t.get_id() not in known][:24]
        s, r, dt = check_z3(enc.assertions, z3_timeout_ms if last else max(2000, z3_timeout_ms // 4))
        if os.environ.get('PYVC_TRACE'):
            print('      [solve] %s stage %d -> %s in %.1fs (%d assertions)' % (ob.name, stage, r, dt, len(enc.assertions)), flush=True)
        if r == z3.unsat or last:
            break
        if stage == 0 and r == z3.sat and os.environ.get('PYVC_NO_REFINE') is None:
            if refine(enc, extra, z3_timeout_ms) == 'unsat':
                r = z3.unsat
                if os.environ.get('PYVC_TRACE'):
                    print('      [solve] %s refined -> unsat in %.1fs' % (ob.name, time.time() - t0), flush=True)
                break
    ob.solver = 'z3'
    ob.genuine = False
    if r == z3.unsat:
        ob.result = 'unsat'
    elif r == z3.sat and not enc.weakened:
        ob.result = 'sat'
        ob.model = s.model()
        ob.genuine = True
    else:
        cand = s.model() if r == z3.sat else None
        if enc.weakened:
            # second attempt with the full quantifiers
            s2, r2, dt2 = check_z3(enc.assertions + enc.quantified, z3_timeout_ms)
            if r2 == z3.unsat:
                ob.result = 'unsat'
            elif r2 == z3.sat:
                ob.result = 'sat'
                ob.model = s2.model()
                ob.genuine = True
            else:
                ob.result = 'unknown'
                ob.model = cand
                ob.reason = 'z3: ' + s2.reason_unknown()
                s = s2
        else:
            ob.result = 'unknown'
            ob.reason = 'z3: ' + s.reason_unknown()
        if ob.result == 'unknown' and use_cvc5 and os.path.exists(CVC5):
            res, dtc = check_cvc5(s, CVC5_TIMEOUT_S)
            if res == 'unsat':
                ob.result = 'unsat'
                ob.solver = 'cvc5'
            elif res == 'sat' and not enc.weakened:
                ob.result = 'sat'
                ob.solver = 'cvc5'
                ob.genuine = True
    if ob.result == 'unknown' and enc.weakened:
        # witness search in small models (ranges of the ∀ hypotheses of at most 4 elements): finds genuine counterexamples
        # where the full quantifiers leave the solver without an answer
        ctx.nfresh = nfresh0
        encs = encode(ctx.pc[:ob.npc], ob.hints, ob.goal, ctx.pool, ctx.fresh, 0, (), small=4)
        s4, r4, dt4 = check_z3(encs.assertions, min(z3_timeout_ms, 10000))
        if r4 == z3.sat:
            ob.result = 'sat'
            ob.model = s4.model()
            ob.genuine = True
            ob.solver = 'z3'
            ob.reason = 'small-model witness'
    if ob.result == 'unknown' and not getattr(ob, '_retried', False):
        # solver instability insurance: one more attempt with another seed and a three times larger budget
        s3 = z3.Solver()
        s3.set('timeout', 3 * z3_timeout_ms)
        s3.set('random_seed', 7)
        for a in enc.assertions:
            s3.add(a)
        try:
            r3 = s3.check()
        except z3.Z3Exception:
            r3 = z3.unknown
        if r3 == z3.unsat:
            ob.result = 'unsat'
            ob.solver = 'z3'
            ob.reason = ''
    ob.time = time.time() - t0
    return ob.result


def independent_cvc5(ctx, ob):
    """thorough tier: re-discharge an obligation with cvc5 only"""
    enc = encode(ctx.pc[:ob.npc], ob.hints, ob.goal, ctx.pool, ctx.fresh)
    s = z3.Solver()
    for a in enc.assertions:
        s.add(a)
    res, dt = check_cvc5(s, min(CVC5_TIMEOUT_S, 10))
    return res, dt
