"""Discharging obligations: z3 (Python API) first, cvc5 (binary, SMT-LIB text) on `unknown`."""
import os
import re
import subprocess
import tempfile
import time
import z3

from . import dsl

Z3_TIMEOUT_MS = int(os.environ.get('PYVC_Z3_TIMEOUT_MS', '20000'))
CVC5_TIMEOUT_S = int(os.environ.get('PYVC_CVC5_TIMEOUT_S', '60'))
CVC5 = '/usr/bin/cvc5'


def _inst_terms(pool):
    out = []
    seen = set()
    for t in list(pool) + [z3.IntVal(0)]:
        for d in (0, 1, -1):
            tt = z3.simplify(t + d) if d else t
            key = tt.get_id()
            if key not in seen:
                seen.add(key)
                out.append(tt)
    return out


class Encoded:
    def __init__(self):
        self.assertions = []
        self.quantified = []    # full ∀ formulas, only used in the second attempt
        self.weakened = False   # True if some ∀ hypothesis was replaced by finitely many instances


def encode(pc, hints, goal, pool, fresh):
    """pc ∧ hints ∧ ¬goal as a list of quantifier-free assertions (+ the full ∀s kept aside)"""
    enc = Encoded()
    pool = list(pool)
    neg_goal = []
    goal_all_hyps = []          # ∀ hypotheses that come from negating an ∃ goal

    def neg_clause(c):
        if isinstance(c, dsl.All):
            k = fresh(c.name)
            pool.append(k)
            return z3.And(c.lo <= k, k < c.hi, z3.Not(_zb(c.f(k))))
        if isinstance(c, dsl.Ex):
            goal_all_hyps.append(dsl.All(c.lo, c.hi, lambda k, c=c: z3.Not(_zb(c.f(k))), c.name))
            return z3.BoolVal(True)
        if isinstance(c, dsl.AnyOf):
            return z3.And([neg_clause(p) for p in c.parts])
        return z3.Not(_zb(c))

    goals = dsl.flat(goal)
    # ¬(g1 ∧ g2 ∧ ...) = ¬g1 ∨ ¬g2 ...
    negs = [neg_clause(g) for g in goals]
    enc.assertions.append(z3.Or(negs) if len(negs) != 1 else negs[0])
    if goal_all_hyps and len(goals) > 1:
        raise ValueError('an ∃ goal must be its own obligation')

    hyps = [c for c in dsl.flat(list(pc) + list(hints))] + goal_all_hyps
    terms = None

    def hyp_clause(c):
        nonlocal terms
        if isinstance(c, dsl.All):
            if terms is None:
                terms = _inst_terms(pool)
            enc.weakened = True
            k = z3.Int('q!' + c.name)
            enc.quantified.append(z3.ForAll([k], z3.Implies(z3.And(c.lo <= k, k < c.hi), _zb(c.f(k)))))
            return z3.And([z3.Implies(z3.And(c.lo <= t, t < c.hi), _zb(c.f(t))) for t in terms])
        if isinstance(c, dsl.Ex):
            k = fresh(c.name)
            return z3.And(c.lo <= k, k < c.hi, _zb(c.f(k)))
        if isinstance(c, dsl.AnyOf):
            return z3.Or([hyp_clause(p) for p in c.parts])
        return _zb(c)

    for h in hyps:
        enc.assertions.append(hyp_clause(h))
    return enc


def _zb(x):
    if isinstance(x, bool):
        return z3.BoolVal(x)
    return x


def check_z3(assertions, timeout_ms):
    s = z3.Solver()
    s.set('timeout', timeout_ms)
    for a in assertions:
        s.add(a)
    t0 = time.time()
    r = s.check()
    dt = time.time() - t0
    return s, r, dt


def check_cvc5(solver, timeout_s):
    text = solver.to_smt2()
    text = text.replace('int.to.str', 'str.from_int').replace('str.to.int', 'str.to_int')
    text = '(set-logic ALL)\n' + text
    fd, path = tempfile.mkstemp(suffix='.smt2', prefix='pyvc_')
    try:
        with os.fdopen(fd, 'w') as fh:
            fh.write(text)
        t0 = time.time()
        try:
            p = subprocess.run([CVC5, '--strings-exp', '--tlimit=%d' % (timeout_s * 1000), path],
                               capture_output=True, text=True, timeout=timeout_s + 10)
            out = p.stdout.strip().splitlines()
            res = out[0].strip() if out else 'unknown'
            if res not in ('sat', 'unsat', 'unknown'):
                res = 'unknown'
        except subprocess.TimeoutExpired:
            res = 'unknown'
        return res, time.time() - t0
    finally:
        os.unlink(path)


def discharge(ctx, ob, z3_timeout_ms=None, use_cvc5=True):
    """sets ob.result in {'unsat','sat','unknown'}; ob.model (z3 model) when a candidate exists;
    ob.genuine = True when `sat` was obtained without weakening any hypothesis"""
    z3_timeout_ms = z3_timeout_ms or Z3_TIMEOUT_MS
    enc = encode(ctx.pc[:ob.npc], ob.hints, ob.goal, ctx.pool, ctx.fresh)
    t0 = time.time()
    s, r, dt = check_z3(enc.assertions, z3_timeout_ms)
    ob.solver = 'z3'
    ob.genuine = False
    if r == z3.unsat:
        ob.result = 'unsat'
    elif r == z3.sat and not enc.weakened:
        ob.result = 'sat'
        ob.model = s.model()
        ob.genuine = True
    else:
        cand = s.model() if r == z3.sat else None
        if enc.weakened:
            # second attempt with the full quantifiers
            s2, r2, dt2 = check_z3(enc.assertions + enc.quantified, z3_timeout_ms)
            if r2 == z3.unsat:
                ob.result = 'unsat'
            elif r2 == z3.sat:
                ob.result = 'sat'
                ob.model = s2.model()
                ob.genuine = True
            else:
                ob.result = 'unknown'
                ob.model = cand
                ob.reason = 'z3: ' + s2.reason_unknown()
                s = s2
        else:
            ob.result = 'unknown'
            ob.reason = 'z3: ' + s.reason_unknown()
        if ob.result == 'unknown' and use_cvc5 and os.path.exists(CVC5):
            res, dtc = check_cvc5(s, CVC5_TIMEOUT_S)
            if res == 'unsat':
                ob.result = 'unsat'
                ob.solver = 'cvc5'
            elif res == 'sat' and not enc.weakened:
                ob.result = 'sat'
                ob.solver = 'cvc5'
                ob.genuine = True
    ob.time = time.time() - t0
    return ob.result


def independent_cvc5(ctx, ob):
    """thorough tier: re-discharge an obligation with cvc5 only"""
    enc = encode(ctx.pc[:ob.npc], ob.hints, ob.goal, ctx.pool, ctx.fresh)
    s = z3.Solver()
    for a in enc.assertions:
        s.add(a)
    res, dt = check_cvc5(s, CVC5_TIMEOUT_S)
    return res, dt
