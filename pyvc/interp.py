"""AST interpreter over symbolic values (generator-based statement executor).

The text that is executed is the current source of /repo: for a function object `f` the FunctionDef with
the same name and first line is located in inspect.getsourcefile(f) and its body is interpreted as is.
"""
import ast
import copy
import functools
import builtins
import inspect
import numbers
import operator
import types
import collections
import z3

from .values import (Sym, SInt, SBool, SReal, SStr, SSeq, Cell, Obj, ExcVal, Bound, Closure, GenObj, Opaque,
                     Unsupported, Infeasible, PyRaise, py_raise, is_sym, has_sym, zi, zb, zr, zs, zseq, INT_EK,
                     is_intlike, is_numlike, IntSeq)
from .ctx import CutPath
from . import dsl
from . import msgs
from .msgs import SMsg

import os
REPO_PREFIX = os.path.join(os.path.realpath(os.environ.get('PYVC_REPO', '/repo')), '')


class ReturnSig(Exception):
    def __init__(self, v):
        self.v = v


class BreakSig(Exception):
    pass


class ContinueSig(Exception):
    pass


# ---------------------------------------------------------------- source lookup
class FuncInfo:
    _trees = {}
    _cache = {}

    def __init__(self, pyfn):
        self.pyfn = pyfn
        src = inspect.getsourcefile(pyfn)
        if src not in FuncInfo._trees:
            with open(src) as fh:
                FuncInfo._trees[src] = ast.parse(fh.read(), src)
        tree = FuncInfo._trees[src]
        self.src = src
        self.node = None
        first = pyfn.__code__.co_firstlineno
        cands = [n for n in ast.walk(tree) if isinstance(n, (ast.FunctionDef, ast.Lambda))
                 and getattr(n, 'name', '<lambda>') == pyfn.__name__]
        for n in cands:
            lines = [n.lineno] + [d.lineno for d in getattr(n, 'decorator_list', [])]
            if first in lines:
                self.node = n
        if self.node is None and len(cands) == 1:
            self.node = cands[0]
        if self.node is None:
            raise Unsupported('source of %s not found' % pyfn.__qualname__)
        self.globals = pyfn.__globals__
        self.qualname = pyfn.__qualname__
        self.isgen = _has_yield(self.node)
        self.name = '%s:%s' % (pyfn.__module__, pyfn.__qualname__)

    @classmethod
    def of(cls, pyfn):
        fi = cls._cache.get(pyfn)
        if fi is None:
            fi = cls._cache[pyfn] = FuncInfo(pyfn)
        return fi


def _has_yield(node):
    body = node.body if isinstance(node.body, list) else [node.body]
    stack = list(body)
    while stack:
        n = stack.pop()
        if isinstance(n, (ast.Yield, ast.YieldFrom)):
            return True
        if isinstance(n, (ast.FunctionDef, ast.Lambda, ast.ClassDef, ast.AsyncFunctionDef)):
            continue
        stack.extend(ast.iter_child_nodes(n))
    return False


def _loop_shaped(node):
    """generator function whose body is (docstring +) one `while` loop ending in its only yield statement"""
    body = list(node.body)
    if body and isinstance(body[0], ast.Expr) and isinstance(body[0].value, ast.Constant) and isinstance(body[0].value.value, str):
        body = body[1:]
    if len(body) != 1 or not isinstance(body[0], ast.While) or body[0].orelse:
        return False
    last = body[0].body[-1]
    if not (isinstance(last, ast.Expr) and isinstance(last.value, ast.Yield)):
        return False
    n = sum(1 for x in ast.walk(node) if isinstance(x, (ast.Yield, ast.YieldFrom)))
    nret = sum(1 for x in ast.walk(node) if isinstance(x, (ast.Return, ast.Break, ast.Continue)))
    return n == 1 and nret == 0


def assigned_names(stmts):
    """names that the statements may assign (syntactically): the loop's modified variables"""
    out = set()
    for st in stmts:
        for n in ast.walk(st):
            if isinstance(n, ast.Name) and isinstance(n.ctx, (ast.Store, ast.Del)):
                out.add(n.id)
    return out


def is_repo_fn(f):
    if not isinstance(f, types.FunctionType):
        return False
    try:
        return (inspect.getsourcefile(f) or '').startswith(REPO_PREFIX)
    except TypeError:
        return False


def mro_lookup(cls, name):
    for k in cls.__mro__:
        if name in k.__dict__:
            return k, k.__dict__[name]
    return None, None


_MUTABLE_GLOBALS = {}


def mutable_globals(g):
    """names of module-level variables that some function of the module assigns (`global x`): the module's mutable state"""
    k = id(g)
    if k not in _MUTABLE_GLOBALS:
        names = set()
        try:
            import sys as _sys
            mod = _sys.modules.get(g.get('__name__'))
            tree = ast.parse(inspect.getsource(mod))
            for n in ast.walk(tree):
                if isinstance(n, ast.Global):
                    names.update(n.names)
        except Exception:
            pass
        _MUTABLE_GLOBALS[k] = names
    return _MUTABLE_GLOBALS[k]


class AliasEnv(dict):
    """local variables of a frame.  While a loop contract runs, `alias` maps the names the contract was written with to the
    names the code uses now (a renamed local must not break a proof); outside contract callbacks alias is None."""
    alias = None

    def _k(self, k):
        a = self.alias
        if a and k in a and not dict.__contains__(self, k):
            return a[k]
        return k

    def __getitem__(self, k):
        return dict.__getitem__(self, self._k(k))

    def __setitem__(self, k, v):
        dict.__setitem__(self, self._k(k), v)

    def __delitem__(self, k):
        dict.__delitem__(self, self._k(k))

    def __contains__(self, k):
        return dict.__contains__(self, self._k(k))

    def get(self, k, d=None):
        return dict.get(self, self._k(k), d)


class _BoundSpec:
    """a loop contract bound to one frame: its callbacks run with the frame's alias map switched on; a local the contract
    needs and cannot find makes the obligation UNDECIDED (contract no longer applies), never a crash"""
    def __init__(self, spec, fr, amap, where):
        self.__dict__.update(_spec=spec, _fr=fr, _amap=amap, _where=where)

    def __getattr__(self, name):
        v = getattr(self._spec, name)
        if not callable(v) or name.startswith('__'):
            return v

        def wrapped(*a, **k):
            env = self._fr.env
            old = getattr(env, 'alias', None)
            if isinstance(env, AliasEnv):
                env.alias = self._amap
            try:
                return v(*a, **k)
            except KeyError as ex:
                raise Unsupported('loop contract for %s no longer applies: no local variable %s' % (self._where, ex))
            finally:
                if isinstance(env, AliasEnv):
                    env.alias = old
        return wrapped


_SPEC_LOCALS = {}


def spec_locals(spec):
    """names of the local variables a loop contract talks about (declared as `locals`, else read off its source)"""
    cls = type(spec)
    if cls not in _SPEC_LOCALS:
        names = getattr(spec, 'locals', None)
        if names is None:
            import inspect
            import re as _re
            try:
                src = inspect.getsource(cls)
            except (OSError, TypeError):
                src = ''
            names = tuple(dict.fromkeys(_re.findall(r"fr\.env(?:\.get)?[\[\(]'(\w+)'", src)))
        _SPEC_LOCALS[cls] = tuple(n for n in names if n != 'self')
    return _SPEC_LOCALS[cls]


class Frame:
    def __init__(self, name, env, g, fi=None):
        self.name = name
        self.env = env if isinstance(env, AliasEnv) else AliasEnv(env)
        self.g = g
        self.fi = fi
        self.loop_ord = 0
        self.globals_declared = set()


def _intervals(ints):
    ints = sorted(set(ints))
    out = []
    for i in ints:
        if out and out[-1][1] == i - 1:
            out[-1][1] = i
        else:
            out.append([i, i])
    return out


def int_in(e, ints):
    parts = []
    for lo, hi in _intervals(ints):
        parts.append(e == lo if lo == hi else z3.And(e >= lo, e <= hi))
    return z3.Or(parts) if parts else z3.BoolVal(False)


SEQ_FAMILY = {list: 'list', tuple: 'tuple', bytes: 'bytes', bytearray: 'bytes', collections.deque: 'deque'}


def seq_family(pycls):
    for k in pycls.__mro__:
        if k in SEQ_FAMILY:
            return SEQ_FAMILY[k]
    return pycls.__name__


OPS = {ast.Add: operator.add, ast.Sub: operator.sub, ast.Mult: operator.mul, ast.LShift: operator.lshift,
       ast.RShift: operator.rshift, ast.BitAnd: operator.and_, ast.BitOr: operator.or_, ast.Mod: operator.mod,
       ast.FloorDiv: operator.floordiv, ast.Div: operator.truediv, ast.Pow: operator.pow, ast.BitXor: operator.xor}
CMP = {ast.Eq: operator.eq, ast.NotEq: operator.ne, ast.Lt: operator.lt, ast.LtE: operator.le,
       ast.Gt: operator.gt, ast.GtE: operator.ge}
NATIVE_EXC = (TypeError, ValueError, IndexError, KeyError, AttributeError, ZeroDivisionError, LookupError,
              OverflowError, StopIteration, UnicodeError, OSError, ArithmeticError, AssertionError, NameError)


AND_MINUS_ONE_WIDTHS = (16, 64, 256)
_MODULE_STATE = {}


def module_state_guard(o, what):
    """a write into a container that is a module-level (or class-level) object of the library is a side effect that outlives
    the call: later calls may see it.  One call in isolation cannot decide such code, so the unit is undecided (the
    history-based stand-ins on the real code are what can still refute it)."""
    import sys
    if not _MODULE_STATE:
        _MODULE_STATE[0] = None
        for name, mod in list(sys.modules.items()):
            if mod is None or not (name == 'mido' or name.startswith('mido.')):
                continue
            for k, val in list(vars(mod).items()):
                if isinstance(val, (dict, list, set, collections.deque)) and not k.startswith('__'):
                    _MODULE_STATE[id(val)] = '%s.%s' % (name, k)
                elif isinstance(val, type) and getattr(val, '__module__', '').startswith('mido'):
                    for k2, v2 in list(vars(val).items()):
                        if isinstance(v2, (dict, list, set, collections.deque)) and not k2.startswith('__'):
                            _MODULE_STATE[id(v2)] = '%s.%s.%s' % (name, k, k2)
    nm = _MODULE_STATE.get(id(o))
    if nm is not None:
        raise Unsupported('%s on module-level state %s of the library (a side effect that outlives the call)' % (what, nm))


EXECUTED = set()      # repo functions whose real body was executed symbolically in this process (evidence only)


class Interp:
    def __init__(self, ctx, hooks=None, loops=None):
        self.ctx = ctx
        self.hooks = hooks or {}       # python function object -> handler(interp, args, kwargs)
        self.loops = loops or {}       # (qualname, loop ordinal) -> LoopSpec
        self.depth = 0
        self.models = None             # set by models.install
        self.trace_calls = []
        from . import models
        models.install(self)

    # ================================================================ truth / coercions
    def truth(self, v):
        ctx = self.ctx
        if isinstance(v, bool):
            return v
        if isinstance(v, SBool):
            return ctx.branch(v.e)
        if isinstance(v, SInt):
            return ctx.branch(v.e != 0)
        if isinstance(v, SReal):
            return ctx.branch(v.e != 0)
        if isinstance(v, SSeq):
            return ctx.branch(z3.Length(v.e) > 0)
        if isinstance(v, SStr):
            return ctx.branch(z3.Length(v.e) > 0)
        if isinstance(v, Cell):
            return ctx.branch(z3.Length(v.v.e) > 0)
        if isinstance(v, Obj):
            for nm in ('__bool__', '__len__'):
                k, fn = mro_lookup(v.cls, nm)
                if fn is not None:
                    r = self.call(Bound(v, fn) if not isinstance(fn, (staticmethod,)) else fn, [], {})
                    return self.truth(r)
            return True
        if isinstance(v, SMsg):
            return True            # Message defines __len__ >= 1, meta messages have no __len__/__bool__
        if isinstance(v, (Bound, Closure, GenObj, ExcVal, Opaque)):
            if isinstance(v, Opaque):
                raise Unsupported('truth of opaque %s' % v.tag)
            return True
        if isinstance(v, collections.deque):
            self.ctx.event('deque.read', id(v), tuple(id(l) for l in self.ctx.held))
        return bool(v)

    def to_bool_value(self, v):
        """bool(v) as a value (SBool or bool) without forking where possible"""
        if isinstance(v, (bool, SBool)):
            return v
        if isinstance(v, SInt):
            return SBool(v.e != 0)
        return self.truth(v)

    # ================================================================ calls
    def call(self, f, args, kwargs):
        args = list(args)
        if isinstance(f, Bound):
            if isinstance(f.fn, tuple):          # ('model', callable) bound model method
                return f.fn[1](self, f.obj, *args, **kwargs)
            return self.call(f.fn, [f.obj] + args, kwargs)
        if isinstance(f, types.MethodType) and isinstance(f.__func__, types.FunctionType):
            return self.call(f.__func__, [f.__self__] + args, kwargs)
        if isinstance(f, classmethod):
            raise Unsupported('raw classmethod call')
        if isinstance(f, staticmethod):
            return self.call(f.__func__, args, kwargs)
        if isinstance(f, Closure):
            return self.call_closure(f, args, kwargs)
        if isinstance(f, functools._lru_cache_wrapper) and is_repo_fn(getattr(f, '__wrapped__', None)):
            return self.call_memoised(f.__wrapped__, args, kwargs)
        key = getattr(f, '__wrapped__', f) if isinstance(f, types.FunctionType) else f
        try:
            h = self.hooks.get(key) if self.hooks else None
        except TypeError:
            h = None
        if h is not None:
            return h(self, args, kwargs)
        if isinstance(f, types.FunctionType) and getattr(f, '_pyvc_native', False):
            return f(self, *args, **kwargs)
        if isinstance(f, types.FunctionType) and hasattr(f, '__wrapped__') and is_repo_fn(f.__wrapped__):
            # functools.wraps-style decorator from the stdlib (contextlib.contextmanager)
            r = self.call(f.__wrapped__, args, kwargs)
            if isinstance(r, GenObj):
                r.is_cm = True
            return r
        if is_repo_fn(f):
            return self.call_repo(f, args, kwargs)
        r = self.models.call(self, f, args, kwargs)
        if r is not NotImplemented:
            return r
        if isinstance(f, type):
            return self.construct(f, args, kwargs)
        if callable(f) and not has_sym(args) and not has_sym(kwargs):
            return self.native(f, args, kwargs)
        raise Unsupported('call to %r with symbolic arguments' % (f,))

    def call_memoised(self, fn, args, kwargs):
        """a function behind functools.lru_cache: the value returned is the one computed now, OR one cached by an earlier call
        with equal arguments made under ANOTHER value of the module state the function reads (a cache keyed by the
        arguments alone does not notice that state).  A function that reads no mutable module state is transparent.
        Not modelled: keys that are equal but of different types (1 == 1.0); raised exceptions are never cached."""
        track, old = [], getattr(self, '_greads', None)
        self._greads = track
        try:
            r_now = self.call(fn, list(args), dict(kwargs))
        finally:
            self._greads = old
        keys = {}
        for k, g in track:
            keys[k] = g
        if not keys or self.ctx.fork(2) == 0:
            return r_now
        missing = object()
        saved = {}
        for k, g in keys.items():
            cur = self.ctx.gstore.get(k, g.get(k[1], missing))
            saved[k] = self.ctx.gstore.get(k, missing)
            if isinstance(cur, (str, SStr)):
                self.ctx.gstore[k] = SStr(self.ctx.fresh('earlier_' + k[1], z3.StringSort()))
            elif isinstance(cur, (bool, SBool)):
                self.ctx.gstore[k] = SBool(self.ctx.fresh('earlier_' + k[1], z3.BoolSort()))
            elif isinstance(cur, (int, SInt)):
                self.ctx.gstore[k] = SInt(self.ctx.fresh('earlier_' + k[1]))
            else:
                raise Unsupported('memoised function reads module state %s of a kind the model cannot vary' % k[1])
        try:
            try:
                return self.call(fn, list(args), dict(kwargs))
            except PyRaise:
                raise Infeasible()           # nothing was cached by a call that raised
        finally:
            for k, v in saved.items():
                if v is missing:
                    self.ctx.gstore.pop(k, None)
                else:
                    self.ctx.gstore[k] = v

    def native(self, f, args, kwargs):
        mod = getattr(f, '__module__', None) or ''
        if isinstance(mod, str) and mod.startswith('mido'):
            raise Unsupported('native call into repo object %r' % (f,))
        try:
            return f(*args, **kwargs)
        except NATIVE_EXC as ex:
            raise PyRaise(type(ex), ex.args)
        except Exception as ex:  # struct.error and friends
            raise PyRaise(type(ex), ex.args)

    def bind(self, node, args, kwargs, g, name, closure_env=None):
        a = node.args
        env = dict(closure_env) if closure_env else {}
        kwargs = dict(kwargs)
        params = [p.arg for p in a.posonlyargs + a.args]
        defaults = [None] * (len(params) - len(a.defaults)) + list(a.defaults)
        for i, p in enumerate(params):
            if i < len(args):
                if p in kwargs:
                    py_raise(TypeError, '%s() got multiple values for argument %r' % (name, p))
                env[p] = args[i]
            elif p in kwargs:
                env[p] = kwargs.pop(p)
            elif defaults[i] is not None:
                env[p] = self._default(node, i, defaults[i], g, name)
            else:
                py_raise(TypeError, '%s() missing required argument %r' % (name, p))
        if a.vararg:
            env[a.vararg.arg] = tuple(args[len(params):])
        elif len(args) > len(params):
            py_raise(TypeError, '%s() takes %d positional arguments but %d were given' % (name, len(params), len(args)))
        for p, d in zip(a.kwonlyargs, a.kw_defaults):
            if p.arg in kwargs:
                env[p.arg] = kwargs.pop(p.arg)
            elif d is not None:
                env[p.arg] = self.eval(d, Frame(name, {}, g))
            else:
                py_raise(TypeError, '%s() missing keyword-only argument %r' % (name, p.arg))
        if a.kwarg:
            env[a.kwarg.arg] = kwargs
        elif kwargs:
            py_raise(TypeError, '%s() got an unexpected keyword argument %r' % (name, sorted(kwargs)[0]))
        return env

    def _default(self, node, i, dnode, g, name):
        # default values are evaluated once at definition time in CPython; mutable defaults are shared
        key = (id(node), i)
        store = self.ctx.__dict__.setdefault('defaults', {})
        if key not in store:
            store[key] = self.eval(dnode, Frame(name, {}, g))
        return store[key]

    def call_repo(self, pyfn, args, kwargs):
        fi = FuncInfo.of(pyfn)
        EXECUTED.add('%s:%s' % (getattr(pyfn, '__module__', '?'), getattr(pyfn, '__qualname__', pyfn.__name__)))
        env = self.bind(fi.node, args, kwargs, fi.globals, pyfn.__name__)
        fr = Frame(fi.name, env, fi.globals, fi)
        return self.run_frame(fi.node, fr, fi.isgen)

    def call_closure(self, c, args, kwargs):
        node = c.node
        env = self.bind(node, args, kwargs, c.g, c.name, c.env)
        fr = Frame(c.name, env, c.g)
        if isinstance(node, ast.Lambda):
            return self.eval(node.body, fr)
        return self.run_frame(node, fr, _has_yield(node))

    def run_frame(self, node, fr, isgen):
        if isgen:
            def body():
                try:
                    yield from self.gx_block(node.body, fr)
                except ReturnSig:
                    return
            g = GenObj(body(), fr.name)
            g.nyields = sum(1 for n in ast.walk(node) if isinstance(n, (ast.Yield, ast.YieldFrom)))
            g.loop_shaped = _loop_shaped(node)
            return g
        self.depth += 1
        if self.depth > 80:
            self.depth -= 1
            raise Unsupported('call depth')
        try:
            for _ in self.gx_block(node.body, fr):
                raise Unsupported('yield in non-generator')
        except ReturnSig as r:
            return r.v
        finally:
            self.depth -= 1
        return None

    def construct(self, cls, args, kwargs):
        if issubclass(cls, BaseException):
            return ExcVal(cls, args)
        mod = getattr(cls, '__module__', '') or ''
        if issubclass(cls, (tuple, list)) and mod.startswith('mido'):
            base = tuple if issubclass(cls, tuple) else list
            v = self.models.call(self, base, args, kwargs)
            return self.retag_seq(v, cls)
        k, new = mro_lookup(cls, '__new__')
        if k is not object and new is not None and not mod.startswith('mido') and not getattr(cls, '_pyvc_model', False):
            if not has_sym(args) and not has_sym(kwargs):
                return self.native(cls, args, kwargs)
            raise Unsupported('construct %r with symbolic arguments' % (cls,))
        o = Obj(cls)
        k, init = mro_lookup(cls, '__init__')
        if init is not None and k is not object:
            self.call(init, [o] + list(args), kwargs)
        elif args or kwargs:
            py_raise(TypeError, '%s() takes no arguments' % cls.__name__)
        return o

    def retag_seq(self, v, cls):
        if isinstance(v, SSeq):
            return SSeq(v.e, cls, v.ek)
        if isinstance(v, Cell):
            v.pycls = cls
            v.v.pycls = cls
            return v
        if isinstance(v, tuple):
            if has_sym(v):
                return SSeq(zseq(v), cls)
            return cls(v)
        if isinstance(v, list):
            if any(isinstance(x, (Obj, Sym)) for x in v):
                c = TrackList(v)
                c.pycls = cls
                return c
            return cls(v)
        raise Unsupported('retag %r' % (v,))

    # ================================================================ attributes
    def getattr(self, o, name):
        if isinstance(o, SMsg):
            return msgs.msg_getattr(self, o, name)
        if isinstance(o, Obj):
            if name == '__class__':
                return o.cls
            if name == '__dict__':
                return o.attrs
            k, v = mro_lookup(o.cls, name)
            if isinstance(v, property):
                return self.call(v.fget, [o], {})
            if name in o.attrs:
                self.ctx.event('read', id(o), name)
                return o.attrs[name]
            if k is None:
                k2, ga = mro_lookup(o.cls, '__getattr__')
                if ga is not None:
                    return self.call(ga, [o, name], {})
                py_raise(AttributeError, '%r object has no attribute %r' % (o.cls.__name__, name))
            if isinstance(v, types.FunctionType):
                return Bound(o, v)
            if isinstance(v, classmethod):
                return Bound(o.cls, v.__func__)
            if isinstance(v, staticmethod):
                return v.__func__
            if k is object and name in ('__init__', '__repr__', '__str__', '__hash__', '__eq__', '__ne__',
                                        '__setattr__', '__delattr__', '__getattribute__'):
                return Bound(o, ('model', getattr(self.models, 'object_' + name.strip('_'))))
            return v
        if isinstance(o, (SSeq, Cell, TrackList)):
            pycls = o.pycls
            k, v = mro_lookup(pycls, name)
            if isinstance(v, property) and is_repo_fn(v.fget):
                return self.call(v.fget, [o], {})
            if v is not None and is_repo_fn(v):
                return Bound(o, v)
            m = self.models.seq_method(o, name)
            if m is not None:
                return Bound(o, ('model', m))
            if hasattr(pycls, name):
                raise Unsupported('%s.%s on a symbolic sequence is not modelled' % (pycls.__name__, name))
            py_raise(AttributeError, '%r object has no attribute %r' % (pycls.__name__, name))
        if isinstance(o, type) and (o.__module__ or '').startswith('mido'):
            k, v = mro_lookup(o, name)
            if isinstance(v, classmethod):
                return Bound(o, v.__func__)
            if isinstance(v, staticmethod):
                return v.__func__
            if name == '__new__':
                return Bound(o, ('model', self.models.object_new))
            try:
                return getattr(o, name)
            except AttributeError as ex:
                raise PyRaise(AttributeError, ex.args)
        if isinstance(o, ExcVal):
            if name == 'args':
                return o.args
            if name == '__cause__':
                return o.cause
            if name == 'errno':
                return o.args[0] if len(o.args) >= 2 else None
            if name == 'strerror':
                return o.args[1] if len(o.args) >= 2 else None
            py_raise(AttributeError, name)
        if isinstance(o, (SStr, SInt, SBool, SReal)):
            m = self.models.scalar_method(o, name)
            if m is not None:
                return Bound(o, ('model', m))
            real = {SStr: str, SInt: int, SBool: bool, SReal: float}[type(o)]
            if hasattr(real, name):
                # the real type has it, the model does not: undecided - never a Python-level AttributeError
                raise Unsupported('%s.%s on a symbolic value is not modelled' % (real.__name__, name))
            py_raise(AttributeError, '%r object has no attribute %r' % (real.__name__, name))
        if isinstance(o, GenObj):
            m = self.models.gen_method(o, name)
            if m is not None:
                return Bound(o, ('model', m))
            py_raise(AttributeError, name)
        if isinstance(o, Opaque):
            raise Unsupported('attribute %s of opaque %s' % (name, o.tag))
        if isinstance(o, types.ModuleType):
            key = (id(o.__dict__), name)
            if key in self.ctx.gstore:
                return self.ctx.gstore[key]
        if isinstance(o, (list, dict, str, tuple, set, bytes, bytearray, collections.deque)):
            m = self.models.container_method(o, name)
            if m is not None:
                return Bound(o, ('model', m))
        try:
            return getattr(o, name)
        except AttributeError as ex:
            raise PyRaise(AttributeError, ex.args)

    def setattr(self, o, name, v):
        if isinstance(o, Obj):
            k, sa = mro_lookup(o.cls, '__setattr__')
            if k is not object and sa is not None:
                return self.call(sa, [o, name, v], {})
            k, d = mro_lookup(o.cls, name)
            if isinstance(d, property):
                if d.fset is None:
                    py_raise(AttributeError, "can't set attribute %r" % name)
                return self.call(d.fset, [o, v], {})
            self.ctx.event('write', id(o), name)
            o.attrs[name] = v
            return
        if isinstance(o, (SSeq, Cell, TrackList)):
            k, d = mro_lookup(o.pycls, name)
            if isinstance(d, property) and d.fset is not None:
                return self.call(d.fset, [o, v], {})
            py_raise(AttributeError, name)
        if isinstance(o, types.ModuleType):
            self.ctx.gstore[(id(o.__dict__), name)] = v
            return
        if isinstance(o, list) and type(o) is not list and (type(o).__module__ or '').startswith('mido'):
            # a real (concrete) instance of a repo list subclass, e.g. MidiTrack(): properties run their real setter
            k, d = mro_lookup(type(o), name)
            if isinstance(d, property) and d.fset is not None:
                return self.call(d.fset, [o, v], {})
        raise Unsupported('setattr on %r' % (o,))

    def delattr(self, o, name):
        if isinstance(o, Obj):
            k, da = mro_lookup(o.cls, '__delattr__')
            if k is not object and da is not None:
                return self.call(da, [o, name], {})
            k, d = mro_lookup(o.cls, name)
            if isinstance(d, property):
                if d.fdel is None:
                    py_raise(AttributeError, "can't delete attribute %r" % name)
                return self.call(d.fdel, [o], {})
            if name not in o.attrs:
                py_raise(AttributeError, name)
            self.ctx.event('write', id(o), name)
            del o.attrs[name]
            return
        raise Unsupported('delattr on %r' % (o,))

    # ================================================================ statements (generators)
    def gx_block(self, stmts, fr):
        for st in stmts:
            yield from self.gx(st, fr)

    def gx(self, st, fr):
        m = getattr(self, 'g_' + type(st).__name__, None)
        if m is None:
            raise Unsupported('statement ' + type(st).__name__)
        return m(st, fr)

    def g_Pass(self, st, fr):
        return
        yield

    def g_Expr(self, st, fr):
        if isinstance(st.value, ast.Yield):
            v = self.eval(st.value.value, fr) if st.value.value else None
            yield v
        elif isinstance(st.value, ast.YieldFrom):
            it = self.eval(st.value.value, fr)
            for v in self.iterate(it):
                yield v
        else:
            self.eval(st.value, fr)

    def g_Return(self, st, fr):
        raise ReturnSig(self.eval(st.value, fr) if st.value else None)
        yield

    def g_Break(self, st, fr):
        raise BreakSig()
        yield

    def g_Continue(self, st, fr):
        raise ContinueSig()
        yield

    def g_Global(self, st, fr):
        fr.globals_declared.update(st.names)
        return
        yield

    def g_Import(self, st, fr):
        for al in st.names:
            mod = __import__(al.name)
            fr.env[al.asname or al.name.split('.')[0]] = mod
        return
        yield

    def g_ImportFrom(self, st, fr):
        import importlib
        pkg = fr.g.get('__package__')
        mod = importlib.import_module('.' * st.level + (st.module or ''), pkg) if st.level else importlib.import_module(st.module)
        for al in st.names:
            fr.env[al.asname or al.name] = getattr(mod, al.name)
        return
        yield

    def g_Assert(self, st, fr):
        if not self.truth(self.eval(st.test, fr)):
            py_raise(AssertionError)
        return
        yield

    def g_FunctionDef(self, st, fr):
        fr.env[st.name] = Closure(st, fr.env, fr.g, st.name)
        return
        yield

    def g_Assign(self, st, fr):
        if isinstance(st.value, ast.Yield):
            v = yield (self.eval(st.value.value, fr) if st.value.value else None)
        else:
            v = self.eval(st.value, fr)
        for t in st.targets:
            self.assign(t, v, fr)

    def g_AnnAssign(self, st, fr):
        if st.value is not None:
            self.assign(st.target, self.eval(st.value, fr), fr)
        return
        yield

    def g_AugAssign(self, st, fr):
        t = st.target
        if isinstance(t, ast.Name):
            cur = self.eval(t, fr)
            new = self.augop(st.op, cur, self.eval(st.value, fr))
            self.assign(t, new, fr)
        elif isinstance(t, ast.Attribute):
            o = self.eval(t.value, fr)
            cur = self.getattr(o, t.attr)
            new = self.augop(st.op, cur, self.eval(st.value, fr))
            self.setattr(o, t.attr, new)
        elif isinstance(t, ast.Subscript):
            o = self.eval(t.value, fr)
            k = self.eval_slice(t.slice, fr)
            cur = self.subscript(o, k)
            new = self.augop(st.op, cur, self.eval(st.value, fr))
            self.store_subscript(o, k, new)
        else:
            raise Unsupported('augassign target')
        return
        yield

    def augop(self, op, cur, v):
        if isinstance(op, ast.Add):
            if isinstance(cur, (SSeq, Cell, TrackList)):
                k, ia = mro_lookup(cur.pycls, '__iadd__')
                if ia is not None and is_repo_fn(ia):
                    return self.call(ia, [cur, v], {})
                if isinstance(cur, (Cell, TrackList)):
                    self.models.seq_method(cur, 'extend')(self, cur, v)
                    return cur
            if isinstance(cur, list):
                self.models.container_method(cur, 'extend')(self, cur, v)
                return cur
            if isinstance(cur, tuple) and type(cur) is not tuple:
                k, ia = mro_lookup(type(cur), '__iadd__')
                if ia is not None and is_repo_fn(ia):
                    return self.call(ia, [cur, v], {})
        return self.binop(op, cur, v)

    def g_Delete(self, st, fr):
        for t in st.targets:
            if isinstance(t, ast.Name):
                if t.id in fr.env:
                    del fr.env[t.id]
                else:
                    py_raise(NameError, t.id)
            elif isinstance(t, ast.Attribute):
                self.delattr(self.eval(t.value, fr), t.attr)
            elif isinstance(t, ast.Subscript):
                o = self.eval(t.value, fr)
                k = self.eval_slice(t.slice, fr)
                if isinstance(k, SliceVal):
                    if has_sym([k.lo, k.hi, k.step]):
                        raise Unsupported('del of a slice with symbolic bounds')
                    if isinstance(o, Cell) and k.lo is None and k.hi is None and k.step is None:
                        self.models.sq_clear(self, o)         # del c[:]  empties the list object in place
                        continue
                    if isinstance(o, Cell):
                        raise Unsupported('del of a proper slice of a list of unknown length')
                    k = slice(k.lo, k.hi, k.step)
                if isinstance(o, (dict, list)) and not is_sym(k):
                    try:
                        del o[k]
                    except NATIVE_EXC as ex:
                        raise PyRaise(type(ex), ex.args)
                else:
                    raise Unsupported('del subscript')
            else:
                raise Unsupported('del target')
        return
        yield

    def g_If(self, st, fr):
        if self.truth(self.eval(st.test, fr)):
            yield from self.gx_block(st.body, fr)
        else:
            yield from self.gx_block(st.orelse, fr)

    def g_Raise(self, st, fr):
        if st.exc is None:
            cur = getattr(fr, 'handling', None)
            if cur is None:
                py_raise(RuntimeError, 'No active exception to reraise')
            raise cur
        e = self.eval(st.exc, fr)
        if isinstance(e, type) and issubclass(e, BaseException):
            e = ExcVal(e, ())
        if isinstance(e, PyRaise):
            raise e
        if not isinstance(e, ExcVal):
            py_raise(TypeError, 'exceptions must derive from BaseException')
        cause = self.eval(st.cause, fr) if st.cause is not None else None
        pr = PyRaise(e.cls, e.args, cause, where=(fr.name, st.lineno))
        pr.val = e
        raise pr
        yield

    def exc_matches(self, pr, t):
        if isinstance(t, tuple):
            return any(self.exc_matches(pr, x) for x in t)
        if not (isinstance(t, type) and issubclass(t, BaseException)):
            py_raise(TypeError, 'catching classes that do not inherit from BaseException is not allowed')
        return issubclass(pr.cls, t)

    def g_Try(self, st, fr):
        try:
            try:
                yield from self.gx_block(st.body, fr)
            except PyRaise as pr:
                for h in st.handlers:
                    t = self.eval(h.type, fr) if h.type is not None else BaseException
                    if self.exc_matches(pr, t):
                        if h.name:
                            ev = getattr(pr, 'val', None) or ExcVal(pr.cls, pr.args_)
                            ev.cause = pr.cause
                            fr.env[h.name] = ev
                        saved = getattr(fr, 'handling', None)
                        fr.handling = pr
                        try:
                            yield from self.gx_block(h.body, fr)
                        finally:
                            fr.handling = saved
                        break
                else:
                    raise
            else:
                yield from self.gx_block(st.orelse, fr)
        except (PyRaise, ReturnSig, BreakSig, ContinueSig):
            if st.finalbody:
                yield from self.gx_block(st.finalbody, fr)
            raise
        else:
            if st.finalbody:
                yield from self.gx_block(st.finalbody, fr)

    def g_With(self, st, fr):
        yield from self._with(st, 0, fr)

    def _with(self, st, idx, fr):
        if idx == len(st.items):
            yield from self.gx_block(st.body, fr)
            return
        item = st.items[idx]
        cm = self.eval(item.context_expr, fr)
        if isinstance(cm, GenObj) and getattr(cm, 'is_cm', False):
            v = self.gen_next(cm)
            if item.optional_vars is not None:
                self.assign(item.optional_vars, v, fr)
            try:
                yield from self._with(st, idx + 1, fr)
            except PyRaise as pr:
                # contextlib: the exception is thrown into the generator at its yield
                try:
                    cm.it.throw(pr)
                except StopIteration:
                    return            # generator swallowed the exception
                py_raise(RuntimeError, "generator didn't stop after throw()")
            except (ReturnSig, BreakSig, ContinueSig):
                self._cm_exit(cm)
                raise
            else:
                self._cm_exit(cm)
            return
        en = self.getattr(cm, '__enter__')
        ex = self.getattr(cm, '__exit__')
        v = self.call(en, [], {})
        if item.optional_vars is not None:
            self.assign(item.optional_vars, v, fr)
        try:
            yield from self._with(st, idx + 1, fr)
        except PyRaise as pr:
            ev = getattr(pr, 'val', None) or ExcVal(pr.cls, pr.args_)
            if not self.truth(self.call(ex, [pr.cls, ev, None], {})):
                raise
        except (ReturnSig, BreakSig, ContinueSig):
            self.call(ex, [None, None, None], {})
            raise
        else:
            self.call(ex, [None, None, None], {})

    def _cm_exit(self, cm):
        try:
            next(cm.it)
        except StopIteration:
            return
        py_raise(RuntimeError, "generator didn't stop")

    def gen_next(self, g):
        if g.done:
            py_raise(StopIteration)
        g.started = True
        try:
            return next(g.it)
        except StopIteration:
            g.done = True
            py_raise(StopIteration)
        except PyRaise:
            g.done = True
            raise

    # ---------------------------------------------------------------- loops
    def loop_spec(self, fr, ordn, st):
        spec = self.loops.get((fr.name, ordn))
        if spec is None:
            return None
        where = '%s#loop%d' % (fr.name, ordn)
        # ---- locals the contract names but the code does not have (any more): a renamed local is recognised when exactly one
        # variable used in the loop can stand for it
        amap = {}
        wanted = spec_locals(spec)
        fn_node = fr.fi.node if fr.fi is not None else st
        assigned = {n.id for n in ast.walk(fn_node) if isinstance(n, ast.Name)} | {a.arg for a in ast.walk(fn_node) if isinstance(a, ast.arg)}
        missing = [w for w in wanted if w not in assigned]
        if missing:
            targets = set()
            if isinstance(st, ast.For):
                targets = {n.id for n in ast.walk(st.target) if isinstance(n, ast.Name)}
            written = []          # names the loop assigns, or changes in place (x.append(..), x[i] = ..), in order of appearance
            for n in ast.walk(st):
                nm = None
                if isinstance(n, ast.Name) and isinstance(n.ctx, (ast.Store, ast.Del)):
                    nm = n.id
                elif isinstance(n, ast.Call) and isinstance(n.func, ast.Attribute) and isinstance(n.func.value, ast.Name):
                    nm = n.func.value.id
                elif isinstance(n, ast.Subscript) and isinstance(n.ctx, ast.Store) and isinstance(n.value, ast.Name):
                    nm = n.value.id
                if nm and nm not in written and nm not in targets and nm not in wanted:
                    written.append(nm)
            carried = [n for n in written if dict.__contains__(fr.env, n) and not callable(dict.get(fr.env, n))
                       and not isinstance(dict.get(fr.env, n), (types.ModuleType, type))]
            temps = [n for n in written if not dict.__contains__(fr.env, n)]
            if len(missing) == 1 and len(carried) == 1:
                amap[missing[0]] = carried[0]
            elif len(missing) == 1 and not carried and len(temps) == 1:
                amap[missing[0]] = temps[0]
            else:
                raise Unsupported('loop contract for %s no longer applies: locals %s not found (loop state: %s, temporaries: %s)'
                                  % (where, missing, carried, temps))
        fp_node = st.iter if isinstance(st, ast.For) else st.test
        if amap:
            inv = {v: k for k, v in amap.items()}
            fp_node = copy.deepcopy(fp_node)
            for n in ast.walk(fp_node):
                if isinstance(n, ast.Name) and n.id in inv:
                    n.id = inv[n.id]
        fp = ast.unparse(fp_node)
        want = getattr(spec, 'header', None)
        if want is not None and want != fp:
            raise Unsupported('loop contract for %s no longer applies: header %r != %r' % (where, fp, want))
        return _BoundSpec(spec, fr, amap, where)

    def g_While(self, st, fr):
        ordn = fr.loop_ord
        fr.loop_ord += 1
        spec = self.loop_spec(fr, ordn, st)
        if spec is None:
            n = 0
            broke = False
            while self.truth(self.eval(st.test, fr)):
                n += 1
                if n > 64:
                    raise Unsupported('while loop in %s needs an invariant (unrolled 64 times)' % fr.name)
                try:
                    yield from self.gx_block(st.body, fr)
                except BreakSig:
                    broke = True
                    break
                except ContinueSig:
                    continue
            if not broke:
                yield from self.gx_block(st.orelse, fr)
            return
        # ---- cut at the invariant
        base = '%s#loop%d' % (fr.name, ordn)
        st8 = spec.enter(self, fr, None)
        self.ctx.oblige(base + '.inv-entry', spec.inv(self, fr, st8), kind='inv-entry', hints=spec.hints(self, fr, st8, 'entry'))
        before = dict(fr.env)
        spec.havoc(self, fr, st8)
        carried = self._carried(st.body, fr, before, getattr(spec, 'modifies', ()))
        self.ctx.assume(spec.inv(self, fr, st8))
        if hasattr(spec, 'variant'):
            v0 = spec.variant(self, fr, st8)
        if self.truth(self.eval(st.test, fr)):
            st8.yields = []
            try:
                for y in self.gx_block(st.body, fr):
                    st8.yields.append(y)
                    yield y
            except BreakSig:
                return
            except ContinueSig:
                pass
            self._frame_obligations(base, fr, carried)
            spec.step(self, fr, st8)
            self.ctx.oblige(base + '.inv-preserved', spec.inv(self, fr, st8), kind='inv-preserved',
                            hints=spec.hints(self, fr, st8, 'preserved'))
            if hasattr(spec, 'variant'):
                v1 = spec.variant(self, fr, st8)
                self.ctx.oblige(base + '.decreases', z3.And(v0 >= 0, v1 < v0), kind='decreases')
            raise CutPath()
        yield from self.gx_block(st.orelse, fr)

    def g_For(self, st, fr):
        it = self.eval(st.iter, fr)
        ordn = fr.loop_ord
        fr.loop_ord += 1
        spec = self.loop_spec(fr, ordn, st)
        if spec is not None and not spec.applies(self, it):
            spec = None            # concrete-length / ill-typed iterable: the real loop is executed as it is
        if spec is None:
            broke = False
            for v in self.iterate(it):
                self.assign(st.target, v, fr)
                try:
                    yield from self.gx_block(st.body, fr)
                except BreakSig:
                    broke = True
                    break
                except ContinueSig:
                    continue
            if not broke:
                yield from self.gx_block(st.orelse, fr)
            return
        base = '%s#loop%d' % (fr.name, ordn)
        if isinstance(it, Obj):
            k, fn = mro_lookup(it.cls, '__iter__')
            if fn is None:
                py_raise(TypeError, '%r object is not iterable' % it.cls.__name__)
            it = self.call(Bound(it, fn), [], {})
        if isinstance(it, GenObj):
            yield from self._for_generator_cut(st, fr, it, spec, base)
            return
        # ---- cut loop over a sequence with symbolic length
        seqv = spec.sequence(self, fr, it)              # SSeq being iterated
        n = z3.Length(seqv.e)
        st8 = spec.enter(self, fr, seqv)
        st8.i = z3.IntVal(0)
        self.ctx.oblige(base + '.inv-entry', spec.inv(self, fr, st8), kind='inv-entry', hints=spec.hints(self, fr, st8, 'entry'))
        before = dict(fr.env)
        spec.havoc(self, fr, st8)
        carried = self._carried(st.body, fr, before, getattr(spec, 'modifies', ()))
        i = self.ctx.fresh_index('i')
        st8.i = i
        self.ctx.assume([0 <= i, i <= n])
        self.ctx.assume(spec.inv(self, fr, st8))
        if self.ctx.branch(i < n):
            self.assign(st.target, seqv.ek.wrap(seqv.e[i]), fr)
            st8.yields = []
            try:
                for y in self.gx_block(st.body, fr):
                    st8.yields.append(y)     # values yielded by this (arbitrary) iteration: ghost output
                    yield y
            except BreakSig:
                st8.broke = True
                return
            except ContinueSig:
                pass
            self._frame_obligations(base, fr, carried)
            spec.step(self, fr, st8)
            st8.i = i + 1
            self.ctx.oblige(base + '.inv-preserved', spec.inv(self, fr, st8), kind='inv-preserved',
                            hints=spec.hints(self, fr, st8, 'preserved'))
            raise CutPath()
        yield from self.gx_block(st.orelse, fr)

    def _carried(self, body, fr, before, declared=()):
        """soundness of a loop cut: every variable that is defined before the loop and assigned in its body must either
        be havoc'ed by the loop contract (then the invariant speaks about it) or be proved unchanged by the body.
        Returns the variables of the second kind with their values at the loop head."""
        out = {}
        for name in assigned_names(body):
            if name in declared:
                continue            # havoc'ed by the loop contract (the invariant constrains it)
            if name in before and name in fr.env and fr.env[name] is before[name]:
                out[name] = before[name]
        return out

    def _frame_obligations(self, base, fr, carried):
        for name, v0 in carried.items():
            v1 = fr.env.get(name)
            if v1 is v0:
                continue
            c = self.equal(v0, v1) if v1 is not None or v0 is None else False
            goal = c.e if isinstance(c, SBool) else z3.BoolVal(bool(c))
            self.ctx.oblige('%s.frame.%s-is-assigned-in-the-loop-but-not-covered-by-the-loop-contract' % (base, name), goal, kind='frame')

    def _for_generator_cut(self, st, fr, gen, spec, base):
        """`for x in <generator>` cut at an invariant.  The first iteration is executed as it is (peeled); the cut
        is placed when the generator is suspended at its yield and the consumer is back at the loop head, so that
        resuming the generator runs exactly one arbitrary further iteration.  Only sound for generators with a
        single yield statement (checked)."""
        if getattr(gen, 'nyields', None) != 1:
            raise Unsupported('loop contract over a generator that does not have exactly one yield statement')
        st8 = spec.enter(self, fr, None)
        st8.gen = gen
        if getattr(gen, 'loop_shaped', False) and not getattr(gen, 'started', False):
            # generator body is `while c: ...; yield x`: resuming after the yield re-enters the loop test exactly
            # like the first next() does, so the cut can be placed before the first iteration (no peeling)
            self.ctx.oblige(base + '.inv-entry', spec.inv(self, fr, st8), kind='inv-entry', hints=spec.hints(self, fr, st8, 'entry'))
            spec.havoc(self, fr, st8)
            self.ctx.assume(spec.inv(self, fr, st8))
            try:
                v = self.gen_next(gen)
            except PyRaise as pr:
                if pr.cls is StopIteration:
                    yield from self.gx_block(st.orelse, fr)
                    return
                raise
            self.assign(st.target, v, fr)
            try:
                yield from self.gx_block(st.body, fr)
            except BreakSig:
                return
            except ContinueSig:
                pass
            spec.step(self, fr, st8)
            self.ctx.oblige(base + '.inv-preserved', spec.inv(self, fr, st8), kind='inv-preserved',
                            hints=spec.hints(self, fr, st8, 'preserved'))
            raise CutPath()
        try:
            v = self.gen_next(gen)
        except PyRaise as pr:
            if pr.cls is StopIteration:
                yield from self.gx_block(st.orelse, fr)
                return
            raise
        self.assign(st.target, v, fr)
        try:
            yield from self.gx_block(st.body, fr)
        except BreakSig:
            return
        except ContinueSig:
            pass
        spec.step(self, fr, st8)
        self.ctx.oblige(base + '.inv-entry', spec.inv(self, fr, st8), kind='inv-entry', hints=spec.hints(self, fr, st8, 'entry'))
        spec.havoc(self, fr, st8)
        self.ctx.assume(spec.inv(self, fr, st8))
        try:
            v = self.gen_next(gen)
        except PyRaise as pr:
            if pr.cls is StopIteration:
                yield from self.gx_block(st.orelse, fr)
                return
            raise
        self.assign(st.target, v, fr)
        try:
            yield from self.gx_block(st.body, fr)
        except BreakSig:
            return
        except ContinueSig:
            pass
        spec.step(self, fr, st8)
        self.ctx.oblige(base + '.inv-preserved', spec.inv(self, fr, st8), kind='inv-preserved',
                        hints=spec.hints(self, fr, st8, 'preserved'))
        raise CutPath()

    def iterate(self, it):
        """Python iteration protocol over a value whose length is concrete (or a generator)"""
        if isinstance(it, GenObj):
            while True:
                try:
                    v = self.gen_next(it)
                except PyRaise as pr:
                    if pr.cls is StopIteration:
                        return
                    raise
                yield v
            return
        if isinstance(it, Cell):
            it = it.v
        if isinstance(it, SSeq):
            n = self.ctx.unique_int(z3.Length(it.e))
            if n is None:
                # lazily: fork on exhaustion (bounded)
                i = 0
                while self.ctx.branch(z3.Length(it.e) > i):
                    if i >= 64:
                        raise Unsupported('iteration over a sequence of unknown length needs a loop invariant')
                    yield it.ek.wrap(it.e[i])
                    i += 1
                return
            for i in range(n):
                if i < 16:
                    self.ctx.add_pool(i)
                yield it.ek.wrap(it.e[i])
            return
        if isinstance(it, TrackList):
            i = 0
            while i < len(it.items):      # list may grow while iterating
                yield it.items[i]
                i += 1
            return
        if isinstance(it, SStr):
            raise Unsupported('iteration over a symbolic string')
        if isinstance(it, Obj):
            k, fn = mro_lookup(it.cls, '__iter__')
            if fn is None:
                py_raise(TypeError, '%r object is not iterable' % it.cls.__name__)
            g = self.call(Bound(it, fn), [], {})
            yield from self.iterate(g)
            return
        if isinstance(it, dict):
            yield from list(it.keys())
            return
        if isinstance(it, (list, collections.deque)):
            i = 0
            while i < len(it):
                yield it[i]
                i += 1
            return
        if isinstance(it, (Sym, Opaque)) or it is None or isinstance(it, (int, float)):
            if it is None or isinstance(it, (int, float, bool)):
                py_raise(TypeError, '%r object is not iterable' % type(it).__name__)
            if isinstance(it, (SInt, SBool, SReal)):
                py_raise(TypeError, 'number is not iterable')
            raise Unsupported('iterate %r' % (it,))
        try:
            itr = iter(it)
        except TypeError as ex:
            raise PyRaise(TypeError, ex.args)
        yield from itr

    # ================================================================ assignment
    def assign(self, t, v, fr):
        if isinstance(t, ast.Name):
            if t.id in fr.globals_declared:
                self.ctx.gstore[(id(fr.g), t.id)] = v
            else:
                fr.env[t.id] = v
        elif isinstance(t, ast.Attribute):
            self.setattr(self.eval(t.value, fr), t.attr, v)
        elif isinstance(t, ast.Subscript):
            o = self.eval(t.value, fr)
            k = self.eval_slice(t.slice, fr)
            self.store_subscript(o, k, v)
        elif isinstance(t, (ast.Tuple, ast.List)):
            vv = v.v if isinstance(v, Cell) else v
            if isinstance(vv, SSeq) and not any(isinstance(x, ast.Starred) for x in t.elts) and \
                    self.ctx.unique_int(z3.Length(vv.e)) is None:
                # unpacking a sequence of unknown length: one branch on its length instead of a lazy walk
                n = len(t.elts)
                ln = z3.Length(vv.e)
                if not self.ctx.branch(ln == n):
                    if self.ctx.branch(ln < n):
                        py_raise(ValueError, 'not enough values to unpack (expected %d)' % n)
                    py_raise(ValueError, 'too many values to unpack (expected %d)' % n)
                vs = [vv.ek.wrap(vv.e[i]) for i in range(n)]
                for i in range(n):
                    self.ctx.add_pool(i)
            else:
                vs = list(self.iterate(v))
            if any(isinstance(x, ast.Starred) for x in t.elts):
                raise Unsupported('starred assignment')
            if len(vs) < len(t.elts):
                py_raise(ValueError, 'not enough values to unpack (expected %d, got %d)' % (len(t.elts), len(vs)))
            if len(vs) > len(t.elts):
                py_raise(ValueError, 'too many values to unpack (expected %d)' % len(t.elts))
            for tt, vv in zip(t.elts, vs):
                self.assign(tt, vv, fr)
        else:
            raise Unsupported('assign target ' + type(t).__name__)

    def store_subscript(self, o, k, v):
        if isinstance(o, (dict, list)):
            module_state_guard(o, 'item assignment')
        if isinstance(o, dict):
            if is_sym(k):
                raise Unsupported('dict store with symbolic key')
            o[k] = v
            return
        if isinstance(o, list):
            if is_sym(k):
                raise Unsupported('list store with symbolic index')
            try:
                o[k] = v
            except NATIVE_EXC as ex:
                raise PyRaise(type(ex), ex.args)
            return
        if isinstance(o, Cell):
            n = z3.Length(o.v.e)
            i = zi(k)
            if not self.ctx.branch(z3.And(-n <= i, i < n)):
                py_raise(IndexError, 'list assignment index out of range')
            i = z3.If(i < 0, i + n, i)
            self.ctx.add_pool(i)
            if o.pycls is bytearray:
                if not is_intlike(v):
                    py_raise(TypeError, 'an integer is required')
                if not self.ctx.branch(z3.And(zi(v) >= 0, zi(v) <= 255)):
                    py_raise(ValueError, 'byte must be in range(0, 256)')
            e = o.v.e
            o.v = SSeq(z3.Concat(z3.Extract(e, z3.IntVal(0), i), z3.Unit(o.v.ek.unwrap(v)),
                                 z3.Extract(e, i + 1, n - i - 1)), o.pycls, o.v.ek)
            return
        if isinstance(o, TrackList):
            if is_sym(k):
                raise Unsupported('symbolic index store')
            o.items[k] = v
            return
        if isinstance(o, (SSeq, tuple, str, SStr)):
            py_raise(TypeError, 'object does not support item assignment')
        raise Unsupported('subscript store on %r' % (o,))

    # ================================================================ expressions
    def eval(self, e, fr):
        m = getattr(self, 'e_' + type(e).__name__, None)
        if m is None:
            raise Unsupported('expression ' + type(e).__name__)
        r = m(e, fr)
        if type(r) is PyList and r.sym is not None:
            return r.sym           # a list that has been extended by a sequence of unknown length
        return r

    def e_Constant(self, e, fr):
        return e.value

    def e_Name(self, e, fr):
        if e.id in fr.env and e.id not in fr.globals_declared:
            return fr.env[e.id]
        key = (id(fr.g), e.id)
        if getattr(self, '_greads', None) is not None and e.id in mutable_globals(fr.g):
            self._greads.append((key, fr.g))
        if key in self.ctx.gstore:
            return self.ctx.gstore[key]
        if e.id in fr.g:
            return fr.g[e.id]
        if hasattr(builtins, e.id):
            return getattr(builtins, e.id)
        py_raise(NameError, "name %r is not defined" % e.id)

    def e_NamedExpr(self, e, fr):
        v = self.eval(e.value, fr)
        self.assign(e.target, v, fr)
        return v

    def _elts(self, elts, fr):
        out = []
        for x in elts:
            if isinstance(x, ast.Starred):
                out.extend(self.iterate(self.eval(x.value, fr)))
            else:
                out.append(self.eval(x, fr))
        return out

    def e_List(self, e, fr):
        return PyList(self._elts(e.elts, fr))

    def e_Tuple(self, e, fr):
        return tuple(self._elts(e.elts, fr))

    def e_Set(self, e, fr):
        xs = self._elts(e.elts, fr)
        if has_sym(xs):
            raise Unsupported('set display with symbolic members')
        return set(xs)

    def e_Dict(self, e, fr):
        out = {}
        for k, v in zip(e.keys, e.values):
            if k is None:
                d = self.eval(v, fr)
                if isinstance(d, Obj):
                    raise Unsupported('** of object')
                out.update(d)
            else:
                kk = self.eval(k, fr)
                if is_sym(kk):
                    raise Unsupported('dict display with symbolic key')
                out[kk] = self.eval(v, fr)
        return out

    def e_JoinedStr(self, e, fr):
        parts = []
        for v in e.values:
            if isinstance(v, ast.Constant):
                parts.append(v.value)
            else:
                parts.append(self.e_FormattedValue(v, fr))
        return self.models.str_concat(self, parts)

    def e_FormattedValue(self, e, fr):
        v = self.eval(e.value, fr)
        spec = ''
        if e.format_spec is not None:
            spec = self.eval(e.format_spec, fr)
        conv = {-1: None, 115: 's', 114: 'r', 97: 'a'}[e.conversion]
        return self.models.format_value(self, v, conv, spec)

    def e_Lambda(self, e, fr):
        return Closure(e, fr.env, fr.g)

    def e_Attribute(self, e, fr):
        return self.getattr(self.eval(e.value, fr), e.attr)

    def e_Call(self, e, fr):
        f = self.eval(e.func, fr)
        args = self._elts(e.args, fr)
        kwargs = {}
        for k in e.keywords:
            if k.arg is None:
                d = self.eval(k.value, fr)
                if not isinstance(d, dict):
                    raise Unsupported('** of non-dict')
                for kk in d:
                    if not isinstance(kk, str):
                        py_raise(TypeError, 'keywords must be strings')
                    if kk in kwargs:
                        py_raise(TypeError, 'got multiple values for keyword argument %r' % kk)
                kwargs.update(d)
            else:
                kwargs[k.arg] = self.eval(k.value, fr)
        return self.call(f, args, kwargs)

    def e_BoolOp(self, e, fr):
        isand = isinstance(e.op, ast.And)
        v = None
        for x in e.values:
            v = self.eval(x, fr)
            t = self.truth(v)
            if isand and not t:
                return v
            if not isand and t:
                return v
        return v

    def e_UnaryOp(self, e, fr):
        v = self.eval(e.operand, fr)
        if isinstance(e.op, ast.Not):
            return not self.truth(v)
        if isinstance(e.op, ast.USub):
            if isinstance(v, (SInt, SBool)):
                return SInt(-zi(v))
            if isinstance(v, SReal):
                return SReal(-v.e)
            if is_sym(v):
                py_raise(TypeError, 'bad operand type for unary -')
            return self.native(operator.neg, [v], {})
        if isinstance(e.op, ast.UAdd):
            if isinstance(v, (SInt, SBool)):
                return SInt(zi(v))
            if isinstance(v, SReal):
                return v
            return self.native(operator.pos, [v], {})
        if isinstance(e.op, ast.Invert):
            if isinstance(v, (SInt, SBool)):
                return SInt(-zi(v) - 1)
            if is_sym(v):
                py_raise(TypeError, 'bad operand type for unary ~')
            return self.native(operator.invert, [v], {})
        raise Unsupported('unary op')

    def e_IfExp(self, e, fr):
        t = self.eval(e.test, fr)
        if getattr(self.ctx, 'merge_ifexp', False) and isinstance(t, SBool):
            # inside an element-wise map over a sequence of unknown length: no forking, build an if-then-else term
            a = self.eval(e.body, fr)
            b = self.eval(e.orelse, fr)
            if is_intlike(a) and is_intlike(b):
                return SInt(z3.If(t.e, zi(a), zi(b)))
            if is_numlike(a) and is_numlike(b):
                return SReal(z3.If(t.e, zr(a), zr(b)))
            raise Unsupported('conditional expression of non-numeric values inside an element-wise map')
        return self.eval(e.body, fr) if self.truth(t) else self.eval(e.orelse, fr)

    def e_BinOp(self, e, fr):
        return self.binop(e.op, self.eval(e.left, fr), self.eval(e.right, fr))

    # ---- arithmetic
    def binop(self, op, l, r):
        if not has_sym(l) and not has_sym(r):
            f = OPS.get(type(op))
            if f is None:
                raise Unsupported('operator ' + type(op).__name__)
            return self.native(f, [l, r], {})
        T = type(op)
        lseq = isinstance(l, (SSeq, Cell, list, tuple, bytes, bytearray, TrackList))
        rseq = isinstance(r, (SSeq, Cell, list, tuple, bytes, bytearray, TrackList))
        if T is ast.Add and (lseq or rseq):
            return self.seq_add(l, r)
        if T is ast.Add and (isinstance(l, (SStr, str)) or isinstance(r, (SStr, str))):
            if isinstance(l, (SStr, str)) and isinstance(r, (SStr, str)):
                return SStr(z3.Concat(zs(l), zs(r)))
            py_raise(TypeError, 'can only concatenate str to str')
        if T is ast.Mod and isinstance(l, (SStr, str)):
            return self.models.percent_format(self, l, r)
        if T is ast.Mult and (lseq or rseq or isinstance(l, (str, SStr)) or isinstance(r, (str, SStr))):
            raise Unsupported('sequence repetition with symbolic operand')
        if not (is_numlike(l) and is_numlike(r)):
            py_raise(TypeError, 'unsupported operand type(s) for %s: %s and %s' % (T.__name__, _tn(l), _tn(r)))
        if isinstance(l, (SReal, float)) or isinstance(r, (SReal, float)) or T is ast.Div:
            return self.real_op(T, l, r)
        a, b = zi(l), zi(r)
        if T is ast.Add:
            return SInt(a + b)
        if T is ast.Sub:
            return SInt(a - b)
        if T is ast.Mult:
            return SInt(a * b)
        if T in (ast.FloorDiv, ast.Mod):
            if is_sym(r):
                if not self.ctx.branch(b != 0):
                    py_raise(ZeroDivisionError, 'integer division or modulo by zero')
                if self.ctx.feasible(b < 0):
                    raise Unsupported('floor division by a possibly negative symbolic divisor')
            else:
                if r == 0:
                    py_raise(ZeroDivisionError, 'integer division or modulo by zero')
                if r < 0:
                    raise Unsupported('floor division by a negative constant')
            return SInt(a / b) if T is ast.FloorDiv else SInt(a % b)
        if T is ast.LShift or T is ast.RShift:
            if is_sym(r):
                k = self.ctx.unique_int(b)
                if k is None:
                    raise Unsupported('symbolic shift amount')
            else:
                k = int(r)
            if k < 0:
                py_raise(ValueError, 'negative shift count')
            return SInt(a * (1 << k)) if T is ast.LShift else SInt(a / (1 << k))
        if T is ast.BitAnd:
            return SInt(self.bitand(l, r))
        if T is ast.BitOr:
            # a | b == a + b - (a & b)
            return SInt(a + b - self.bitand(l, r))
        if T is ast.BitXor:
            return SInt(a + b - 2 * self.bitand(l, r))
        if T is ast.Pow:
            if not is_sym(l) and is_sym(r) and l == 2:
                k = self.ctx.unique_int(b)
                if k is not None and k >= 0:
                    return 2 ** k
                return self.models.pow2(self, r)
            raise Unsupported('symbolic power')
        raise Unsupported('binop ' + T.__name__)

    def bitand(self, l, r):
        """z3 Int term for l & r (mathematical two's-complement semantics of Python ints)"""
        if is_sym(r) and not is_sym(l):
            l, r = r, l
        a = zi(l)
        if not is_sym(r):
            m = int(r)
            if m >= 0:
                if (m & (m + 1)) == 0:
                    return a % (m + 1)
                # mask with a contiguous run of ones: bits lo..hi-1
                low = (m & -m).bit_length() - 1
                if ((m >> low) & ((m >> low) + 1)) == 0:
                    width = (m >> low).bit_length()
                    return ((a / (1 << low)) % (1 << width)) * (1 << low)
                tot = z3.IntVal(0)
                for i in range(m.bit_length()):
                    if m >> i & 1:
                        tot = tot + ((a / (1 << i)) % 2) * (1 << i)
                return tot
            # negative mask: a & m == a - (a & ~m)
            return a - self.bitand(l, ~m)
        b = zi(r)
        ctx = self.ctx
        for (x, y) in ((a, b), (b, a)):
            for k in (1, 4, 5, 7, 8, 14, 16, 21, 24, 28):
                mm = 1 << k
                if not ctx.feasible(z3.Not(z3.And(x % mm == 0, 0 <= y, y < mm))):
                    return z3.IntVal(0)
        # one operand provably a small non-negative number: a & y = sum over its bits
        for (x, y) in ((a, b), (b, a)):
            for w in (8, 16):
                if not ctx.feasible(z3.Not(z3.And(0 <= y, y < (1 << w)))):
                    tot = z3.IntVal(0)
                    for i in range(w):
                        tot = tot + z3.If((y / (1 << i)) % 2 == 1, ((x / (1 << i)) % 2) * (1 << i), 0)
                    return tot
        # x & (x - 1) for 0 <= x < 2**w: the result r satisfies 0 <= r <= x and (r == 0 iff x is 0 or a power of two).  That is
        # the theory lemma `bv.x-and-x-minus-one[w]`, discharged in bit-vector mode for every width of AND_MINUS_ONE_WIDTHS
        # on every run of the properties that use it (contracts/l_bits.py); nothing else is known about r.
        for (x, y) in ((a, b), (b, a)):
            dd = z3.simplify(x - y - 1)
            if z3.is_int_value(dd) and dd.as_long() == 0:
                for w in AND_MINUS_ONE_WIDTHS:
                    if not ctx.feasible(z3.Not(z3.And(0 <= x, x < (1 << w)))):
                        r_ = ctx.fresh('and_minus_one')
                        ctx.assume([0 <= r_, r_ <= x, (r_ == 0) == z3.Or([x == 0] + [x == (1 << k) for k in range(w)])])
                        ctx.event('theory-lemma', 'bv.x-and-x-minus-one[%d]' % w)
                        return r_
        W = None
        for w in (8, 16, 32):
            if not ctx.feasible(z3.Not(z3.And(0 <= a, a < (1 << w), 0 <= b, b < (1 << w)))):
                W = w
                break
        if W is None:
            raise Unsupported('bitwise and/or of two unbounded symbolic integers')
        return z3.BV2Int(z3.Int2BV(a, W) & z3.Int2BV(b, W))

    def real_op(self, T, l, r):
        a, b = zr(l), zr(r)
        if T is ast.Add:
            return SReal(a + b)
        if T is ast.Sub:
            return SReal(a - b)
        if T is ast.Mult:
            return SReal(a * b)
        if T is ast.Div:
            if is_sym(r):
                if not self.ctx.branch(b != 0):
                    py_raise(ZeroDivisionError, 'division by zero')
            elif r == 0:
                py_raise(ZeroDivisionError, 'division by zero')
            return SReal(a / b)
        raise Unsupported('real operator ' + T.__name__)

    def seq_add(self, l, r):
        def fam(v):
            if isinstance(v, (SSeq, Cell, TrackList)):
                return seq_family(v.pycls)
            return seq_family(type(v))
        if not (isinstance(l, (SSeq, Cell, list, tuple, bytes, bytearray, TrackList)) and
                isinstance(r, (SSeq, Cell, list, tuple, bytes, bytearray, TrackList))):
            py_raise(TypeError, 'can only concatenate sequence to sequence')
        if fam(l) != fam(r):
            py_raise(TypeError, 'can only concatenate %s (not "%s") to %s' % (fam(l), fam(r), fam(l)))
        if isinstance(l, TrackList) or isinstance(r, TrackList):
            raise Unsupported('track concatenation')
        base = {'list': list, 'tuple': tuple, 'bytes': bytes}.get(fam(l), list)
        if isinstance(l, (SSeq, Cell)) or isinstance(r, (SSeq, Cell)):
            ek = (l.v.ek if isinstance(l, Cell) else l.ek) if isinstance(l, (SSeq, Cell)) else \
                 (r.v.ek if isinstance(r, Cell) else r.ek)
            res = SSeq(z3.Concat(zseq(l, ek), zseq(r, ek)), base, ek)
            if base is list:
                return Cell(res, list)
            return res
        # both concrete-length
        if base is tuple:
            return tuple(l) + tuple(r)
        return list(l) + list(r)

    # ---- comparisons
    def e_Compare(self, e, fr):
        l = self.eval(e.left, fr)
        res = True
        n = len(e.ops)
        for idx, (op, rn) in enumerate(zip(e.ops, e.comparators)):
            r = self.eval(rn, fr)
            c = self.compare(op, l, r)
            if idx == n - 1:
                if res is True:
                    return c
                return c if self.truth(res) else False
            if not self.truth(c):
                return False
            l = r
        return res

    def compare(self, op, l, r):
        T = type(op)
        if T in (ast.In, ast.NotIn):
            c = self.contains(r, l)
            return self.neg(c) if T is ast.NotIn else c
        if T in (ast.Is, ast.IsNot):
            c = self.identical(l, r)
            return self.neg(c) if T is ast.IsNot else c
        if T is ast.Eq:
            return self.equal(l, r)
        if T is ast.NotEq:
            return self.neg(self.equal(l, r))
        # ordering
        if not has_sym(l) and not has_sym(r):
            return self.native(CMP[T], [l, r], {})
        if is_numlike(l) and is_numlike(r):
            if isinstance(l, (SReal, float)) or isinstance(r, (SReal, float)):
                fl = l if isinstance(l, float) else (r if isinstance(r, float) else None)
                if fl is not None and fl in (float('inf'), float('-inf')):
                    # comparison of a finite symbolic number with an infinity
                    big = fl > 0
                    left_inf = isinstance(l, float) and l == fl
                    if T in (ast.Lt, ast.LtE):
                        return (not big) if left_inf else big
                    return big if left_inf else (not big)
                return SBool(CMP[T](zr(l), zr(r)))
            return SBool(CMP[T](zi(l), zi(r)))
        if isinstance(l, (SStr, str)) and isinstance(r, (SStr, str)):
            if T is ast.Lt:
                return SBool(zs(l) < zs(r))
            if T is ast.LtE:
                return SBool(zs(l) <= zs(r))
            if T is ast.Gt:
                return SBool(zs(r) < zs(l))
            return SBool(zs(r) <= zs(l))
        py_raise(TypeError, "'%s' not supported between instances of %s and %s" % (T.__name__, _tn(l), _tn(r)))

    def neg(self, c):
        if isinstance(c, SBool):
            return SBool(z3.Not(c.e))
        return not self.truth(c)

    def identical(self, l, r):
        if isinstance(l, (SInt, SBool, SReal, SStr, SSeq)) or isinstance(r, (SInt, SBool, SReal, SStr, SSeq)):
            if l is r:
                return True
            if l is None or r is None or isinstance(l, (Obj, Cell)) or isinstance(r, (Obj, Cell)):
                return False
            if isinstance(l, SBool) and isinstance(r, bool):
                return SBool(l.e == r)
            if isinstance(r, SBool) and isinstance(l, bool):
                return SBool(r.e == l)
            if isinstance(l, (SBool, bool)) != isinstance(r, (SBool, bool)):
                return False
            raise Unsupported('identity of symbolic values')
        return l is r

    def equal(self, l, r):
        """Python == ; returns bool or SBool"""
        if isinstance(l, Cell):
            l = l.v
        if isinstance(r, Cell):
            r = r.v
        if isinstance(l, SMsg) or isinstance(r, SMsg):
            m = l if isinstance(l, SMsg) else r
            o = r if m is l else l
            if isinstance(o, (SMsg, Obj)):
                return SBool(m.e == m.ek.unwrap(o))     # BaseMessage.__eq__: equal attribute dicts
            py_raise(TypeError, "can't compare message to %s" % _tn(o))
        if isinstance(l, Obj) or isinstance(r, Obj):
            if l is r:
                k, eqf = mro_lookup(l.cls, '__eq__')
                if k is object:
                    return True
            for a, b in ((l, r), (r, l)):
                if isinstance(a, Obj):
                    k, eqf = mro_lookup(a.cls, '__eq__')
                    if k is not object and eqf is not None:
                        return self.call(Bound(a, eqf), [b], {})
            return l is r
        if isinstance(l, TrackList) or isinstance(r, TrackList):
            if isinstance(l, TrackList) and isinstance(r, TrackList):
                return self.equal(l.items, r.items)
            other = r if isinstance(l, TrackList) else l
            tl = l if isinstance(l, TrackList) else r
            if isinstance(other, list):
                return self.equal(tl.items, other)
            return False
        if not has_sym(l) and not has_sym(r):
            try:
                return l == r
            except NATIVE_EXC as ex:
                raise PyRaise(type(ex), ex.args)
        if l is None or r is None:
            return l is r
        if is_numlike(l) and is_numlike(r):
            if isinstance(l, (SReal, float)) or isinstance(r, (SReal, float)):
                for x in (l, r):
                    if isinstance(x, float) and (x != x or x in (float('inf'), float('-inf'))):
                        return False
                return SBool(zr(l) == zr(r))
            return SBool(zi(l) == zi(r))
        if isinstance(l, (SStr, str)) and isinstance(r, (SStr, str)):
            return SBool(zs(l) == zs(r))
        lseq = isinstance(l, (SSeq, list, tuple, bytes, bytearray))
        rseq = isinstance(r, (SSeq, list, tuple, bytes, bytearray))
        if lseq and rseq:
            fl = seq_family(l.pycls if isinstance(l, SSeq) else type(l))
            fr_ = seq_family(r.pycls if isinstance(r, SSeq) else type(r))
            if fl != fr_:
                return False
            if isinstance(l, SSeq) or isinstance(r, SSeq):
                ek = l.ek if isinstance(l, SSeq) else r.ek
                if ek is not INT_EK:
                    raise Unsupported('equality of object sequences')
                for x in (l, r):
                    if not isinstance(x, SSeq) and not all(is_intlike(y) for y in x):
                        raise Unsupported('sequence equality with non-int items')
                return SBool(zseq(l, ek) == zseq(r, ek))
            if len(l) != len(r):
                return False
            acc = []
            for a, b in zip(l, r):
                c = self.equal(a, b)
                if c is False:
                    return False
                if c is not True:
                    acc.append(zb(c))
            return SBool(z3.And(acc)) if acc else True
        if isinstance(l, dict) and isinstance(r, dict):
            if set(l.keys()) != set(r.keys()):
                return False
            acc = []
            for k in l:
                c = self.equal(l[k], r[k])
                if c is False:
                    return False
                if c is not True:
                    acc.append(zb(c))
            return SBool(z3.And(acc)) if acc else True
        if isinstance(l, (Bound, Closure, GenObj, Opaque, ExcVal)) or isinstance(r, (Bound, Closure, GenObj, Opaque, ExcVal)):
            return l is r
        # different kinds (int vs str, seq vs int, ...): never equal
        return False

    def contains(self, cont, x):
        """x in cont"""
        if isinstance(cont, Cell):
            cont = cont.v
        if isinstance(cont, Obj):
            k, fn = mro_lookup(cont.cls, '__contains__')
            if fn is not None:
                return self.to_bool_value(self.call(Bound(cont, fn), [x], {}))
            raise Unsupported('in on object')
        if isinstance(cont, TrackList):
            cont = cont.items
        if isinstance(cont, (SStr, str)):
            if not isinstance(x, (SStr, str)):
                py_raise(TypeError, "'in <string>' requires string as left operand")
            if not is_sym(cont) and not is_sym(x):
                return x in cont
            return SBool(z3.Contains(zs(cont), zs(x)))
        if isinstance(cont, SSeq):
            if cont.ek is not INT_EK:
                raise Unsupported('membership in object sequence')
            if is_intlike(x):
                return SBool(z3.Contains(cont.e, z3.Unit(zi(x))))
            if is_sym(x):
                raise Unsupported('membership of non-int symbolic value in sequence')
            return False
        if isinstance(cont, range) and isinstance(x, (SInt, SBool)):
            e = zi(x)
            if cont.step == 1:
                return SBool(z3.And(e >= cont.start, e < cont.stop))
            return SBool(int_in(e, list(cont)))
        if isinstance(cont, (set, frozenset, dict, list, tuple, range)) or isinstance(cont, type({}.keys())):
            items = list(cont)
            if not has_sym(x) and not has_sym(items):
                try:
                    return x in cont
                except NATIVE_EXC as ex:
                    raise PyRaise(type(ex), ex.args)
            if isinstance(x, (SInt, SBool)) and not has_sym(items):
                ints = [k for k in items if isinstance(k, (int, float)) and not isinstance(k, bool) and k == int(k)]
                ints += [int(k) for k in items if isinstance(k, bool)]
                return SBool(int_in(zi(x), [int(k) for k in ints]))
            if isinstance(x, SStr) and not has_sym(items):
                strs = [k for k in items if isinstance(k, str)]
                return SBool(z3.Or([x.e == z3.StringVal(k) for k in strs])) if strs else False
            if isinstance(x, (SReal,)) and not has_sym(items):
                nums = [k for k in items if isinstance(k, (int, float)) and k == k and abs(k) != float('inf')]
                return SBool(z3.Or([x.e == zr(k) for k in nums])) if nums else False
            if isinstance(cont, (set, frozenset, dict)) and isinstance(x, (SSeq, Cell)):
                py_raise(TypeError, 'unhashable type')
            if isinstance(cont, (list, tuple)):
                acc = []
                for it in items:
                    c = self.equal(it, x)
                    if c is True:
                        return True
                    if c is not False:
                        acc.append(zb(c))
                return SBool(z3.Or(acc)) if acc else False
            raise Unsupported('membership test %r in %r' % (x, type(cont).__name__))
        if isinstance(cont, collections.deque):
            return self.contains(list(cont), x)
        if is_sym(cont) or cont is None or isinstance(cont, (int, float)):
            py_raise(TypeError, 'argument of type %s is not iterable' % _tn(cont))
        return self.native(operator.contains, [cont, x], {})

    # ---- subscripts
    def eval_slice(self, s, fr):
        if isinstance(s, ast.Slice):
            lo = self.eval(s.lower, fr) if s.lower is not None else None
            hi = self.eval(s.upper, fr) if s.upper is not None else None
            st = self.eval(s.step, fr) if s.step is not None else None
            return SliceVal(lo, hi, st)
        return self.eval(s, fr)

    def e_Subscript(self, e, fr):
        o = self.eval(e.value, fr)
        k = self.eval_slice(e.slice, fr)
        return self.subscript(o, k)

    def subscript(self, o, k):
        ctx = self.ctx
        if isinstance(o, Cell):
            r = self.subscript(o.v, k)
            if isinstance(k, SliceVal) and isinstance(r, SSeq):
                return Cell(SSeq(r.e, o.pycls, r.ek), o.pycls) if o.pycls in (list, bytearray) else r
            return r
        if isinstance(o, TrackList) or (isinstance(o, (SSeq,)) and False):
            k2, gi = mro_lookup(o.pycls, '__getitem__')
            if gi is not None and is_repo_fn(gi) and not getattr(self, '_in_getitem', False):
                self._in_getitem = True
                try:
                    return self.call(gi, [o, k], {})
                finally:
                    self._in_getitem = False
            return self.models.tracklist_getitem(self, o, k)
        if isinstance(k, SliceVal):
            if k.step is not None:
                raise Unsupported('slice step')
            if isinstance(o, SSeq):
                n = z3.Length(o.e)

                def norm(i, dflt):
                    if i is None:
                        return dflt
                    if not is_intlike(i):
                        py_raise(TypeError, 'slice indices must be integers')
                    i = zi(i)
                    # Python's clamping of slice bounds; the cases that cannot occur on this path are dropped so
                    # that the terms stay small (each test is one feasibility query)
                    if ctx.feasible(i < 0):
                        i = z3.If(i < 0, i + n, i)
                        i = z3.If(i < 0, z3.IntVal(0), i)
                    if ctx.feasible(i > n):
                        i = z3.If(i > n, n, i)
                    return i
                a = norm(k.lo, z3.IntVal(0))
                b = norm(k.hi, n)
                a, b = z3.simplify(a), z3.simplify(b)
                ln = b - a if not ctx.feasible(b < a) else z3.If(b > a, b - a, z3.IntVal(0))
                return SSeq(z3.Extract(o.e, a, z3.simplify(ln)), o.pycls if o.pycls in (list, tuple, bytes, bytearray) else _basefam(o.pycls), o.ek)
            if isinstance(o, SStr):
                return self.models.str_slice(self, o, k)
            if is_sym(k.lo) or is_sym(k.hi):
                if isinstance(o, (list, tuple, bytes, bytearray)):
                    lo = ctx.unique_int(zi(k.lo)) if k.lo is not None and is_sym(k.lo) else k.lo
                    hi = ctx.unique_int(zi(k.hi)) if k.hi is not None and is_sym(k.hi) else k.hi
                    if (k.lo is not None and lo is None) or (k.hi is not None and hi is None):
                        # move to the symbolic-length representation
                        return self.subscript(SSeq(zseq(o), type(o)), k)
                    return o[lo:hi]
                raise Unsupported('symbolic slice of %r' % type(o).__name__)
            if isinstance(o, (list, tuple, bytes, bytearray, str, collections.deque, range)):
                try:
                    return o[k.lo:k.hi]
                except NATIVE_EXC as ex:
                    raise PyRaise(type(ex), ex.args)
            py_raise(TypeError, '%s object is not subscriptable' % _tn(o))
        if isinstance(o, SSeq):
            if not is_intlike(k):
                py_raise(TypeError, 'sequence indices must be integers')
            n = z3.Length(o.e)
            i = zi(k)
            if not ctx.branch(z3.And(-n <= i, i < n)):
                py_raise(IndexError, 'index out of range')
            i = z3.simplify(z3.If(i < 0, i + n, i) if ctx.feasible(i < 0) else i)
            ctx.add_pool(i)
            item = o.e[i]
            if o.ek is INT_EK:
                sv = z3.simplify(item)
                if z3.is_int_value(sv):
                    item = sv          # e.g. element 1 of [0xFF, 0x51] ++ ...: a constant
            return o.ek.wrap(item)
        if isinstance(o, SStr):
            return self.models.str_index(self, o, k)
        if isinstance(o, dict):
            if isinstance(k, (SInt, SBool, SStr)):
                return self.dict_lookup(o, k)
            if has_sym(k):
                if isinstance(k, tuple):
                    return self.dict_lookup_tuple(o, k)
                py_raise(TypeError, 'unhashable or unsupported key')
            try:
                if k not in o:
                    py_raise(KeyError, k)
            except TypeError as ex:
                raise PyRaise(TypeError, ex.args)
            return o[k]
        if isinstance(o, (list, tuple, bytes, bytearray, str, collections.deque, range)):
            if isinstance(k, (SInt, SBool)):
                n = len(o)
                i = zi(k)
                kk = ctx.unique_int(i)
                if kk is None:
                    if not ctx.branch(z3.And(-n <= i, i < n)):
                        py_raise(IndexError, 'index out of range')
                    # fork over positions
                    idx = ctx.choose([z3.Or(i == j, i == j - n) for j in range(n)])
                    return o[idx]
                k = kk
            if is_sym(k) or isinstance(k, (str, float)) or k is None:
                py_raise(TypeError, 'indices must be integers')
            try:
                return o[k]
            except NATIVE_EXC as ex:
                raise PyRaise(type(ex), ex.args)
        if isinstance(o, Obj):
            k2, gi = mro_lookup(o.cls, '__getitem__')
            if gi is not None:
                return self.call(Bound(o, gi), [k], {})
            py_raise(TypeError, '%r object is not subscriptable' % o.cls.__name__)
        if o is None or isinstance(o, (int, float, SInt, SBool, SReal)):
            py_raise(TypeError, '%s object is not subscriptable' % _tn(o))
        raise Unsupported('subscript on %r' % (o,))

    def dict_lookup(self, d, k):
        ctx = self.ctx
        groups = {}
        order = []
        for kk, vv in d.items():
            if isinstance(k, SStr):
                ok = isinstance(kk, str)
            else:
                ok = isinstance(kk, (int, float)) and kk == kk and abs(kk) != float('inf') and kk == int(kk)
            if ok:
                key = id(vv) if isinstance(vv, (dict, list, Obj, types.FunctionType)) or has_sym(vv) else ('v', repr(vv))
                if key not in groups:
                    groups[key] = (vv, [])
                    order.append(key)
                groups[key][1].append(kk)
        gl = [groups[k2] for k2 in order]
        if isinstance(k, SStr):
            conds = [z3.Or([k.e == z3.StringVal(s) for s in ks]) for (_, ks) in gl]
        else:
            conds = [int_in(zi(k), [int(x) for x in ks]) for (_, ks) in gl]
        conds.append(z3.Not(z3.Or(conds)) if conds else z3.BoolVal(True))
        idx = ctx.choose(conds)
        if idx == len(gl):
            py_raise(KeyError, k)
        return gl[idx][0]

    def dict_lookup_tuple(self, d, k):
        """lookup with a tuple key whose components may be symbolic ints"""
        ctx = self.ctx
        cands = []
        for kk, vv in d.items():
            if isinstance(kk, tuple) and len(kk) == len(k):
                cs = []
                ok = True
                for a, b in zip(kk, k):
                    c = self.equal(a, b)
                    if c is False:
                        ok = False
                        break
                    if c is not True:
                        cs.append(zb(c))
                if ok:
                    cands.append((z3.And(cs) if cs else z3.BoolVal(True), vv))
        conds = [c for c, _ in cands]
        conds.append(z3.Not(z3.Or(conds)) if conds else z3.BoolVal(True))
        idx = ctx.choose(conds)
        if idx == len(cands):
            py_raise(KeyError, k)
        return cands[idx][1]

    # ---- comprehensions
    def _comp(self, e, fr, emit):
        env = dict(fr.env)
        cfr = Frame(fr.name, env, fr.g, fr.fi)
        cfr.globals_declared = fr.globals_declared

        def rec(gi):
            if gi == len(e.generators):
                emit(cfr)
                return
            gen = e.generators[gi]
            it = self.eval(gen.iter, cfr if gi else fr)
            if isinstance(it, Obj):
                k, fn = mro_lookup(it.cls, '__iter__')
                if fn is not None:
                    it = self.call(Bound(it, fn), [], {})
            if gi == 0 and isinstance(it, (SSeq, Cell)) and self.ctx.unique_int(z3.Length(zseq(it))) is None:
                raise _SymbolicComp(it)
            for v in self.iterate(it):
                self.assign(gen.target, v, cfr)
                if all(self.truth(self.eval(c, cfr)) for c in gen.ifs):
                    rec(gi + 1)
        rec(0)

    def e_ListComp(self, e, fr):
        out = []
        try:
            self._comp(e, fr, lambda cfr: out.append(self.eval(e.elt, cfr)))
        except _SymbolicComp as sc:
            ordn = getattr(fr, 'comp_ord', 0)
            fr.comp_ord = ordn + 1
            spec = self.loops.get((fr.name, 'comp%d' % ordn))
            if spec is not None:
                return self._comp_cut(e, fr, sc.it, spec, '%s#comp%d' % (fr.name, ordn))
            return self.models.map_comprehension(self, e, fr, sc.it)
        return PyList(out)

    def _comp_cut(self, e, fr, it, spec, base):
        """[elt for x in s] with side effects in elt, s of unknown length: cut at an invariant over (i, out)"""
        gen = e.generators[0]
        if len(e.generators) != 1 or gen.ifs:
            raise Unsupported('loop contract on a filtering / nested comprehension')
        sv = it.v if isinstance(it, Cell) else it
        n = z3.Length(sv.e)
        st8 = spec.enter(self, fr, sv)
        st8.i = z3.IntVal(0)
        st8.out = z3.Empty(IntSeq)
        self.ctx.oblige(base + '.inv-entry', spec.inv(self, fr, st8), kind='inv-entry', hints=spec.hints(self, fr, st8, 'entry'))
        spec.havoc(self, fr, st8)
        i = self.ctx.fresh_index('i')
        st8.i = i
        st8.out = self.ctx.fresh('collected', IntSeq)
        self.ctx.assume([0 <= i, i <= n])
        self.ctx.assume(spec.inv(self, fr, st8))
        if self.ctx.branch(i < n):
            cfr = Frame(fr.name, dict(fr.env), fr.g, fr.fi)
            self.assign(gen.target, sv.ek.wrap(sv.e[i]), cfr)
            v = self.eval(e.elt, cfr)
            st8.out = z3.Concat(st8.out, z3.Unit(zi(v)))
            spec.step(self, fr, st8)
            st8.i = i + 1
            self.ctx.oblige(base + '.inv-preserved', spec.inv(self, fr, st8), kind='inv-preserved',
                            hints=spec.hints(self, fr, st8, 'preserved'))
            raise CutPath()
        return Cell(SSeq(st8.out, list), list)

    def e_SetComp(self, e, fr):
        out = []
        self._comp(e, fr, lambda cfr: out.append(self.eval(e.elt, cfr)))
        if has_sym(out):
            raise Unsupported('set comprehension with symbolic members')
        return set(out)

    def e_DictComp(self, e, fr):
        out = {}

        def emit(cfr):
            k = self.eval(e.key, cfr)
            if is_sym(k):
                raise Unsupported('dict comprehension with symbolic key')
            out[k] = self.eval(e.value, cfr)
        self._comp(e, fr, emit)
        return out

    def e_GeneratorExp(self, e, fr):
        # evaluated eagerly into a list, then wrapped as a generator object (the generator expressions in
        # mido have no side effects and are consumed immediately)
        out = []
        try:
            self._comp(e, fr, lambda cfr: out.append(self.eval(e.elt, cfr)))
        except _SymbolicComp as sc:
            return self.models.map_comprehension(self, e, fr, sc.it)

        def gen():
            yield from out
        return GenObj(gen(), '<genexpr>')


class PyList(list):
    """a Python list created by interpreted code; if it is later extended by a sequence of unknown length it
    turns into a symbolic cell (`sym`), and every later read of it yields that cell"""
    sym = None


class _SymbolicComp(Exception):
    def __init__(self, it):
        self.it = it


class SliceVal:
    def __init__(self, lo, hi, step=None):
        self.lo, self.hi, self.step = lo, hi, step


class TrackList:
    """mutable Python list (or list subclass such as MidiTrack) of concrete length holding objects"""
    def __init__(self, items, pycls=list):
        self.items = list(items)
        self.pycls = pycls

    def __repr__(self):
        return 'TrackList<%s>%r' % (self.pycls.__name__, self.items)


def _basefam(pycls):
    for k in pycls.__mro__:
        if k in (list, tuple, bytes, bytearray):
            return k
    return list


def _tn(v):
    if isinstance(v, (SInt,)):
        return "'int'"
    if isinstance(v, SBool):
        return "'bool'"
    if isinstance(v, SReal):
        return "'float'"
    if isinstance(v, SStr):
        return "'str'"
    if isinstance(v, (SSeq, Cell, TrackList)):
        return repr(v.pycls.__name__)
    if isinstance(v, Obj):
        return repr(v.cls.__name__)
    return repr(type(v).__name__)
