"""Dual-mode specification DSL.

Every function here works on z3 terms (symbolic mode: verification conditions) and on plain Python
values (concrete mode: replay of counterexamples on the real code, run-time contract checking).
The module imports without z3 so that replays can run under /venv/bin/python.

Clauses
-------
A contract formula is a *clause* or a list of clauses (conjunction).  A clause is
  * a z3 Bool / Python bool
  * All(lo, hi, f)   bounded universal quantifier over an integer index
  * Ex(lo, hi, f)    bounded existential quantifier
Quantifiers are never handed to the solver as they are (z3 answers `unknown` on ∀ over Seq):
goal-∀ is skolemised, hypothesis-∀ is instantiated at the index terms of the path (`pool`),
hypothesis-∃ is skolemised, goal-∃ becomes a hypothesis-∀ of the negation.  All four steps are sound.
"""
try:
    import z3
except ImportError:          # replay side
    z3 = None


def is_z(x):
    return z3 is not None and isinstance(x, z3.ExprRef)


def any_z(*xs):
    return any(is_z(x) for x in xs)


# ---------------------------------------------------------------- quantifier nodes
class Q:
    kind = None

    def __init__(self, lo, hi, f, name='k'):
        self.lo, self.hi, self.f, self.name = lo, hi, f, name


class All(Q):
    kind = 'all'


class Ex(Q):
    kind = 'ex'


def when(cond, clause):
    """cond ==> clause, pushed inside quantifiers (cond must not mention the bound index)."""
    if isinstance(clause, (list, tuple)):
        return [when(cond, c) for c in clause]
    if isinstance(clause, All):
        return All(clause.lo, clause.hi, lambda k, c=clause: Implies(cond, c.f(k)), clause.name)
    if isinstance(clause, Ex):
        # cond ==> exists k. f(k)  is not of the form exists k. (cond ==> f k) when range may be empty;
        # keep it exact:  (not cond) or exists ...   ->  handled as a disjunctive clause
        return AnyOf([Not(cond), clause])
    return Implies(cond, clause)


class AnyOf:
    """disjunction of clauses (used for (not c) or Ex(...))"""
    def __init__(self, parts):
        self.parts = list(parts)


def flat(clauses):
    if clauses is None:
        return []
    if isinstance(clauses, (list, tuple)):
        out = []
        for c in clauses:
            out.extend(flat(c))
        return out
    return [clauses]


# ---------------------------------------------------------------- concrete evaluation of clauses
def holds(clause):
    """concrete mode: evaluate a clause (list) to a Python bool"""
    for c in flat(clause):
        if isinstance(c, All):
            if not all(holds(c.f(k)) for k in range(c.lo, c.hi)):
                return False
        elif isinstance(c, Ex):
            if not any(holds(c.f(k)) for k in range(c.lo, c.hi)):
                return False
        elif isinstance(c, AnyOf):
            if not any(holds(p) for p in c.parts):
                return False
        elif not bool(c):
            return False
    return True


# ---------------------------------------------------------------- boolean connectives
def _zb(x):
    if is_z(x):
        return x
    return z3.BoolVal(bool(x))


def And(*xs):
    if len(xs) == 1 and isinstance(xs[0], (list, tuple)):
        xs = tuple(xs[0])
    if any_z(*xs):
        return z3.And([_zb(x) for x in xs]) if xs else z3.BoolVal(True)
    return all(bool(x) for x in xs)


def Or(*xs):
    if len(xs) == 1 and isinstance(xs[0], (list, tuple)):
        xs = tuple(xs[0])
    if any_z(*xs):
        return z3.Or([_zb(x) for x in xs]) if xs else z3.BoolVal(False)
    return any(bool(x) for x in xs)


def Not(x):
    return z3.Not(x) if is_z(x) else (not x)


def Implies(a, b):
    if any_z(a, b):
        return z3.Implies(_zb(a), _zb(b))
    return (not a) or bool(b)


def Iff(a, b):
    if any_z(a, b):
        return _zb(a) == _zb(b)
    return bool(a) == bool(b)


def Ite(c, a, b):
    if is_z(c):
        a = _lift(a, b)
        b = _lift(b, a)
        return z3.If(c, a, b)
    return a if c else b


def _lift(a, other):
    if is_z(a):
        return a
    if isinstance(a, bool):
        return z3.BoolVal(a)
    if isinstance(a, int):
        if is_z(other) and other.sort() == z3.RealSort():
            return z3.RealVal(a)
        return z3.IntVal(a)
    if isinstance(a, (tuple, list)):
        return seq(a)
    if isinstance(a, str):
        return z3.StringVal(a)
    raise TypeError('cannot lift %r' % (a,))


def eq(a, b):
    """value equality (ints, bools, sequences)"""
    if any_z(a, b):
        a2 = _lift(a, b)
        b2 = _lift(b, a2)
        return a2 == b2
    if isinstance(a, (list, tuple, bytes, bytearray)) or isinstance(b, (list, tuple, bytes, bytearray)):
        return list(a) == list(b)
    return a == b


def between(lo, x, hi):
    return And(lo <= x, x <= hi)


# ---------------------------------------------------------------- integers
def idiv(a, b):
    """floor division by a positive constant"""
    if any_z(a, b):
        return (a if is_z(a) else z3.IntVal(a)) / b
    return a // b


def imod(a, b):
    if any_z(a, b):
        return (a if is_z(a) else z3.IntVal(a)) % b
    return a % b


# ---------------------------------------------------------------- sequences of ints
def _isort():
    return z3.SeqSort(z3.IntSort())


def seq(xs):
    """sequence from a Python iterable whose items may be z3 Ints"""
    xs = list(xs)
    if any_z(*xs) or (z3 is not None and _SYMBOLIC[0]):
        if not xs:
            return z3.Empty(_isort())
        us = [z3.Unit(x if is_z(x) else z3.IntVal(int(x))) for x in xs]
        return us[0] if len(us) == 1 else z3.Concat(*us)
    return tuple(xs)


_SYMBOLIC = [False]     # set by the engine while generating VCs so that seq([...]) of constants is a z3 term


def smart_length(t):
    """Length of a z3 sequence term with concatenations / units / empties resolved arithmetically"""
    k = t.decl().kind() if z3.is_app(t) else None
    if k == z3.Z3_OP_SEQ_CONCAT:
        tot = None
        for c in t.children():
            l = smart_length(c)
            tot = l if tot is None else tot + l
        return tot
    if k == z3.Z3_OP_SEQ_UNIT:
        return z3.IntVal(1)
    if k == z3.Z3_OP_SEQ_EMPTY:
        return z3.IntVal(0)
    return z3.Length(t)


def length(s):
    if is_z(s):
        return z3.simplify(smart_length(s))
    return len(s)


def at(s, i):
    if any_z(s, i):
        s = _lift(s, None)
        return s[i]
    try:
        return s[i] if i >= 0 else -(10 ** 18)
    except IndexError:
        return -(10 ** 18)        # concrete mode: an out-of-range position (only ever used under a length guard)


def cat(*ss):
    if any_z(*ss):
        zs = [_lift(s, None) for s in ss]
        zs = [s for s in zs]
        return zs[0] if len(zs) == 1 else z3.Concat(*zs)
    out = ()
    for s in ss:
        out = out + tuple(s)
    return out


def sub(s, lo, hi):
    """s[lo:hi] for 0 <= lo <= hi <= len(s)"""
    if any_z(s, lo, hi):
        s = _lift(s, None)
        return z3.Extract(s, _lift(lo, None), _lift(hi - lo, None))
    return tuple(s[lo:hi])


def empty():
    if z3 is not None and _SYMBOLIC[0]:
        return z3.Empty(_isort())
    return ()


# ---------------------------------------------------------------- defined predicates (unfolded on demand)
DEFS = {}


def define(name, argsorts, body):
    """declare a predicate P(args) whose meaning is `body(*args)` (a clause list, may contain All).
    The solver layer adds  P(t) ==> body(t)  for every application P(t) that occurs in an obligation
    (definition unfolding, one direction, one level) -- never an assumption about the code."""
    f = z3.Function(name, *(list(argsorts) + [z3.BoolSort()]))
    DEFS[name] = body
    return f


def pointwise_eq(a, b, name='k'):
    """a == b for sequences, stated element by element (z3 is weak on extensional sequence equalities, strong on
    lengths and nth): clauses [len a == len b, forall k: a[k] == b[k]]"""
    if not any_z(a, b):
        return [list(a) == list(b)]
    a2 = _lift(a, None)
    b2 = _lift(b, None)
    return [z3.Length(a2) == z3.Length(b2), All(0, z3.Length(a2), lambda k: a2[k] == b2[k], name)]


def _flatten_seq(t):
    """flatten a z3 sequence term into atoms: ('u', int term) for unit items, ('s', seq term) for opaque parts"""
    k = t.decl().kind() if z3.is_app(t) else None
    if k == z3.Z3_OP_SEQ_CONCAT:
        out = []
        for c in t.children():
            out.extend(_flatten_seq(c))
        return out
    if k == z3.Z3_OP_SEQ_UNIT:
        return [('u', t.arg(0))]
    if k == z3.Z3_OP_SEQ_EMPTY:
        return []
    if k == z3.Z3_OP_SEQ_EXTRACT:
        inner = _flatten_seq(t.arg(0))
        o, l = z3.simplify(t.arg(1)), z3.simplify(t.arg(2))
        if all(a[0] == 'u' for a in inner) and z3.is_int_value(o) and z3.is_int_value(l):
            o, l = o.as_long(), l.as_long()
            if 0 <= o and o + l <= len(inner):
                return inner[o:o + l]
    return [('s', t)]


def concat_eq(a, b):
    """a == b for sequences built by concatenation, decided part by part when both sides flatten to the same shape
    (units against units, opaque parts against opaque parts): z3 is fast on the resulting integer equalities and slow on
    the extensional equality of two differently nested concatenations.  Falls back to a == b otherwise."""
    if not any_z(a, b):
        return [list(a) == list(b)]
    a2, b2 = _lift(a, None), _lift(b, None)
    fa, fb = _flatten_seq(a2), _flatten_seq(b2)
    if len(fa) == len(fb) and all(x[0] == y[0] for x, y in zip(fa, fb)):
        out = []
        for x, y in zip(fa, fb):
            if x[1].eq(y[1]):
                continue
            out.append(x[1] == y[1])
        return out or [True]
    return [a2 == b2]
