"""Concrete side: run the REAL function under the repository's interpreter and evaluate the contract.

usage:  /venv/bin/python -m pyvc.replay <replay.json>      (exit 1 if the contract is violated by the real code)
        /venv/bin/python -m pyvc.replay --batch <in.json> <out.json>
This module must not import z3.
"""
import json
import os
import sys
import traceback
import types

HERE = os.path.dirname(os.path.dirname(os.path.abspath(__file__)))
REPO = os.environ.get('PYVC_REPO', '/repo')
for p in (HERE, REPO):
    if p not in sys.path:
        sys.path.insert(0, p)

from pyvc import dsl                                        # noqa: E402
from pyvc.contract import REGISTRY, H, PreconditionFailed    # noqa: E402


def decode_value(v):
    if isinstance(v, dict) and 'float' in v:
        return float(v['float'])
    if isinstance(v, list):
        return [decode_value(x) for x in v]
    return v


def run_concrete(target, cfg, values):
    """returns dict(outcome=..., failed=[clause names], detail=...)"""
    import contracts  # noqa: F401  (registers everything)
    c = REGISTRY[target]
    values = {k: decode_value(v) for k, v in values.items()}
    h = H(values=values)
    try:
        args, kwargs = c.inputs(h, cfg)
    except PreconditionFailed:
        return dict(outcome='precondition-not-met', failed=[], detail='')
    except KeyError as ex:
        return dict(outcome='input-missing', failed=[], detail=repr(ex))
    setup = getattr(c, 'setup_concrete', None)
    teardown = None
    if setup:
        teardown = setup(h, cfg)
    f = c.callee(h, cfg)
    failed = []
    try:
        try:
            r = f(*args, **kwargs)
            if isinstance(r, types.GeneratorType) and getattr(c, 'collect', False):
                r = list(r)
        except Exception as ex:      # the real code raised
            name = type(ex).__name__
            meth = None
            for cls, m in c.raises.items():
                if isinstance(ex, cls):
                    meth = m
                    break
            if meth is None:
                return dict(outcome=name, failed=['raises-only.' + name],
                            detail=''.join(traceback.format_exception_only(type(ex), ex)).strip()[:300])
            try:
                ok = dsl.holds(getattr(c, meth)(h, cfg, h, ex))
            except Exception as ex2:
                return dict(outcome=name, failed=['raises.%s(evaluation error: %r)' % (name, ex2)], detail='')
            if not ok:
                failed.append('raises.' + name)
            fr = c.frame(h, cfg, h) or {}
            for nm, clause in fr.items():
                if not dsl.holds(clause):
                    failed.append('frame.' + nm)
            return dict(outcome=name, failed=failed, detail=str(ex)[:200])
        ens = c.ensures(h, cfg, h, r) or {}
        for nm, clause in ens.items():
            try:
                if not dsl.holds(clause):
                    failed.append('ensures.' + nm)
            except Exception as ex2:
                failed.append('ensures.%s(evaluation error: %r)' % (nm, ex2))
        fr = c.frame(h, cfg, h) or {}
        for nm, clause in fr.items():
            if not dsl.holds(clause):
                failed.append('frame.' + nm)
        try:
            detail = repr(r)[:200]
        except Exception as ex:       # repr() of the result itself is broken on the tree under test
            detail = '<repr of the result raised %s: %s>' % (type(ex).__name__, ex)
        return dict(outcome='ok', failed=failed, detail=detail)
    finally:
        if teardown:
            teardown()


def main(argv):
    if argv and argv[0] == '--batch':
        items = json.load(open(argv[1]))
        out = []
        for it in items:
            try:
                res = run_concrete(it['target'], it['cfg_raw'], it['inputs'])
            except Exception:
                res = dict(outcome='replay-error', failed=[], detail=traceback.format_exc()[-600:])
            out.append(res)
        json.dump(out, open(argv[2], 'w'))
        return 0
    rp = json.load(open(argv[0]))
    if rp.get('kind') == 'bounded':
        import importlib
        import contracts  # noqa: F401
        mod = importlib.import_module(rp['module'])
        res = getattr(mod, rp['func'])(rp.get('tier', 'quick'), rp.get('seed', 0), only=rp.get('inputs'))
        print(json.dumps(res, indent=1))
        return 1 if res.get('failures') else 0
    res = run_concrete(rp['target'], rp['cfg_raw'], rp['inputs'])
    print('replay of %s' % rp.get('obligation'))
    print('  function : %s  config %s' % (rp['target'], rp['cfg_raw']))
    print('  inputs   : %s' % json.dumps(rp['inputs']))
    print('  outcome  : %s  %s' % (res['outcome'], res['detail']))
    if res['failed']:
        print('  CONTRACT VIOLATED by the real code: %s' % ', '.join(res['failed']))
        return 1
    print('  contract holds on this input')
    return 0


if __name__ == '__main__':
    sys.exit(main(sys.argv[1:]))
