"""Runs verification units: path enumeration of the real function, obligations, discharge, witnesses."""
import json
import os
import sys
import time
import traceback
import z3

from . import dsl, solve
from .ctx import Ctx, explore
from .values import PyRaise, Unsupported, GenObj
from .interp import Interp
from .contract import H, REGISTRY, raw_function, model_value, Contract

from .contract import LEMMAS, BOUNDED, Lemma, lemma, bounded   # noqa: E402,F401


def make_hooks(contract, cfg):
    hooks = {}
    for t in contract.use:
        callee = REGISTRY[t]
        fn = raw_function(callee.target)

        def handler(ip, args, kwargs, callee=callee, fn=fn):
            try:
                return callee.call_site(ip, fn, args, kwargs)
            except (ValueError, TypeError) as ex:
                # the call does not have the shape the call-site contract was written for (the callee's signature changed):
                # the contract does not apply - execute the callee's real body instead (always sound)
                import traceback as _tb
                last = _tb.extract_tb(ex.__traceback__)[-1]
                if 'unpack' in str(ex) and os.sep + 'contracts' + os.sep in last.filename:
                    return ip.call_repo(fn, args, kwargs)
                raise
        hooks[fn] = handler
    extra = getattr(contract, 'hooks', None)
    if extra:
        hooks.update(extra(cfg))
    return hooks


def make_loops(contract):
    return dict(contract.loops)


def encode_value(v):
    if isinstance(v, float):
        if v != v or v in (float('inf'), float('-inf')):
            return {'float': repr(v)}
        return v
    if isinstance(v, (list, tuple)):
        return [encode_value(x) for x in v]
    if isinstance(v, (bytes, bytearray)):
        return list(v)
    return v


def project_inputs(ctx, model):
    out = {}
    for name, const in ctx.inputs.items():
        try:
            out[name] = encode_value(model_value(model, const))
        except Exception as ex:            # pragma: no cover
            out[name] = {'unprojectable': str(ex)}
    return out


def pc_text(ctx, npc, limit=6):
    out = []
    for c in ctx.pc[:npc][-limit:]:
        if isinstance(c, dsl.Q):
            out.append('%s %s in [%s, %s)' % (c.kind, c.name, c.lo, c.hi))
        elif isinstance(c, dsl.AnyOf):
            out.append('anyof(...)')
        else:
            s = str(c).replace('\n', ' ')
            out.append(s if len(s) < 160 else s[:157] + '...')
    return out


def run_unit(target, cfg, tier='quick', findings=()):
    """returns a JSON-able dict"""
    contract = REGISTRY[target]
    t0 = time.time()
    dsl._SYMBOLIC[0] = True
    res = dict(target=target, cfg=contract.config_name(cfg), cfg_raw=cfg, obligations=[], unsupported=[],
               witnesses=[], paths=0, errors=[], vacuous_paths=0, models=sorted(getattr(contract, 'models_used', ())))
    from .contract import TargetMissing
    try:
        hooks = make_hooks(contract, cfg)
        if not contract.target.startswith('harness:'):
            raw_function(contract.target)
    except TargetMissing as ex:
        res['unsupported'].append(dict(path=0, why='contract no longer applies: %s' % ex))
        res['wall_s'] = time.time() - t0
        return res
    loops = make_loops(contract)

    def run(ctx):
        h = H(ctx)
        ctx.h = h
        ctx.prefer_cvc5 = getattr(contract, 'solver', 'z3') == 'cvc5'
        args, kwargs = contract.inputs(h, cfg)
        ip = Interp(ctx, hooks=hooks, loops=loops)
        ctx.ip = ip
        setup = getattr(contract, 'setup', None)
        if setup:
            setup(h, cfg, ip)
        f = contract.callee(h, cfg)
        try:
            r = ip.call(f, list(args), dict(kwargs))
            if isinstance(r, GenObj) and getattr(contract, 'collect', False):
                r = list(ip.iterate(r))
        except PyRaise as pr:
            return ('raise', pr)
        return ('ok', r)

    try:
        paths = explore(run, max_paths=contract.path_budget,
                        time_budget=getattr(contract, 'time_budget', 600),
                        feas_timeout_ms=getattr(contract, 'feas_timeout_ms', 10000))
    except Exception:
        res['errors'].append(traceback.format_exc())
        res['wall_s'] = time.time() - t0
        return res
    res['paths'] = len(paths)
    from . import interp as _interp
    res['executed'] = sorted(x for x in _interp.EXECUTED if x.startswith('mido'))
    base = '%s[%s]' % (target, res['cfg'])
    res['function'] = contract.target
    for pi, (ctx, (kind, payload)) in enumerate(paths):
        try:
            _path_obligations(contract, cfg, ctx, kind, payload, pi, base, res, tier, findings)
        except Unsupported as u:
            res['unsupported'].append(dict(path=pi, why='contract evaluation: %s' % u))
        except Exception:
            res['errors'].append('path %d: %s' % (pi, traceback.format_exc()))
    res['wall_s'] = time.time() - t0
    return res


def _path_obligations(contract, cfg, ctx, kind, payload, pi, base, res, tier, findings=()):
    h = getattr(ctx, 'h', None)
    expect = None
    if kind == 'unsupported':
        res['unsupported'].append(dict(path=pi, why=payload, pc=pc_text(ctx, len(ctx.pc))))
        return
    if kind == 'ok':
        okind, val = payload
        if okind == 'ok':
            ens = contract.ensures(h, cfg, h, val) or {}
            eh = contract.ensure_hints(h, cfg, h, val) or []
            for nm, clause in ens.items():
                ctx.oblige('ensures.' + nm, clause, kind='ensures', hints=eh)
            expect = 'ok'
        else:
            pr = val
            meth = None
            for cls, m in contract.raises.items():
                if issubclass(pr.cls, cls):
                    meth = m
                    break
            if meth is None:
                ctx.oblige('raises-only.%s' % pr.cls.__name__, z3.BoolVal(False), kind='raises-only',
                           info=dict(exc=pr.cls.__name__, where=str(pr.where), args=[str(a)[:80] for a in pr.args_]))
            else:
                clause = getattr(contract, meth)(h, cfg, h, pr)
                parts = clause if isinstance(clause, (list, tuple)) else [clause]
                for ci, cl in enumerate(parts):
                    ctx.oblige('raises.%s%s' % (pr.cls.__name__, '.%d' % ci if len(parts) > 1 else ''), cl, kind='raises',
                               info=dict(exc=pr.cls.__name__))
            expect = pr.cls.__name__
        fr = contract.frame(h, cfg, h) or {}
        for nm, clause in fr.items():
            ctx.oblige('frame.' + nm, clause, kind='frame')
    # discharge
    for ob in ctx.obligations:
        ob.fullname = '%s#%s@p%d' % (base, ob.name, pi)
        try:
            solve.discharge(ctx, ob)
        except z3.Z3Exception as ex:
            ob.result = 'unknown'
            ob.reason = 'z3 exception: %s' % ex
        rec = dict(name=ob.fullname, kind=ob.kind, result=ob.result, solver=ob.solver, time=round(ob.time, 4),
                   info=ob.info, pc=pc_text(ctx, ob.npc))
        if ob.result != 'unsat':
            rec['reason'] = ob.reason
            rec['genuine'] = bool(getattr(ob, 'genuine', False))
            if ob.model is not None:
                rec['inputs'] = project_inputs(ctx, ob.model)
        if ob.result != 'unsat' and findings:
            _apply_finding(ctx, ob, rec, findings)
        if tier == 'thorough' and ob.result == 'unsat' and os.environ.get('PYVC_CVC5_RECHECK', '1') == '1':
            try:
                r2, dt2 = solve.independent_cvc5(ctx, ob)
                rec['cvc5_recheck'] = r2
                rec['cvc5_time'] = round(dt2, 3)
            except Exception as ex:
                rec['cvc5_recheck'] = 'error: %s' % ex
        res['obligations'].append(rec)
    # reachability + witness
    if getattr(contract, 'symbolic_only', False):
        for rec in res['obligations']:
            rec.pop('inputs', None)        # not replayable: the callees are replaced by contracts
        return
    if kind == 'ok':
        s = z3.Solver()
        s.set('timeout', 10000)
        terms = [z3.IntVal(i) for i in range(8)] + list(ctx.pool)
        for c in ctx.pc:
            if isinstance(c, dsl.All):
                for t in terms:
                    try:
                        s.add(z3.Implies(z3.And(c.lo <= t, t < c.hi), c.f(t)))
                    except z3.Z3Exception:
                        pass
            elif not isinstance(c, (dsl.Q, dsl.AnyOf)):
                s.add(c)
        r = s.check()
        if r == z3.unsat:
            res['vacuous_paths'] += 1
        elif r == z3.sat:
            exact = not any(isinstance(c, (dsl.Q, dsl.AnyOf)) for c in ctx.pc)
            res['witnesses'].append(dict(path=pi, inputs=project_inputs(ctx, s.model()), expect=expect, exact=exact))


def _apply_finding(ctx, ob, rec, findings):
    """a listed known finding: the obligation is re-proved outside the finding's region, so that any
    OTHER failing input of the same obligation is still reported"""
    import re
    for f in findings:
        if not re.search(f['obligation'], ob.fullname):
            continue
        rec['known_finding'] = f['id']
        region = f.get('region')
        if region is None:
            rec['residual'] = 'unsat'
            return
        env = dict(ctx.inputs)
        env.update(And=z3.And, Or=z3.Or, Not=z3.Not, len=z3.Length)
        try:
            reg = eval(region, {'__builtins__': {}}, env)
        except Exception as ex:
            rec['residual'] = 'error: %s' % ex
            return
        ob2 = type(ob)(ob.name, ob.npc, ob.goal, list(ob.hints) + [z3.Not(reg)], ob.kind, ob.info)
        solve.discharge(ctx, ob2)
        rec['residual'] = ob2.result
        if ob2.result != 'unsat' and ob2.model is not None:
            rec['residual_inputs'] = project_inputs(ctx, ob2.model)
            rec['genuine'] = bool(getattr(ob2, 'genuine', False))
            rec['result'] = ob2.result
        return


def run_lemma(idx):
    lem = LEMMAS[idx]
    dsl._SYMBOLIC[0] = True
    t0 = time.time()
    res = dict(target='lemma:' + lem.name, cfg='-', obligations=[], unsupported=[], witnesses=[], paths=1, errors=[],
               vacuous_paths=0, models=[])
    try:
        ctx = Ctx()
        for (nm, hyps, goal) in lem.vcs(ctx):
            c2 = Ctx()
            c2.nfresh = ctx.nfresh + 1000
            c2.pool = list(ctx.pool)
            c2.pc = list(dsl.flat(hyps))
            ob = c2.oblige(nm, goal, kind='lemma')
            ob.fullname = 'lemma:%s#%s' % (lem.name, nm)
            solve.discharge(c2, ob)
            rec = dict(name=ob.fullname, kind='lemma', result=ob.result, solver=ob.solver, time=round(ob.time, 4),
                       info={}, pc=[])
            if ob.result != 'unsat':
                rec['reason'] = ob.reason
                rec['genuine'] = False      # a failed lemma is a proof failure, never a violation of the code
            res['obligations'].append(rec)
    except Exception:
        res['errors'].append(traceback.format_exc())
    res['wall_s'] = time.time() - t0
    return res
