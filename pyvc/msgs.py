"""Messages inside sequences of unknown length (tracks, generator outputs): a z3 datatype.

    Msg = mk(kind, type, time, pay)
      kind : 0 Message, 1 MetaMessage, 2 UnknownMetaMessage
      type : the message type (String)
      time : Int (ticks)  or Real (seconds) -- two instances of the datatype
      pay  : Int, stands for the values of ALL other attributes (two messages of the same type are equal iff
             kind, time and pay are equal).  Attribute values are uninterpreted functions of pay.
Operations on such a message are the CONTRACTS of the real methods (proved elsewhere):
    copy(time=x)      -> same kind/type/pay, time x                       (C03 MessageCopy / C15 MetaCopy)
    is_meta           -> kind != 0                                          (class attribute)
everything else that is defined on BaseMessage (is_realtime, is_cc, ...) is executed from the real source.
"""
import z3
from .values import Sym, SInt, SBool, SReal, SStr, SSeq, Cell, Obj, ElemKind, Unsupported, PyRaise, py_raise, zi, zr

_CACHE = {}


class SMsg(Sym):
    def __init__(self, e, ek):
        self.e = e
        self.ek = ek

    def __repr__(self):
        return 'SMsg(%s)' % self.e


class MsgKind(ElemKind):
    def __init__(self, timesort):
        name = 'MsgI' if timesort == z3.IntSort() else 'MsgR'
        D = z3.Datatype(name)
        D.declare('mk', ('kind', z3.IntSort()), ('type', z3.StringSort()), ('time', timesort), ('pay', z3.IntSort()))
        self.D = D.create()
        self.timesort = timesort
        self.is_int = timesort == z3.IntSort()
        ElemKind.__init__(self, name, self.D, lambda e: SMsg(e, self), self._unwrap)
        self.attr_fns = {}

    def mk(self, kind, type_, time, pay):
        if isinstance(type_, str):
            type_ = z3.StringVal(type_)
        return self.D.mk(kind, type_, time, pay)

    def kind(self, e):
        return self.D.kind(e)

    def type(self, e):
        return self.D.type(e)

    def time(self, e):
        return self.D.time(e)

    def pay(self, e):
        return self.D.pay(e)

    def retime(self, e, t):
        return self.D.mk(self.D.kind(e), self.D.type(e), t, self.D.pay(e))

    def is_eot(self, e):
        return self.D.type(e) == z3.StringVal('end_of_track')

    def timeval(self, v):
        return zi(v) if self.is_int else zr(v)

    def wrap_time(self, t):
        return SInt(t) if self.is_int else SReal(t)

    def attr(self, name, sort=None):
        """uninterpreted attribute of a message (function of type and pay)"""
        if name not in self.attr_fns:
            self.attr_fns[name] = z3.Function('attr_' + name + ('I' if self.is_int else 'R'), z3.StringSort(), z3.IntSort(),
                                              sort if sort is not None else z3.IntSort())
        return self.attr_fns[name]

    def _unwrap(self, v):
        if isinstance(v, SMsg):
            if v.ek is not self:
                raise Unsupported('message of another time sort')
            return v.e
        if isinstance(v, Obj):
            import mido.midifiles.meta as MM
            kind = 2 if issubclass(v.cls, MM.UnknownMetaMessage) else (1 if issubclass(v.cls, MM.MetaMessage) else 0)
            t = v.attrs.get('type')
            if t == 'end_of_track' and set(v.attrs) == {'type', 'time'}:
                return self.mk(kind, t, self.timeval(v.attrs['time']), z3.IntVal(0))
            raise Unsupported('conversion of a concrete %s message into a symbolic track element' % t)
        raise Unsupported('not a message: %r' % (v,))


def MSG_I():
    if 'I' not in _CACHE:
        _CACHE['I'] = MsgKind(z3.IntSort())
    return _CACHE['I']


def MSG_R():
    if 'R' not in _CACHE:
        _CACHE['R'] = MsgKind(z3.RealSort())
    return _CACHE['R']


def msg_class(ip, m):
    import mido.messages.messages as MS
    import mido.midifiles.meta as MM
    k = m.ek.kind(m.e)
    idx = ip.ctx.choose([k == 0, k == 1, k == 2, z3.BoolVal(True)])
    if idx == 3:
        raise Unsupported('message kind outside 0..2 (missing precondition on the track elements)')
    return (MS.Message, MM.MetaMessage, MM.UnknownMetaMessage)[idx]


def msg_getattr(ip, m, name):
    from .values import Bound
    from .interp import mro_lookup
    import mido.messages.messages as MS
    ek = m.ek
    if name == 'type':
        return SStr(ek.type(m.e))
    if name == 'time':
        return ek.wrap_time(ek.time(m.e))
    if name == 'is_meta':
        return SBool(ek.kind(m.e) != 0)
    if name == 'copy':
        return Bound(m, ('model', msg_copy))
    if name == '__class__':
        return msg_class(ip, m)
    hook = getattr(ip, 'msg_attr_hook', None)
    if hook is not None:
        r = hook(ip, m, name)
        if r is not NotImplemented:
            return r
    k, v = mro_lookup(MS.BaseMessage, name)
    if isinstance(v, property):
        return ip.call(v.fget, [m], {})
    if v is not None and callable(v) and name not in ('bytes', 'bin', 'hex', 'dict', '__repr__', '__str__'):
        return Bound(m, v)
    raise Unsupported('attribute %s of a symbolic track element' % name)


def msg_copy(ip, m, skip_checks=False, **overrides):
    """contract of Message.copy / MetaMessage.copy for a VALID message and a `time` override"""
    ek = m.ek
    if not overrides:
        return SMsg(m.e, ek)
    if set(overrides) != {'time'}:
        raise Unsupported('copy of a symbolic track element with overrides %s' % sorted(overrides))
    t = overrides['time']
    from .values import is_numlike
    if not is_numlike(t):
        if ip.truth(skip_checks):
            raise Unsupported('copy(skip_checks=True, time=<non-number>)')
        py_raise(TypeError, 'time must be int or float')
    if ek.is_int and isinstance(t, (SReal, float)):
        raise Unsupported('real time in an integer-time track model')
    ip.ctx.event('msg.copy')
    return SMsg(ek.retime(m.e, ek.timeval(t)), ek)
