"""Models of builtins and of the standard-library functions that mido uses.

With all-concrete arguments the real builtin is called.  Every model that does more than forward to
CPython is listed in MODEL_NOTES (reported in the evidence as part of the trusted base).
"""
import builtins
import collections
import numbers
import struct
import types
import z3

from .values import (Sym, SInt, SBool, SReal, SStr, SSeq, Cell, Obj, ExcVal, Bound, Closure, GenObj, Opaque,
                     Unsupported, PyRaise, py_raise, is_sym, has_sym, zi, zb, zr, zs, zseq, INT_EK, REAL_EK,
                     is_intlike, is_numlike, IntSeq, seq_sum_fn)
from . import dsl

MODEL_NOTES = {
    'len/isinstance/type/vars/hasattr/getattr': 'object model of pyvc',
    'list/tuple/bytearray/bytes': 'sequence constructors over Seq Int; bytearray() checks 0..255 (ValueError) and int items (TypeError)',
    'zip/range/enumerate/sum/any/all': 'iteration protocol over concrete-length values; range(n) with symbolic n is a sequence r with r[k]==k',
    'struct.pack/unpack': "formats '>hhh', '>L', '>4sL', 'b', 'B' modelled by range checks and base-256 arithmetic",
    'str()/repr() of int': 'z3 int.to.str with explicit sign',
}


def install(interp):
    interp.models = Models()


def _is_int_seq_items(xs):
    return all(is_intlike(x) for x in xs)


class Models:
    def __init__(self):
        self.table = {
            len: self.m_len, isinstance: self.m_isinstance, tuple: self.m_tuple, list: self.m_list,
            bytearray: self.m_bytearray, bytes: self.m_bytes, zip: self.m_zip, range: self.m_range,
            enumerate: self.m_enumerate, int: self.m_int, float: self.m_float, str: self.m_str, repr: self.m_repr,
            bool: self.m_bool, abs: self.m_abs, sum: self.m_sum, vars: self.m_vars, type: self.m_type,
            hasattr: self.m_hasattr, getattr: self.m_getattr, setattr: self.m_setattr, iter: self.m_iter,
            next: self.m_next, print: self.m_print, ord: self.m_ord, any: self.m_any, all: self.m_all,
            sorted: self.m_sorted, dict: self.m_dict, set: self.m_set, hash: self.m_hash, min: self.m_min,
            max: self.m_max, reversed: self.m_reversed, callable: self.m_callable, id: self.m_id,
            struct.pack: self.m_struct_pack, struct.unpack: self.m_struct_unpack, round: self.m_round,
            issubclass: self.m_issubclass, delattr: self.m_delattr, dir: self.m_dir, chr: self.m_chr,
            frozenset: self.m_set,
        }
        self.extra = {}     # name -> model registered by contract modules (files, sockets, time, ...)

    # ------------------------------------------------------------ dispatch
    def call(self, ip, f, args, kwargs):
        try:
            m = self.table.get(f)
        except TypeError:
            m = None
        if m is not None:
            return m(ip, *args, **kwargs)
        if isinstance(f, types.BuiltinMethodType) and f.__self__ is not None and not isinstance(f.__self__, types.ModuleType):
            slf = f.__self__
            if f.__name__ in ('append', 'extend', 'insert', 'update', 'setdefault', 'add', 'pop', 'popitem', 'clear', 'remove', 'discard',
                              'appendleft', 'popleft', 'sort', 'reverse', '__setitem__', '__delitem__') and isinstance(slf, (dict, list, set, collections.deque)):
                from .interp import module_state_guard
                module_state_guard(slf, f.__name__ + '()')
            cm = self.container_method(slf, f.__name__)
            if cm is not None:
                return cm(ip, slf, *args, **kwargs)
            if isinstance(slf, type) and slf in (bytearray, bytes) and f.__name__ == 'fromhex':
                return self.m_fromhex(ip, slf, *args)
            if not has_sym(args) and not has_sym(kwargs):
                return ip.native(f, args, kwargs)
            raise Unsupported('builtin method %s.%s with symbolic arguments' % (type(slf).__name__, f.__name__))
        if isinstance(f, (types.MethodDescriptorType, types.WrapperDescriptorType, types.ClassMethodDescriptorType)):
            # unbound builtin method: str.join(' ', words), list.__getitem__(self, i), dict.get(d, k)
            if args:
                slf = args[0]
                return ip.call(ip.getattr(slf, f.__name__), list(args[1:]), kwargs)
        return NotImplemented

    # ------------------------------------------------------------ object protocol
    def object_new(self, ip, cls, *args, **kwargs):
        target = args[0] if args else cls
        return Obj(target)

    def object_init(self, ip, o, *args, **kwargs):
        return None

    def object_setattr(self, ip, o, name, v):
        ip.ctx.event('write', id(o), name)
        o.attrs[name] = v

    def object_delattr(self, ip, o, name):
        if name not in o.attrs:
            py_raise(AttributeError, name)
        del o.attrs[name]

    def object_repr(self, ip, o):
        return SStr(ip.ctx.fresh('repr', z3.StringSort()))

    object_str = object_repr

    def object_hash(self, ip, o):
        return id(o)

    def object_eq(self, ip, o, other):
        return o is other

    def object_ne(self, ip, o, other):
        return o is not other

    def object_getattribute(self, ip, o, name):
        return ip.getattr(o, name)

    # ------------------------------------------------------------ builtins
    def m_len(self, ip, x):
        if isinstance(x, Cell):
            x = x.v
        if isinstance(x, SSeq):
            return SInt(z3.simplify(dsl.smart_length(x.e)))
        if isinstance(x, SStr):
            return SInt(z3.Length(x.e))
        if hasattr(x, 'items') and x.__class__.__name__ == 'TrackList':
            return len(x.items)
        if isinstance(x, Obj):
            from .interp import mro_lookup
            k, fn = mro_lookup(x.cls, '__len__')
            if fn is None:
                py_raise(TypeError, "object of type %r has no len()" % x.cls.__name__)
            return ip.call(Bound(x, fn), [], {})
        if isinstance(x, (SInt, SBool, SReal, GenObj, Closure)) or x is None:
            py_raise(TypeError, 'object has no len()')
        return ip.native(len, [x], {})

    def proto(self, v):
        """a concrete prototype with the same Python type as v (for isinstance/type)"""
        if isinstance(v, SInt):
            return int
        if isinstance(v, SBool):
            return bool
        if isinstance(v, SReal):
            return float
        if isinstance(v, SStr):
            return str
        if isinstance(v, (SSeq, Cell)) or v.__class__.__name__ == 'TrackList':
            return v.pycls
        if isinstance(v, Obj):
            return v.cls
        if isinstance(v, ExcVal):
            return v.cls
        if isinstance(v, (Closure, Bound)):
            return types.FunctionType
        if isinstance(v, GenObj):
            return types.GeneratorType
        if isinstance(v, Opaque):
            raise Unsupported('type of opaque value')
        return type(v)

    def m_isinstance(self, ip, v, t):
        if isinstance(t, (Sym, Obj)):
            py_raise(TypeError, 'isinstance() arg 2 must be a type')
        from .msgs import SMsg, msg_class
        if isinstance(v, SMsg):
            return issubclass(msg_class(ip, v), t)
        try:
            return issubclass(self.proto(v), t)
        except TypeError as ex:
            raise PyRaise(TypeError, ex.args)

    def m_issubclass(self, ip, a, b):
        return ip.native(issubclass, [a, b], {})

    def m_type(self, ip, *args):
        if len(args) == 1:
            return self.proto(args[0])
        return ip.native(type, list(args), {})

    def m_callable(self, ip, v):
        if isinstance(v, (Closure, Bound)):
            return True
        if isinstance(v, Sym):
            return False
        if isinstance(v, Obj):
            return hasattr(v.cls, '__call__')
        return callable(v)

    def m_id(self, ip, v):
        return id(v)

    def m_vars(self, ip, o):
        if isinstance(o, Obj):
            return o.attrs
        if isinstance(o, Sym):
            py_raise(TypeError, 'vars() argument must have __dict__ attribute')
        return ip.native(vars, [o], {})

    def m_dir(self, ip, o):
        if isinstance(o, Obj):
            return sorted(set(dir(o.cls)) | set(o.attrs))
        return ip.native(dir, [o], {})

    def m_hasattr(self, ip, o, name):
        try:
            ip.getattr(o, name)
            return True
        except PyRaise as pr:
            if issubclass(pr.cls, AttributeError):
                return False
            raise

    def m_getattr(self, ip, o, name, *default):
        if is_sym(name):
            raise Unsupported('getattr with symbolic name')
        try:
            return ip.getattr(o, name)
        except PyRaise as pr:
            if default and issubclass(pr.cls, AttributeError):
                return default[0]
            raise

    def m_setattr(self, ip, o, name, v):
        return ip.setattr(o, name, v)

    def m_delattr(self, ip, o, name):
        return ip.delattr(o, name)

    def m_print(self, ip, *a, **k):
        ip.ctx.event('print')
        return None

    def _items(self, ip, x):
        """list of items of an iterable with concrete length, else None"""
        if isinstance(x, Cell):
            x = x.v
        if isinstance(x, SSeq):
            n = ip.ctx.unique_int(z3.Length(x.e))
            if n is None:
                return None
            for i in range(min(n, 16)):
                ip.ctx.add_pool(i)          # the ∀-facts about this sequence are needed at these positions
            return [x.ek.wrap(x.e[i]) for i in range(n)]
        return list(ip.iterate(x))

    def m_tuple(self, ip, *args):
        if not args:
            return ()
        (x,) = args
        if isinstance(x, Cell):
            x = x.v
        if isinstance(x, SSeq):
            return SSeq(x.e, tuple, x.ek)
        if isinstance(x, (SInt, SBool, SReal)) or x is None or isinstance(x, (int, float)):
            py_raise(TypeError, 'object is not iterable')
        if isinstance(x, SStr):
            raise Unsupported('tuple of symbolic string')
        return tuple(ip.iterate(x))

    def m_list(self, ip, *args):
        if not args:
            from .interp import PyList
            return PyList()
        (x,) = args
        if isinstance(x, Cell):
            x = x.v
        if isinstance(x, SSeq):
            return Cell(SSeq(x.e, list, x.ek), list)
        if isinstance(x, (SInt, SBool, SReal)) or x is None or isinstance(x, (int, float)):
            py_raise(TypeError, 'object is not iterable')
        if isinstance(x, SStr):
            # the list of the characters of the string: same length, k-th item is the k-th character
            from .values import STR_EK
            chars = ip.ctx.fresh('chars', STR_EK.seqsort)
            n = z3.Length(x.e)
            ip.ctx.assume([z3.Length(chars) == n, dsl.All(0, n, lambda k: chars[k] == z3.SubString(x.e, k, 1))])
            return Cell(SSeq(chars, list, STR_EK), list)
        return list(ip.iterate(x))

    def _byteseq(self, ip, x, pycls):
        ctx = ip.ctx
        if isinstance(x, Cell):
            x = x.v
        if isinstance(x, (SInt, SBool)):
            n = zi(x)
            if not ctx.branch(n >= 0):
                py_raise(ValueError, 'negative count')
            r = ctx.fresh('zeros', IntSeq)
            ctx.assume(z3.Length(r) == n)
            ctx.assume(dsl.All(0, n, lambda k: r[k] == 0))
            return SSeq(r, pycls)
        if isinstance(x, (SStr, str)):
            py_raise(TypeError, 'string argument without an encoding')
        if isinstance(x, (SReal, float)) or x is None:
            py_raise(TypeError, 'cannot convert object to %s' % pycls.__name__)
        if isinstance(x, SSeq):
            if x.ek is not INT_EK:
                py_raise(TypeError, 'an integer is required')
            if seq_is_bytes(ctx, x):
                return SSeq(x.e, pycls)
            e = x.e
            ok = dsl.All(0, z3.Length(e), lambda k: z3.And(e[k] >= 0, e[k] <= 255))
            bad = dsl.Ex(0, z3.Length(e), lambda k: z3.Not(z3.And(e[k] >= 0, e[k] <= 255)))
            if not ctx.branch_clause(ok, bad):
                py_raise(ValueError, 'byte must be in range(0, 256)')
            r = SSeq(e, pycls)
            mark_bytes(ctx, r)
            return r
        if isinstance(x, (bytes, bytearray)):
            return pycls(x)
        if isinstance(x, int):
            return ip.native(pycls, [x], {})
        items = list(ip.iterate(x))
        for it in items:
            if not is_intlike(it):
                py_raise(TypeError, "an integer is required")
        if not has_sym(items):
            return ip.native(pycls, [items], {})
        for it in items:
            if not ctx.branch(z3.And(zi(it) >= 0, zi(it) <= 255)):
                py_raise(ValueError, 'byte must be in range(0, 256)')
        r = SSeq(zseq(items), pycls)
        mark_bytes(ctx, r)
        return r

    def m_bytearray(self, ip, *args, **kwargs):
        if not args:
            return Cell(SSeq(z3.Empty(IntSeq), bytearray), bytearray)
        if len(args) > 1 or kwargs:
            if not has_sym(args):
                return ip.native(bytearray, list(args), kwargs)
            raise Unsupported('bytearray with encoding')
        r = self._byteseq(ip, args[0], bytearray)
        if isinstance(r, SSeq):
            c = Cell(r, bytearray)
            return c
        return r

    def m_bytes(self, ip, *args, **kwargs):
        if not args:
            return b''
        if len(args) > 1 or kwargs:
            if not has_sym(args):
                return ip.native(bytes, list(args), kwargs)
            raise Unsupported('bytes with encoding')
        return self._byteseq(ip, args[0], bytes)

    def m_fromhex(self, ip, cls, text):
        if not is_sym(text):
            return ip.native(cls.fromhex, [text], {})
        raise Unsupported('fromhex of symbolic text')

    def m_zip(self, ip, *its):
        cols = []
        n = None
        symcols = []
        for it in its:
            if isinstance(it, Cell):
                it = it.v
            if isinstance(it, SSeq) and ip.ctx.unique_int(z3.Length(it.e)) is None:
                cols.append(it)
                symcols.append(it)
            else:
                items = self._items(ip, it)
                cols.append(items)
                n = len(items) if n is None else min(n, len(items))
        if not symcols:
            return [tuple(c[i] for c in cols) for i in range(n or 0)] if cols else []
        if n is None:
            raise Unsupported('zip of sequences that all have unknown length')
        out = []
        for i in range(n):
            if not all(ip.ctx.branch(z3.Length(sc.e) > i) for sc in symcols):
                break
            out.append(tuple((c.ek.wrap(c.e[i]) if isinstance(c, SSeq) else c[i]) for c in cols))
        return out

    def m_range(self, ip, *args):
        if not has_sym(args):
            return ip.native(range, list(args), {})
        ctx = ip.ctx
        for a in args:
            if not is_intlike(a):
                py_raise(TypeError, 'range() integer argument expected')
        if len(args) == 1:
            lo, hi = z3.IntVal(0), zi(args[0])
        elif len(args) == 2:
            lo, hi = zi(args[0]), zi(args[1])
        else:
            raise Unsupported('range with symbolic step')
        n = ctx.unique_int(hi - lo)
        if n is not None:
            lo_c = ctx.unique_int(lo)
            if lo_c is not None:
                return range(lo_c, lo_c + max(n, 0))
        r = ctx.fresh('range', IntSeq)
        ln = z3.If(hi > lo, hi - lo, z3.IntVal(0))
        ctx.assume(z3.Length(r) == ln)
        ctx.assume(dsl.All(0, ln, lambda k: r[k] == lo + k))
        return SSeq(r, tuple)

    def m_enumerate(self, ip, it, start=0):
        items = self._items(ip, it)
        if items is None:
            raise Unsupported('enumerate over a sequence of unknown length')
        return [(start + i, v) for i, v in enumerate(items)]

    def m_reversed(self, ip, it):
        items = self._items(ip, it)
        if items is None:
            raise Unsupported('reversed over a sequence of unknown length')
        return list(reversed(items))

    def m_int(self, ip, *args, **kwargs):
        if not has_sym(args):
            return ip.native(int, list(args), kwargs)
        (x,) = args[:1]
        if len(args) > 1:
            raise Unsupported('int with base')
        if isinstance(x, (SInt, SBool)):
            return SInt(zi(x))
        if isinstance(x, SReal):
            return SInt(z3.If(x.e >= 0, z3.ToInt(x.e), -z3.ToInt(-x.e)))
        if isinstance(x, SStr):
            return self.str_to_int(ip, x)
        py_raise(TypeError, "int() argument must be a string, a bytes-like object or a real number")

    def m_float(self, ip, *args):
        if not has_sym(args):
            return ip.native(float, list(args), {})
        (x,) = args
        if isinstance(x, (SInt, SBool, SReal)):
            return SReal(zr(x))
        if isinstance(x, SStr):
            return self.str_to_float(ip, x)
        py_raise(TypeError, 'float() argument must be a string or a real number')

    def m_round(self, ip, x, *nd):
        if not has_sym([x]):
            return ip.native(round, [x] + list(nd), {})
        raise Unsupported('round of a symbolic float (IEEE rounding is not modelled)')

    def m_bool(self, ip, *args):
        if not args:
            return False
        return ip.to_bool_value(args[0])

    def m_abs(self, ip, x):
        if isinstance(x, (SInt, SBool)):
            return SInt(z3.If(zi(x) >= 0, zi(x), -zi(x)))
        if isinstance(x, SReal):
            return SReal(z3.If(x.e >= 0, x.e, -x.e))
        return ip.native(abs, [x], {})

    def m_min(self, ip, *args, **kw):
        if not has_sym(args) and not has_sym(kw):
            return ip.native(min, list(args), kw)
        raise Unsupported('min with symbolic arguments')

    def m_max(self, ip, *args, **kw):
        if not has_sym(args) and not has_sym(kw):
            return ip.native(max, list(args), kw)
        raise Unsupported('max with symbolic arguments')

    def m_sum(self, ip, it, start=0):
        import ast
        items = self._items(ip, it)
        if items is None:
            sv = it.v if isinstance(it, Cell) else it
            if isinstance(sv, SSeq) and sv.ek in (INT_EK, REAL_EK) and not is_sym(start) and start == 0:
                f = seq_sum_fn(sv.ek)
                r = f(sv.e, z3.Length(sv.e))
                return SInt(r) if sv.ek is INT_EK else SReal(r)
            raise Unsupported('sum over a sequence of unknown length')
        acc = start
        for v in items:
            acc = ip.binop(ast.Add(), acc, v)
        return acc

    def m_any(self, ip, it):
        for v in ip.iterate(it):
            if ip.truth(v):
                return True
        return False

    def m_all(self, ip, it):
        for v in ip.iterate(it):
            if not ip.truth(v):
                return False
        return True

    def m_sorted(self, ip, it, key=None, reverse=False):
        items = self._items(ip, it)
        if items is None:
            raise Unsupported('sorted over a sequence of unknown length')
        if key is None and not has_sym(items):
            return ip.native(sorted, [items], {'reverse': reverse})
        if key is None and all(isinstance(x, tuple) and x and not has_sym(x[0]) for x in items) and \
                len({x[0] for x in items}) == len(items):
            # tuples with pairwise distinct concrete first components: later components are never compared
            return sorted(items, key=lambda x: x[0], reverse=reverse)
        if key is not None:
            keys = [ip.call(key, [x], {}) for x in items]
            if not has_sym(keys):
                order = sorted(range(len(items)), key=lambda i: keys[i], reverse=bool(reverse))
                return [items[i] for i in order]
        raise Unsupported('sorted with symbolic keys')

    def m_dict(self, ip, *args, **kwargs):
        out = {}
        if args:
            (x,) = args
            if isinstance(x, dict):
                out.update(x)
            else:
                for pair in ip.iterate(x):
                    k, v = list(ip.iterate(pair))
                    if is_sym(k):
                        raise Unsupported('dict() with symbolic key')
                    out[k] = v
        out.update(kwargs)
        return out

    def m_set(self, ip, *args):
        if not args:
            return set()
        items = self._items(ip, args[0])
        if items is None or has_sym(items):
            raise Unsupported('set() of symbolic members')
        try:
            return set(items)
        except TypeError as ex:
            raise PyRaise(TypeError, ex.args)

    def m_hash(self, ip, v):
        if isinstance(v, Obj):
            from .interp import mro_lookup
            k, fn = mro_lookup(v.cls, '__hash__')
            if fn is None:
                py_raise(TypeError, 'unhashable type')
            if k is object:
                return id(v)
            return ip.call(Bound(v, fn), [], {})
        return HashVal(self._hash_struct(ip, v))

    def _hash_struct(self, ip, v):
        """structure over which hash() is assumed to be a function (equal values -> equal hashes)"""
        if isinstance(v, (list, dict, set, bytearray, collections.deque)) or (isinstance(v, Cell)) or \
                (isinstance(v, SSeq) and v.pycls in (list, bytearray)) or v.__class__.__name__ == 'TrackList':
            py_raise(TypeError, "unhashable type: %r" % (v.pycls.__name__ if hasattr(v, 'pycls') else type(v).__name__))
        if isinstance(v, tuple):
            return tuple(self._hash_struct(ip, x) for x in v)
        if isinstance(v, Obj):
            h = self.m_hash(ip, v)
            return h.struct if isinstance(h, HashVal) else h
        return v

    def m_iter(self, ip, x, *sentinel):
        if sentinel:
            raise Unsupported('iter(callable, sentinel)')
        if isinstance(x, GenObj):
            return x

        def gen():
            yield from ip.iterate(x)
        return GenObj(gen(), 'iter')

    def m_next(self, ip, g, *default):
        if not isinstance(g, GenObj):
            py_raise(TypeError, 'object is not an iterator')
        try:
            return ip.gen_next(g)
        except PyRaise as pr:
            if default and pr.cls is StopIteration:
                return default[0]
            raise

    def m_ord(self, ip, x):
        if isinstance(x, Cell):
            x = x.v
        if isinstance(x, SSeq):
            if not ip.ctx.branch(z3.Length(x.e) == 1):
                py_raise(TypeError, 'ord() expected a character')
            return SInt(x.e[0])
        if isinstance(x, SStr):
            raise Unsupported('ord of symbolic string')
        return ip.native(ord, [x], {})

    def m_chr(self, ip, x):
        if is_sym(x):
            raise Unsupported('chr of symbolic int')
        return ip.native(chr, [x], {})

    # ------------------------------------------------------------ strings
    def int_to_str(self, e):
        return z3.If(e >= 0, z3.IntToStr(e), z3.Concat(z3.StringVal('-'), z3.IntToStr(-e)))

    def m_str(self, ip, *args, **kw):
        if not args:
            return ''
        x = args[0]
        if not has_sym(x):
            return ip.native(str, list(args), kw)
        return self.format_value(ip, x, 's', '')

    def m_repr(self, ip, x):
        if not has_sym(x):
            return ip.native(repr, [x], {})
        return self.format_value(ip, x, 'r', '')

    def format_value(self, ip, v, conv, spec):
        """str of a value as used by f-strings / format / str() / repr()"""
        if not has_sym(v) and not is_sym(spec):
            try:
                if conv == 'r':
                    v = repr(v)
                elif conv == 's':
                    v = str(v)
                elif conv == 'a':
                    v = ascii(v)
                return format(v, spec)
            except NATIVE_EXC as ex:
                raise PyRaise(type(ex), ex.args)
        if isinstance(v, (SInt,)) and spec in ('', 'd'):
            t = z3.IntToStr(v.e)
            # theory lemmas (valid in SMT-LIB strings: str.from_int of a non-negative int is its decimal text), stated
            # because neither solver derives them unprompted
            ip.ctx.assume(z3.Implies(v.e >= 0, z3.And(z3.InRe(t, z3.Plus(z3.Range('0', '9'))), z3.StrToInt(t) == v.e)))
            return SStr(self.int_to_str(v.e))
        if isinstance(v, SBool) and spec == '':
            return SStr(z3.If(v.e, z3.StringVal('True'), z3.StringVal('False')))
        if isinstance(v, SStr) and spec == '' and conv in (None, 's'):
            return v
        if isinstance(v, Obj) and spec == '':
            from .interp import mro_lookup
            names = ('__repr__',) if conv == 'r' else ('__str__', '__repr__')
            for nm in names:
                k, fn = mro_lookup(v.cls, nm)
                if fn is not None and k is not object:
                    return ip.call(Bound(v, fn), [], {})
        # anything else: an opaque string (the text of error messages is not modelled)
        return SStr(ip.ctx.fresh('fmt', z3.StringSort()))

    def str_concat(self, ip, parts):
        if all(isinstance(p, str) for p in parts):
            return ''.join(parts)
        zsx = [zs(p) for p in parts if not (isinstance(p, str) and p == '')]
        if not zsx:
            return ''
        return SStr(zsx[0] if len(zsx) == 1 else z3.Concat(*zsx))

    def percent_format(self, ip, l, r):
        if not has_sym(l) and not has_sym(r):
            return ip.native(lambda a, b: a % b, [l, r], {})
        return SStr(ip.ctx.fresh('fmt', z3.StringSort()))

    def str_to_int(self, ip, s):
        """int(s) for a symbolic string.  Decided only for canonical decimal text [0-9]+ (value = str.to_int); text with no
        digit at all raises ValueError; every other spelling CPython accepts or rejects (sign, blanks, underscores,
        non-ASCII digits) is outside the model -> Unsupported (the obligation stays undecided)"""
        digit = z3.Range('0', '9')
        if ip.ctx.branch(z3.InRe(s.e, z3.Plus(digit))):
            v = ip.ctx.fresh('int_of_str')
            ip.ctx.assume([v == z3.StrToInt(s.e), v >= 0])
            return SInt(v)
        if ip.ctx.branch(z3.InRe(s.e, z3.Star(z3.Union(z3.Range('\x00', '/'), z3.Range(':', '\x7f'))))):
            py_raise(ValueError, 'invalid literal for int() with base 10')
        raise Unsupported('int() of a symbolic string that is not plain ASCII decimal digits')

    def str_split(self, ip, s, sep=None, maxsplit=-1):
        """s.split(sep): decided exactly for zero or one occurrence of a concrete one-character separator; with two or more
        occurrences the result is a list of unknown strings of unknown length >= 3 (sound over-approximation of the rest)"""
        from .values import STR_EK
        if not (isinstance(sep, str) and len(sep) == 1 and maxsplit == -1):
            raise Unsupported('str.split on a symbolic string with sep=%r maxsplit=%r' % (sep, maxsplit))
        zsep = z3.StringVal(sep)
        if not ip.ctx.branch(z3.Contains(s.e, zsep)):
            return [s]
        a = ip.ctx.fresh('word', z3.StringSort())
        rest = ip.ctx.fresh('word', z3.StringSort())
        ip.ctx.assume([s.e == z3.Concat(a, zsep, rest), z3.Not(z3.Contains(a, zsep))])
        if not ip.ctx.branch(z3.Contains(rest, zsep)):
            return [SStr(a), SStr(rest)]
        words = ip.ctx.fresh('words', STR_EK.seqsort)
        ip.ctx.assume([z3.Length(words) >= 3, words[0] == a])
        return SSeq(words, list, STR_EK)

    def str_to_float(self, ip, s):
        raise Unsupported('float() of a symbolic string (enable contracts.lib_str)')

    def str_slice(self, ip, s, k):
        n = z3.Length(s.e)

        def norm(i, dflt):
            if i is None:
                return dflt
            i = zi(i)
            i = z3.If(i < 0, i + n, i)
            return z3.If(i < 0, z3.IntVal(0), z3.If(i > n, n, i))
        a = z3.simplify(norm(k.lo, z3.IntVal(0)))
        b = z3.simplify(norm(k.hi, n))
        return SStr(z3.SubString(s.e, a, z3.If(b > a, b - a, z3.IntVal(0))))

    def str_index(self, ip, s, k):
        n = z3.Length(s.e)
        i = zi(k)
        if not ip.ctx.branch(z3.And(-n <= i, i < n)):
            py_raise(IndexError, 'string index out of range')
        i = z3.If(i < 0, i + n, i)
        return SStr(z3.SubString(s.e, i, 1))

    def pow2(self, ip, r):
        raise Unsupported('2 ** symbolic')

    # ------------------------------------------------------------ methods of symbolic scalars
    def scalar_method(self, o, name):
        if isinstance(o, SStr):
            return getattr(self, 'str_' + name, None)
        if isinstance(o, (SInt, SBool)):
            return getattr(self, 'int_' + name, None)
        return None

    def int_bit_length(self, ip, o):
        raise Unsupported('bit_length of symbolic int')

    _WS = ' \t\n\r\x0b\x0c'

    def _strip(self, ip, s, chars, left, right):
        """s == l ++ r ++ t with l, t made of `chars` only and r not starting / ending with one of them"""
        if chars is None:
            chars = self._WS
        if not isinstance(chars, str) or not chars:
            raise Unsupported('strip with a symbolic or empty character set')
        cls = z3.Star(z3.Union(*[z3.Re(z3.StringVal(c)) for c in chars])) if len(chars) > 1 else z3.Star(z3.Re(z3.StringVal(chars)))
        ctx = ip.ctx
        r = ctx.fresh('stripped', z3.StringSort())
        l = ctx.fresh('lead', z3.StringSort()) if left else z3.StringVal('')
        t = ctx.fresh('trail', z3.StringSort()) if right else z3.StringVal('')
        ctx.assume(s.e == z3.Concat(l, r, t))
        for c in chars:
            if left:
                ctx.assume(z3.Not(z3.PrefixOf(z3.StringVal(c), r)))
            if right:
                ctx.assume(z3.Not(z3.SuffixOf(z3.StringVal(c), r)))
        if left:
            ctx.assume(z3.InRe(l, cls))
        if right:
            ctx.assume(z3.InRe(t, cls))
        return SStr(r)

    def str_strip(self, ip, s, chars=None):
        return self._strip(ip, s, chars, True, True)

    def str_rstrip(self, ip, s, chars=None):
        return self._strip(ip, s, chars, False, True)

    def str_lstrip(self, ip, s, chars=None):
        return self._strip(ip, s, chars, True, False)

    def str_startswith(self, ip, s, p):
        return SBool(z3.PrefixOf(zs(p), zs(s)))

    def str_endswith(self, ip, s, p):
        return SBool(z3.SuffixOf(zs(p), zs(s)))

    def str_format(self, ip, s, *a, **k):
        return SStr(ip.ctx.fresh('fmt', z3.StringSort()))

    # ---- text codecs: ASSUMED contract (see codec_functions): Enc(cs, s) is a byte string, Dec(cs, Enc(cs, s)) == s
    def str_encode(self, ip, s, *args):
        cs = args[0] if args else 'utf-8'
        Enc, Dec, Encodable = codec_functions()[:3]
        e = Enc(zs(cs), zs(s))
        if not ip.ctx.branch(Encodable(zs(cs), zs(s))):
            raise PyRaise(UnicodeEncodeError, ('codec', '', 0, 1, 'not encodable'))
        ip.ctx.assume(dsl.All(0, z3.Length(e), lambda k: z3.And(e[k] >= 0, e[k] <= 255)))
        ip.ctx.assume(Dec(zs(cs), e) == zs(s))
        ip.ctx.assume(Decodable(zs(cs), e))
        r = SSeq(e, bytes)
        mark_bytes(ip.ctx, r)
        return r

    def sq_isascii(self, ip, c):
        """bytes/bytearray.isascii(): every item below 128 (two-way branch on the quantified condition)"""
        v = c.v if isinstance(c, Cell) else c
        if v.pycls not in (bytes, bytearray):
            py_raise(AttributeError, "'%s' object has no attribute 'isascii'" % v.pycls.__name__)
        e = v.e
        n = z3.Length(e)
        pos = dsl.All(0, n, lambda k: e[k] < 128)
        neg = dsl.Ex(0, n, lambda k: e[k] >= 128)
        return ip.ctx.branch_clause(pos, neg)

    def sq_decode(self, ip, c, *args):
        cs = args[0] if args else 'utf-8'
        v = c.v if isinstance(c, Cell) else c
        Enc, Dec, Encodable = codec_functions()[:3]
        if not ip.ctx.branch(Decodable(zs(cs), v.e)):
            raise PyRaise(UnicodeDecodeError, ('codec', b'', 0, 1, 'not decodable'))
        t = Dec(zs(cs), v.e)
        ip.ctx.assume(Encodable(zs(cs), t))
        ip.ctx.assume(Enc(zs(cs), t) == v.e)
        return SStr(t)

    def gen_method(self, o, name):
        if name == '__next__':
            return lambda ip, g: ip.gen_next(g)
        if name == 'close':
            def close(ip, g):
                g.done = True
            return close
        return None

    # ------------------------------------------------------------ methods of native containers
    def container_method(self, o, name):
        if isinstance(o, list):
            return getattr(self, 'list_' + name, None)
        if isinstance(o, dict):
            return getattr(self, 'dict_' + name, None)
        if isinstance(o, collections.deque):
            return getattr(self, 'deque_' + name, None)
        if isinstance(o, str):
            return getattr(self, 'cstr_' + name, None)
        if isinstance(o, tuple):
            return getattr(self, 'tuple_' + name, None)
        return None

    # list
    def list_append(self, ip, l, x):
        l.append(x)

    def list_extend(self, ip, l, it):
        items = self._items(ip, it)
        if items is None:
            from .interp import PyList
            if type(l) is PyList:
                src = it.v if isinstance(it, Cell) else it
                ek = src.ek
                if l and ek is not INT_EK:
                    base = zseq([ek.unwrap(x) for x in l], ek) if False else z3.Concat(*[z3.Unit(ek.unwrap(x)) for x in l]) if len(l) > 1 else z3.Unit(ek.unwrap(l[0]))
                elif l:
                    base = zseq(list(l))
                else:
                    base = z3.Empty(ek.seqsort)
                l.sym = Cell(SSeq(z3.Concat(base, src.e), list, ek), list)
                del l[:]
                return
            raise Unsupported('extend of a concrete list by a sequence of unknown length')
        l.extend(items)

    def list_insert(self, ip, l, i, x):
        if is_sym(i):
            raise Unsupported('insert at symbolic index')
        l.insert(i, x)

    def list_pop(self, ip, l, *i):
        if i and is_sym(i[0]):
            raise Unsupported('pop at symbolic index')
        try:
            return l.pop(*i)
        except IndexError as ex:
            raise PyRaise(IndexError, ex.args)

    def list_reverse(self, ip, l):
        l.reverse()

    def list_copy(self, ip, l):
        return list(l)

    def list_clear(self, ip, l):
        l.clear()

    def list_sort(self, ip, l, key=None, reverse=False):
        l[:] = self.m_sorted(ip, l, key=key, reverse=reverse)

    def list_index(self, ip, l, x):
        for i, it in enumerate(l):
            if ip.truth(ip.equal(it, x)):
                return i
        py_raise(ValueError, 'x not in list')

    def list___getitem__(self, ip, l, k):
        return ip.subscript(l, k)

    def list___add__(self, ip, l, other):
        return ip.seq_add(l, other)

    def list___mul__(self, ip, l, n):
        if is_sym(n):
            raise Unsupported('list repetition')
        return l * n

    def tuple___add__(self, ip, l, other):
        return ip.seq_add(l, other)

    def tuple___getitem__(self, ip, l, k):
        return ip.subscript(l, k)

    # dict
    def dict_update(self, ip, d, *args, **kwargs):
        for a in args:
            if isinstance(a, dict):
                d.update(a)
            elif isinstance(a, Obj):
                raise Unsupported('dict.update(object)')
            else:
                for pair in ip.iterate(a):
                    k, v = list(ip.iterate(pair))
                    if is_sym(k):
                        raise Unsupported('dict.update with symbolic key')
                    d[k] = v
        d.update(kwargs)

    def dict_get(self, ip, d, k, default=None):
        try:
            return ip.subscript(d, k)
        except PyRaise as pr:
            if pr.cls is KeyError:
                return default
            raise

    def dict_copy(self, ip, d):
        return dict(d)

    def dict_items(self, ip, d):
        return list(d.items())

    def dict_keys(self, ip, d):
        return list(d.keys())

    def dict_values(self, ip, d):
        return list(d.values())

    def dict_pop(self, ip, d, k, *default):
        if is_sym(k):
            raise Unsupported('dict.pop with symbolic key')
        if k in d:
            return d.pop(k)
        if default:
            return default[0]
        py_raise(KeyError, k)

    def dict_setdefault(self, ip, d, k, default=None):
        if is_sym(k):
            raise Unsupported('dict.setdefault with symbolic key')
        return d.setdefault(k, default)

    # deque of concrete length
    def deque_append(self, ip, q, x):
        ip.ctx.event('deque.append', id(q), tuple(id(l) for l in ip.ctx.held))
        q.append(x)

    def deque_appendleft(self, ip, q, x):
        q.appendleft(x)

    def deque_popleft(self, ip, q):
        ip.ctx.event('deque.popleft', id(q), tuple(id(l) for l in ip.ctx.held))
        try:
            return q.popleft()
        except IndexError as ex:
            raise PyRaise(IndexError, ex.args)

    def deque_pop(self, ip, q):
        try:
            return q.pop()
        except IndexError as ex:
            raise PyRaise(IndexError, ex.args)

    def deque_extend(self, ip, q, it):
        for v in ip.iterate(it):
            q.append(v)

    def deque_clear(self, ip, q):
        q.clear()

    # concrete str with symbolic arguments
    def cstr_join(self, ip, sep, it):
        items = self._items(ip, it)
        if items is None:
            raise Unsupported('join over a sequence of unknown length')
        for x in items:
            if not isinstance(x, (str, SStr)):
                py_raise(TypeError, 'sequence item: expected str instance')
        if not has_sym(items):
            return sep.join(items)
        parts = []
        for i, x in enumerate(items):
            if i:
                parts.append(sep)
            parts.append(x)
        return self.str_concat(ip, parts)

    def cstr_format(self, ip, s, *a, **k):
        if not has_sym(a) and not has_sym(k):
            return ip.native(s.format, list(a), k)
        return SStr(ip.ctx.fresh('fmt', z3.StringSort()))

    # ------------------------------------------------------------ methods of symbolic sequences
    def seq_method(self, o, name):
        if o.__class__.__name__ == 'TrackList':
            return getattr(self, 'tl_' + name, None)
        return getattr(self, 'sq_' + name, None)

    def sq_append(self, ip, c, x):
        if not isinstance(c, Cell):
            py_raise(AttributeError, 'append')
        if c.pycls is bytearray:
            if not is_intlike(x):
                py_raise(TypeError, 'an integer is required')
            if not ip.ctx.branch(z3.And(zi(x) >= 0, zi(x) <= 255)):
                py_raise(ValueError, 'byte must be in range(0, 256)')
        ip.ctx.event('seq.append', id(c))
        c.v = SSeq(z3.Concat(c.v.e, z3.Unit(c.v.ek.unwrap(x))), c.pycls, c.v.ek)

    def sq_extend(self, ip, c, it):
        if not isinstance(c, Cell):
            py_raise(AttributeError, 'extend')
        if isinstance(it, Cell):
            it = it.v
        if c.pycls is bytearray:
            it = self._byteseq(ip, it, bytes)
        ek = c.v.ek
        if isinstance(it, SSeq):
            add = it.e
        else:
            items = self._items(ip, it)
            if items is None:
                raise Unsupported('extend by unknown-length iterable')
            add = zseq(items, ek)
        c.v = SSeq(z3.Concat(c.v.e, add), c.pycls, ek)

    def sq_popleft(self, ip, c):
        if not isinstance(c, Cell):
            py_raise(AttributeError, 'popleft')
        e = c.v.e
        if not ip.ctx.branch(z3.Length(e) > 0):
            py_raise(IndexError, 'pop from an empty deque')
        ip.ctx.event('seq.popleft', id(c))
        head = c.v.ek.wrap(e[0])
        c.v = SSeq(z3.Extract(e, z3.IntVal(1), z3.Length(e) - 1), c.pycls, c.v.ek)
        return head

    def sq_pop(self, ip, c, *idx):
        if not isinstance(c, Cell):
            py_raise(AttributeError, 'pop')
        if idx:
            raise Unsupported('pop(index) on symbolic list')
        e = c.v.e
        if not ip.ctx.branch(z3.Length(e) > 0):
            py_raise(IndexError, 'pop from empty list')
        last = c.v.ek.wrap(e[z3.Length(e) - 1])
        c.v = SSeq(z3.Extract(e, z3.IntVal(0), z3.Length(e) - 1), c.pycls, c.v.ek)
        return last

    def sq_sort(self, ip, c, key=None, reverse=False):
        """list.sort(key=f) on a list of unknown length: ASSUMED contract of the builtin (stable sort):
        the result B is a permutation of the old content A (bijection PI with inverse), sorted by key.
        Stability (equal keys keep their order) is part of the assumption but is not needed by any obligation."""
        if not isinstance(c, Cell):
            py_raise(AttributeError, 'sort')
        if ip.truth(reverse):
            raise Unsupported('sort(reverse=True) on a list of unknown length')
        ctx = ip.ctx
        A = c.v.e
        ek = c.v.ek
        n = z3.Length(A)
        B = ctx.fresh('sorted', ek.seqsort)
        ctx.nfresh += 1
        PI = z3.Function('PI!%d' % ctx.nfresh, z3.IntSort(), z3.IntSort())
        PIinv = z3.Function('PIinv!%d' % ctx.nfresh, z3.IntSort(), z3.IntSort())

        def keyof(e):
            if key is None:
                return ek.unwrap(ek.wrap(e)) if ek is INT_EK else e
            v = ip.call(key, [ek.wrap(e)], {})
            if isinstance(v, (tuple, list)):
                return [zr(x) if isinstance(x, (SReal, float)) else zi(x) for x in v]      # compared lexicographically
            return zr(v) if isinstance(v, (SReal, float)) else zi(v)

        def le(a, b):
            if not isinstance(a, list):
                return a <= b
            if len(a) != len(b):
                raise Unsupported('sort keys of different tuple lengths')
            out = z3.BoolVal(True)
            for x, y in reversed(list(zip(a, b))):
                out = z3.Or(x < y, z3.And(x == y, out))
            return out
        ctx.assume(z3.Length(B) == n)
        ctx.assume(dsl.All(0, n, lambda i: z3.And(0 <= PI(i), PI(i) < n, PIinv(PI(i)) == i, B[PI(i)] == A[i])))
        ctx.assume(dsl.All(0, n, lambda j: z3.And(0 <= PIinv(j), PIinv(j) < n, PI(PIinv(j)) == j)))
        ctx.assume(dsl.All(0, n - 1, lambda j: le(keyof(B[j]), keyof(B[j + 1]))))
        ctx.__dict__.setdefault('trace', []).append(('sort', A, B, key))
        c.v = SSeq(B, c.pycls, ek)

    def sq_clear(self, ip, c):
        c.v = SSeq(z3.Empty(c.v.ek.seqsort), c.pycls, c.v.ek)

    def sq_copy(self, ip, c):
        v = c.v if isinstance(c, Cell) else c
        return Cell(SSeq(v.e, v.pycls, v.ek), v.pycls)

    def sq_reverse(self, ip, c):
        """list.reverse() on a list of unknown length: ASSUMED contract of the builtin:
        same length, new[k] == old[len-1-k]"""
        if not isinstance(c, Cell):
            py_raise(AttributeError, 'reverse')
        old = c.v.e
        n = z3.Length(old)
        r = ip.ctx.fresh('reversed', c.v.ek.seqsort)
        ip.ctx.assume(z3.Length(r) == n)
        ip.ctx.assume(dsl.All(0, n, lambda k: r[k] == old[n - 1 - k]))
        c.v = SSeq(r, c.pycls, c.v.ek)
        ip.ctx.add_pool(n - 1)

    def sq___getitem__(self, ip, c, k):
        return ip.subscript(c, k)

    def sq___add__(self, ip, c, other):
        return ip.seq_add(c, other)

    # TrackList (concrete-length list of objects)
    def tl_append(self, ip, t, x):
        t.items.append(x)

    def tl_extend(self, ip, t, it):
        t.items.extend(list(ip.iterate(it)))

    def tl_insert(self, ip, t, i, x):
        if is_sym(i):
            raise Unsupported('insert at symbolic index')
        t.items.insert(i, x)

    def tl_copy(self, ip, t):
        from .interp import TrackList, mro_lookup
        k, fn = mro_lookup(t.pycls, 'copy')
        return TrackList(t.items, t.pycls)

    def tl_pop(self, ip, t, *i):
        try:
            return t.items.pop(*i)
        except IndexError as ex:
            raise PyRaise(IndexError, ex.args)

    def tl_sort(self, ip, t, key=None, reverse=False):
        t.items[:] = self.m_sorted(ip, t.items, key=key, reverse=reverse)

    def tl___getitem__(self, ip, t, k):
        return self.tracklist_getitem(ip, t, k)

    def tl___add__(self, ip, t, other):
        from .interp import TrackList
        o = other.items if isinstance(other, TrackList) else list(ip.iterate(other))
        return t.items + o

    def tl___mul__(self, ip, t, n):
        if is_sym(n):
            raise Unsupported('track repetition')
        return t.items * n

    def tracklist_getitem(self, ip, t, k):
        from .interp import SliceVal
        if isinstance(k, SliceVal):
            if is_sym(k.lo) or is_sym(k.hi):
                raise Unsupported('symbolic slice of a track')
            return t.items[k.lo:k.hi]
        if is_sym(k):
            raise Unsupported('symbolic index into a track')
        try:
            return t.items[k]
        except (IndexError, TypeError) as ex:
            raise PyRaise(type(ex), ex.args)

    def map_comprehension(self, ip, e, fr, it):
        """[f(x) for x in s] / (f(x) for x in s) over a sequence of unknown length, f branch-free:
        a fresh sequence r with len r == len s and r[k] == f(s[k]) for all k"""
        import ast as _ast
        from .interp import Frame
        from .msgs import SMsg
        gens = e.generators
        if len(gens) != 1 or gens[0].ifs:
            raise Unsupported('filtering / nested comprehension over a sequence of unknown length')
        sv = it.v if isinstance(it, Cell) else it
        ctx = ip.ctx
        k = ctx.fresh('mapidx')
        env = dict(fr.env)
        cfr = Frame(fr.name, env, fr.g, fr.fi)
        ip.assign(gens[0].target, sv.ek.wrap(sv.e[k]), cfr)
        pos0 = len(ctx.decisions), ctx.pos
        ctx.merge_ifexp = True
        try:
            val = ip.eval(e.elt, cfr)
        finally:
            ctx.merge_ifexp = False
        if (len(ctx.decisions), ctx.pos) != pos0:
            raise Unsupported('comprehension element expression branches on the element')
        if isinstance(val, (SInt, SBool)) or (isinstance(val, int) and not isinstance(val, bool)):
            ek, term = INT_EK, zi(val)
        elif isinstance(val, (SReal, float)):
            ek, term = REAL_EK, zr(val)
        elif isinstance(val, SMsg):
            ek, term = val.ek, val.e
        else:
            raise Unsupported('comprehension element of unsupported kind over a sequence of unknown length')
        r = ctx.fresh('mapped', ek.seqsort)
        n = z3.Length(sv.e)
        ctx.assume(z3.Length(r) == n)
        ctx.assume(dsl.All(0, n, lambda j: r[j] == z3.substitute(term, (k, j if z3.is_expr(j) else z3.IntVal(j)))))
        ctx.__dict__.setdefault('trace', []).append(('map', sv.e, r, _ast.unparse(e.elt)))
        return SSeq(r, list, ek)

    # ------------------------------------------------------------ struct
    def m_struct_pack(self, ip, fmt, *vals):
        if not has_sym(vals):
            return ip.native(struct.pack, [fmt] + list(vals), {})
        if is_sym(fmt):
            raise Unsupported('symbolic struct format')
        layout = _struct_layout(fmt)
        if layout is None or len(layout) != len(vals):
            raise Unsupported('struct format %r' % fmt)
        out = []
        for (signed, size), v in zip(layout, vals):
            if not is_intlike(v):
                raise PyRaise(struct.error, ('required argument is not an integer',))
            e = zi(v)
            lo, hi = (-(1 << (8 * size - 1)), (1 << (8 * size - 1)) - 1) if signed else (0, (1 << (8 * size)) - 1)
            if not ip.ctx.branch(z3.And(e >= lo, e <= hi)):
                raise PyRaise(struct.error, ('argument out of range',))
            u = z3.If(e < 0, e + (1 << (8 * size)), e) if signed else e
            for b in range(size - 1, -1, -1):
                out.append(SInt((u / (1 << (8 * b))) % 256))
        r = SSeq(zseq(out), bytes)
        mark_bytes(ip.ctx, r)
        return r

    def m_struct_unpack(self, ip, fmt, data):
        if not has_sym(data):
            return ip.native(struct.unpack, [fmt, data], {})
        if is_sym(fmt):
            raise Unsupported('symbolic struct format')
        layout = _struct_layout(fmt)
        if layout is None:
            raise Unsupported('struct format %r' % fmt)
        total = sum(sz for _, sz in layout)
        e = zseq(data)
        if not ip.ctx.branch(z3.Length(e) == total):
            raise PyRaise(struct.error, ('unpack requires a buffer of %d bytes' % total,))
        out = []
        pos = 0
        for signed, size in layout:
            if signed == 's':
                out.append(SSeq(z3.Extract(e, z3.IntVal(pos), z3.IntVal(size)), bytes))
            else:
                u = z3.IntVal(0)
                for b in range(size):
                    u = u * 256 + e[pos + b]
                if signed:
                    u = z3.If(u >= (1 << (8 * size - 1)), u - (1 << (8 * size)), u)
                # name the value (keeps later terms small; seq.nth is left as it is for the sequence axioms)
                c = ip.ctx.fresh('unpacked')
                ip.ctx.assume(c == u)
                out.append(SInt(c))
            pos += size
        return tuple(out)


NATIVE_EXC = (TypeError, ValueError, IndexError, KeyError, AttributeError, ZeroDivisionError, LookupError,
              OverflowError, StopIteration, UnicodeError, OSError, ArithmeticError)


def _struct_layout(fmt):
    """[(signed, size)] for the big-endian / single-byte formats used by mido"""
    order = ''
    if fmt and fmt[0] in '<>=!@':
        order, fmt = fmt[0], fmt[1:]
    if order not in ('>', '!', '') and any(c not in 'bB' for c in fmt):
        return None
    sizes = {'b': (True, 1), 'B': (False, 1), 'h': (True, 2), 'H': (False, 2), 'l': (True, 4), 'L': (False, 4),
             'i': (True, 4), 'I': (False, 4)}
    out = []
    i = 0
    while i < len(fmt):
        j = i
        while j < len(fmt) and fmt[j].isdigit():
            j += 1
        cnt = int(fmt[i:j]) if j > i else 1
        c = fmt[j]
        if c == 's':
            out.append(('s', cnt))
        elif c in sizes:
            if order == '' and c not in 'bB':
                return None          # native alignment / size: not modelled
            out.extend([sizes[c]] * cnt)
        else:
            return None
        i = j + 1
    return out


def mark_bytes(ctx, s):
    """remember (per path) that all items of this sequence term were checked / assumed to be in 0..255"""
    ctx.__dict__.setdefault('bytes_marks', {})[s.e.get_id()] = s.e      # keeps the term alive: ids are not reused


def seq_is_bytes(ctx, s):
    return s.e.get_id() in ctx.__dict__.get('bytes_marks', {})


_CODEC = []


def codec_functions():
    """uninterpreted model of the text codecs.  ASSUMPTIONS (listed in the evidence):
       Encodable(cs, s) => Enc(cs, s) consists of bytes and Dec(cs, Enc(cs, s)) == s
       Decodable(cs, b) => Enc(cs, Dec(cs, b)) == b      (true for the single-byte and UTF codecs without BOM games)"""
    if not _CODEC:
        S = z3.StringSort()
        _CODEC.extend([z3.Function('Enc', S, S, IntSeq), z3.Function('Dec', S, IntSeq, S),
                       z3.Function('Encodable', S, S, z3.BoolSort())])
    return _CODEC


def Decodable(cs, b):
    if len(_CODEC) < 4:
        codec_functions()
        _CODEC.append(z3.Function('Decodable', z3.StringSort(), IntSeq, z3.BoolSort()))
    return _CODEC[3](cs, b)


class HashVal:
    """result of hash(): equal structures <=> equal hashes is *assumed* in the (=>) direction only"""
    def __init__(self, struct):
        self.struct = struct
