"""Sidecar contracts: declaration, harness helper (symbolic / concrete), application at call sites.

A contract is a class deriving from Contract.  The same `inputs`, `ensures`, `raises` code is used
  * symbolically (python3-vt + z3) to generate verification conditions from the real source, and
  * concretely (/venv/bin/python, no z3) to replay counterexamples / path witnesses on the real function.
"""
import importlib
import inspect

from . import dsl

try:
    import z3
    from .values import (SInt, SBool, SReal, SStr, SSeq, Cell, Obj, ExcVal, Sym, PyRaise, Unsupported,
                         zi, zseq, IntSeq, INT_EK, has_sym)
except ImportError:           # concrete side
    z3 = None

REGISTRY = {}
LEMMAS = []       # Lemma instances
BOUNDED = []      # bounded stand-ins (run on the real code under /venv/bin/python; never counted as proved)


class Lemma:
    """a contract without code: proved Dafny-style (explicit unfoldings and induction-hypothesis instances)"""
    name = None
    properties = ()

    def vcs(self, ctx):
        """yield (name, hyps, goal)"""
        return []


def lemma(cls):
    LEMMAS.append(cls())
    return cls


def bounded(name, properties, bound):
    def deco(fn):
        BOUNDED.append(dict(name=name, properties=tuple(properties), fn=fn, bound=bound,
                            module=fn.__module__, func=fn.__name__))
        return fn
    return deco


def contract(cls):
    """register a contract; several contracts may share one target function (different `key`)"""
    inst = cls()
    key = cls.__dict__.get('key') or cls.target
    inst.key = key
    assert key not in REGISTRY, key
    REGISTRY[key] = inst
    return cls


def resolve(target):
    """'mido.messages.decode:decode_message' -> python object (function / class attribute)"""
    modname, qual = target.split(':')
    try:
        obj = importlib.import_module(modname)
        owner = None
        for part in qual.split('.'):
            owner = obj
            obj = inspect.getattr_static(obj, part) if inspect.isclass(obj) else getattr(obj, part)
    except (ImportError, AttributeError) as ex:
        raise TargetMissing('%s is not in the code any more (%s)' % (target, ex))
    return obj, owner


class TargetMissing(Exception):
    """a function a contract is written for (or hooks) no longer exists under that name: the contract does not apply -
    its obligations are UNDECIDED, not violated and not a checker error"""


def raw_function(target):
    obj, owner = resolve(target)
    if isinstance(obj, (classmethod, staticmethod)):
        return obj.__func__
    if isinstance(obj, property):
        return obj.fget
    return getattr(obj, '__wrapped__', obj)


class LoopSpec:
    """loop invariant for a loop cut.  st is a small namespace carried through one loop analysis
    (st.i = index for `for` loops over a sequence, st.seq = z3 term of the iterated sequence)."""
    header = None

    class St:
        pass

    def applies(self, ip, it):
        """cut the loop only when the trip count is symbolic"""
        if isinstance(it, Cell):
            it = it.v
        if isinstance(it, SSeq):
            return ip.ctx.unique_int(z3.Length(it.e)) is None
        from .values import GenObj
        if isinstance(it, (GenObj, Obj)):
            return True
        return False

    def sequence(self, ip, fr, it):
        if isinstance(it, Cell):
            it = it.v
        if isinstance(it, SSeq):
            return it
        return SSeq(zseq(it), list)

    def enter(self, ip, fr, seqv):
        st = LoopSpec.St()
        st.seq = seqv.e if seqv is not None else None
        st.seqv = seqv
        return st

    def havoc(self, ip, fr, st):
        pass

    def step(self, ip, fr, st):
        pass

    def hints(self, ip, fr, st, phase):
        return []

    def inv(self, ip, fr, st):
        return []


class Contract:
    target = None
    properties = ()
    configs = ({},)
    use = ()          # targets of callees whose *contract* is used at call sites (modular step)
    loops = {}        # loop ordinal -> LoopSpec instance
    raises = {}       # exception class -> method name giving the condition clause that must hold then
    path_budget = 4000
    notes = ''

    def config_name(self, cfg):
        return ','.join('%s=%s' % (k, cfg[k]) for k in sorted(cfg)) or '-'

    def inputs(self, h, cfg):
        raise NotImplementedError

    def ensures(self, h, cfg, a, r):
        return {}

    def frame(self, h, cfg, a):
        return {}

    def ensure_hints(self, h, cfg, a, r):
        """sound facts (definition unfoldings, instances of proved lemmas) added to the ensures obligations"""
        return []

    # hooks for the runner
    def callee(self, h, cfg):
        """the thing to call: defaults to the raw function of target"""
        return raw_function(self.target)

    key = None

    def samples(self, cfg):
        """extra concrete inputs (dict name->value) for the run-time contract check (bounded stand-in)"""
        return []


# ---------------------------------------------------------------- views: interp value -> spec value
def V(x):
    """spec-level view of a value: z3 term in symbolic mode, plain Python value in concrete mode"""
    if z3 is not None:
        if isinstance(x, (SInt, SBool, SReal, SStr)):
            return x.e
        if isinstance(x, Cell):
            return x.v.e
        if isinstance(x, SSeq):
            return x.e
        if isinstance(x, (list, tuple)) and dsl._SYMBOLIC[0]:
            if all(isinstance(i, (int, bool, SInt, SBool)) for i in x):
                return zseq(list(x)) if len(x) else z3.Empty(IntSeq)
            return type(x)(V(i) for i in x)
        if isinstance(x, (bytes, bytearray)) and dsl._SYMBOLIC[0]:
            return zseq(list(x)) if len(x) else z3.Empty(IntSeq)
    if isinstance(x, (bytes, bytearray)):
        return tuple(x)
    if isinstance(x, list) and all(isinstance(i, int) for i in x):
        return tuple(x)
    return x


def attrs_of(o):
    """attribute dict of an object (Obj in symbolic mode, real instance in concrete mode)"""
    if z3 is not None and isinstance(o, Obj):
        return o.attrs
    return vars(o)


def cls_of(o):
    if z3 is not None:
        if isinstance(o, Obj):
            return o.cls
        if isinstance(o, (SSeq, Cell)):
            return o.pycls
        if isinstance(o, SInt):
            return int
        if isinstance(o, SBool):
            return bool
        if isinstance(o, SReal):
            return float
        if isinstance(o, SStr):
            return str
        if o.__class__.__name__ == 'TrackList':
            return o.pycls
        if o.__class__.__name__ == 'PyList':
            return list           # a list display evaluated by the interpreter
    return type(o)


def is_int_value(x):
    """Integral (bool included) in either mode"""
    import numbers
    if z3 is not None and isinstance(x, (SInt, SBool)):
        return True
    return isinstance(x, numbers.Integral)


# ---------------------------------------------------------------- harness helper
class H:
    """builds the inputs of a verification unit; symbolic (ctx given) or concrete (values given)"""
    def __init__(self, ctx=None, values=None):
        self.ctx = ctx
        self.values = values
        self.sym = ctx is not None
        self.names = []
        self.snap = {}

    # -- scalar inputs
    def _reg(self, name, const):
        self.ctx.inputs[name] = const
        self.names.append(name)

    def int(self, name, lo=None, hi=None):
        if not self.sym:
            return int(self.values[name])
        c = z3.Int(name)
        self._reg(name, c)
        if lo is not None:
            self.ctx.assume(c >= lo)
        if hi is not None:
            self.ctx.assume(c <= hi)
        return SInt(c)

    def bool(self, name):
        if not self.sym:
            return bool(self.values[name])
        c = z3.Bool(name)
        self._reg(name, c)
        return SBool(c)

    def real(self, name):
        if not self.sym:
            return self.values[name]
        c = z3.Real(name)
        self._reg(name, c)
        return SReal(c)

    def str(self, name):
        if not self.sym:
            return self.values[name]
        c = z3.String(name)
        self._reg(name, c)
        return SStr(c)

    def int_seq(self, name, pycls=list, lo=None, hi=None, mutable=None):
        """sequence of integers of any length; lo/hi bound every element (precondition)"""
        if not self.sym:
            vals = list(self.values[name])
            if any((lo is not None and x < lo) or (hi is not None and x > hi) for x in vals):
                raise PreconditionFailed()
            return pycls(vals)
        c = z3.Const(name, IntSeq)
        self._reg(name, c)
        if lo is not None or hi is not None:
            conds = []
            self.ctx.assume(dsl.All(0, z3.Length(c), lambda k: z3.And(
                *([c[k] >= lo] if lo is not None else []) + ([c[k] <= hi] if hi is not None else []))))
        s = SSeq(c, pycls)
        if mutable is None:
            mutable = pycls in (list, bytearray)
        return Cell(s, pycls) if mutable else s

    def msg_seq(self, name, real_time=False, pycls=list):
        """a track: sequence of messages of unknown length (symbolic: Seq Msg; concrete: real message objects built
        from the projected model, see messages_from_model)"""
        if not self.sym:
            return pycls(messages_from_model(self.values[name]))
        from .msgs import MSG_I, MSG_R
        ek = MSG_R() if real_time else MSG_I()
        c = z3.Const(name, ek.seqsort)
        self._reg(name, c)
        # kind is 0 (Message), 1 (MetaMessage) or 2 (UnknownMetaMessage); end_of_track is a MetaMessage
        self.ctx.assume(dsl.All(0, z3.Length(c), lambda k: z3.And(ek.kind(c[k]) >= 0, ek.kind(c[k]) <= 2,
                                                                   z3.Implies(ek.is_eot(c[k]), z3.And(ek.kind(c[k]) == 1, ek.pay(c[k]) == 0)))))
        return SSeq(c, pycls, ek)

    def const(self, name, value):
        return value

    # -- objects
    def obj(self, cls, attrs):
        if self.sym:
            return Obj(cls, dict(attrs))
        o = cls.__new__(cls)
        vars(o).update(attrs)
        return o

    def assume(self, clause):
        if self.sym:
            self.ctx.assume(clause)
        else:
            if not dsl.holds(clause):
                raise PreconditionFailed()

    def pool(self, term):
        if self.sym:
            self.ctx.add_pool(term)


class PreconditionFailed(Exception):
    pass


def messages_from_model(items):
    """real message objects for projected track elements {kind, type, time, pay}: only `end_of_track`, the kind and
    the identity (pay) matter to the track functions, so representatives are used for everything else"""
    import mido
    out = []
    for it in items:
        kind, typ, time, pay = it['kind'], it['type'], it['time'], it['pay']
        if typ == 'end_of_track':
            out.append(mido.MetaMessage('end_of_track', time=time))
        elif typ == 'set_tempo':
            out.append(mido.MetaMessage('set_tempo', tempo=abs(pay) % 16777216, time=time))
        elif kind == 0:
            p = abs(pay)
            out.append(mido.Message('control_change', control=p % 128, value=(p // 128) % 128, channel=(p // 16384) % 16, time=time))
        elif kind == 1:
            out.append(mido.MetaMessage('text', text='m%d' % pay, time=time))
        else:
            out.append(mido.UnknownMetaMessage(0x60, data=[abs(pay) % 256], time=time))
    return out


# ---------------------------------------------------------------- model projection
def model_value(m, t):
    """Python value of z3 term t under model m"""
    v = m.eval(t, model_completion=True)
    s = t.sort()
    if s == z3.IntSort():
        return v.as_long()
    if s == z3.BoolSort():
        return z3.is_true(v)
    if s == z3.RealSort():
        v = z3.simplify(v)
        if z3.is_rational_value(v):
            fr = v.as_fraction()
            return float(fr) if fr.denominator != 1 else float(fr.numerator)
        return float(v.approx(20).as_fraction())
    if s == z3.StringSort():
        return v.as_string()
    if z3.is_seq(t):
        n = m.eval(z3.Length(t), model_completion=True).as_long()
        return [model_value(m, t[i]) for i in range(min(n, 64))]
    if s.kind() == z3.Z3_DATATYPE_SORT:
        out = {}
        for i in range(s.constructor(0).arity()):
            acc = s.accessor(0, i)
            out[acc.name()] = model_value(m, acc(t))
        return out
    raise ValueError('cannot project %s' % s)


# ---------------------------------------------------------------- harness functions (compositions of real calls)
class Harness:
    """a few lines of Python, written in the contract file, that only CALL the real functions
    (e.g. `Message.from_bytes(m.bytes(), time=m.time) == m`).  Symbolically the text is interpreted by pyvc
    like any other function; concretely it is compiled by CPython.  It contains no logic of its own."""
    def __init__(self, src, globs=None):
        import textwrap
        self.src = textwrap.dedent(src)
        self.globs = globs or {}
        self._fn = None

    def concrete(self):
        if self._fn is None:
            ns = dict(self.globs)
            exec(compile(self.src, '<harness>', 'exec'), ns)
            self._fn = [v for k, v in ns.items() if callable(v) and getattr(v, '__code__', None) is not None
                        and v.__code__.co_filename == '<harness>'][-1]
        return self._fn

    def symbolic(self):
        import ast
        from .values import Closure
        node = [n for n in ast.parse(self.src).body if isinstance(n, ast.FunctionDef)][-1]
        g = dict(self.globs)
        g.setdefault('__builtins__', __builtins__)
        return Closure(node, {}, g, 'harness:' + node.name)

    def get(self, h):
        return self.symbolic() if h.sym else self.concrete()
