/-
  C06, concatenation corollary: the induction over the list of messages, mechanised.

  The tokenizer/parser is abstracted to what the contracts prove about the real code:
    * `step s b = (s', out)`   one call of feed_byte from state `s` (state after, messages queued by the call);
    * feeding a byte string is the fold of `step` over it, messages appended in order
      (contract C05.feed-is-a-fold-of-feed_byte on the real Tokenizer.feed; Parser.feed/_decode contracts) -- this is `run`;
    * `resync`: from ANY well-formed state, feeding the encoding of a valid message m leaves a well-formed state and
      queues exactly [m]  (contracts C06.resync-fixed for the 17 fixed-length types and C06.resync-sysex, proved on the real code
      from an arbitrary well-formed state).
  Conclusion: from any well-formed state (= after any prefix P), feeding enc(m1) ++ ... ++ enc(mk) queues exactly
  [m1, ..., mk] and leaves a well-formed state; and P ++ enc(M) yields the messages of P followed by M.
  The correspondence between `step`/`WF`/`enc` and the contracts is by inspection (stated in DESIGN.md).
-/
import Mathlib.Data.List.Basic

open List

variable {S M : Type}

/-- feeding a byte string = folding the step function, collecting the queued messages in order -/
def run (step : S → Int → S × List M) : S → List Int → S × List M
  | s, [] => (s, [])
  | s, b :: bs => ((run step (step s b).1 bs).1, (step s b).2 ++ (run step (step s b).1 bs).2)

theorem run_append (step : S → Int → S × List M) (a b : List Int) (s : S) :
    run step s (a ++ b) =
      ((run step (run step s a).1 b).1, (run step s a).2 ++ (run step (run step s a).1 b).2) := by
  induction a generalizing s with
  | nil => simp [run]
  | cons x xs ih => simp [run, ih, List.append_assoc]

/-- C06: P followed by the encoding of M yields the messages of P followed by M -/
theorem prefix_then_message (step : S → Int → S × List M) (enc : M → List Int) (WF : S → Prop)
    (resync : ∀ s m, WF s → WF (run step s (enc m)).1 ∧ (run step s (enc m)).2 = [m])
    (s0 : S) (P : List Int) (m : M) (hP : WF (run step s0 P).1) :
    (run step s0 (P ++ enc m)).2 = (run step s0 P).2 ++ [m] ∧ WF (run step s0 (P ++ enc m)).1 := by
  rw [run_append]
  exact ⟨by simp [(resync _ m hP).2], (resync _ m hP).1⟩

/-- C06: any concatenation of encoded messages parses back to the same list (from any well-formed state) -/
theorem concat_parses_back (step : S → Int → S × List M) (enc : M → List Int) (WF : S → Prop)
    (resync : ∀ s m, WF s → WF (run step s (enc m)).1 ∧ (run step s (enc m)).2 = [m]) :
    ∀ (ms : List M) (s : S), WF s →
      (run step s (ms.flatMap enc)).2 = ms ∧ WF (run step s (ms.flatMap enc)).1 := by
  intro ms
  induction ms with
  | nil => intro s h; simp [run, h]
  | cons m rest ih =>
    intro s h
    have hr := resync s m h
    have ht := ih (run step s (enc m)).1 hr.1
    rw [List.flatMap_cons, run_append]
    exact ⟨by simp [hr.2, ht.1], ht.2⟩
