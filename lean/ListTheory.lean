/-
  The four facts about `Sublist` used by /verif/contracts/l_parser.py (lemma C04.kept-bytes-subsequence-step),
  proved from Mathlib's `List.Sublist`.  The z3 side treats `Sublist` as an uninterpreted predicate and uses
  only instances of these four statements.
-/
import Mathlib.Data.List.Basic

open List

theorem A0 (y : List Int) : ([] : List Int) <+ y := nil_sublist y

theorem A1 (x y : List Int) (b : Int) (h : x <+ y) : x <+ (y ++ [b]) :=
  h.trans (sublist_append_left y [b])

theorem A2 (x y : List Int) (b : Int) (h : x <+ y) : (x ++ [b]) <+ (y ++ [b]) :=
  h.append_right [b]

theorem A3 (x z y : List Int) (h : (x ++ z) <+ y) : x <+ y :=
  (sublist_append_left x z).trans h
