"""C03 — no invalid message state is reachable through the checked API.

Object invariant Valid(m) and one contract per public entry point (constructor, copy, attribute
assignment, attribute deletion, from_dict, sysex `data +=`).  Every contract has the same shape:
    normal return  =>  the supplied values were acceptable  AND  Valid(result)  AND  values stored as given
    exception      =>  class in {ValueError, TypeError, AttributeError}  AND  the supplied values were NOT acceptable
                       AND  the original message is unchanged
so that, by induction over the history of calls, only valid states are reachable.
"""
from pyvc.contract import Contract, contract, V, attrs_of, cls_of, Harness, is_int_value
from pyvc.dsl import And, Or, Not, Implies, All, Ex, AnyOf, eq, at, length, is_z, holds, cat
from . import spec_midi as S

try:
    import z3
    from pyvc.values import SInt, SBool, SReal, SStr, SSeq, Cell, Obj
except ImportError:
    z3 = None

# kinds of a supplied value.  'int' and 'bool' are symbolic (all values); the others are representatives of a type
SCALAR_KINDS = ('int', 'bool', 'real', 'str', 'None', 'nan', 'tuple', 'list', 'complex')
DATA_KINDS = ('ints-tuple', 'ints-list', 'ints-bytearray', 'ints-SysexData', 'text', 'None', 'int', 'real', 'floats', 'strs', 'nested')
REJECT = (ValueError, TypeError, AttributeError)


def make_value(h, kind, name='v'):
    if kind == 'int':
        return h.int(name)
    if kind == 'bool':
        return h.bool(name)
    if kind == 'real':
        return h.real(name)
    if kind == 'str':
        return h.str(name)
    if kind == 'None':
        return None
    if kind == 'nan':
        return float('nan')
    if kind == 'tuple':
        return (1, 2)
    if kind == 'list':
        return [1]
    if kind == 'complex':
        return 1 + 0j
    if kind == 'ints-tuple':
        return h.int_seq(name, tuple, mutable=False)
    if kind == 'ints-list':
        return h.int_seq(name, list, mutable=True)
    if kind == 'ints-bytearray':
        return h.int_seq(name, bytearray, lo=0, hi=255, mutable=True)
    if kind == 'ints-SysexData':
        # the library's own tuple subclass, holding ARBITRARY integers: its class is no evidence that it was ever checked
        import mido.messages.messages as M
        return h.int_seq(name, M.SysexData, mutable=False)
    if kind == 'text':
        return 'ab'
    if kind == 'floats':
        return (1.0, 2.0)
    if kind == 'strs':
        return ('1', '2')
    if kind == 'nested':
        return ((1, 2),)
    raise KeyError(kind)


def is_real_value(v):
    import numbers
    if z3 is not None and isinstance(v, (SInt, SBool, SReal)):
        return True
    return isinstance(v, numbers.Real)


def acceptable(name, kind, v):
    """clause: is value v (of the given kind) inside the documented domain of attribute `name`?"""
    if name == 'time':
        return kind in ('int', 'bool', 'real', 'nan')
    if name == 'data':
        if kind in ('ints-tuple', 'ints-list', 'ints-bytearray', 'ints-SysexData'):
            d = V(v)
            return All(0, length(d), lambda k: S.data_byte(at(d, k)))
        return False
    if kind == 'int':
        return S.valid_attr(name, V(v))
    if kind == 'bool':
        return True            # True/False are the integers 1/0, inside every documented range
    return False


def not_acceptable(name, kind, v):
    if name == 'data' and kind in ('ints-tuple', 'ints-list', 'ints-bytearray', 'ints-SysexData'):
        d = V(v)
        return Ex(0, length(d), lambda k: Not(S.data_byte(at(d, k))))
    a = acceptable(name, kind, v)
    return Not(a)


def valid_state(attrs, type_):
    """clauses of the object invariant"""
    import mido.messages.messages as M
    info = S.TYPES[type_]
    out = {}
    out['attribute-set'] = set(attrs.keys()) == set(info['names']) | {'type', 'time'}
    if not out['attribute-set']:
        return out
    out['type'] = attrs['type'] == type_
    out['time-is-real'] = is_real_value(attrs['time'])
    for nm in info['names']:
        v = attrs[nm]
        if nm == 'data':
            out['data-is-SysexData'] = cls_of(v) is M.SysexData
            if out['data-is-SysexData']:
                d = V(v)
                if z3 is None or not is_z(d):
                    out['data-items-int'] = all(is_int_value(x) for x in v)
                out['data-in-range'] = All(0, length(d), lambda k: S.data_byte(at(d, k)))
        else:
            out[nm + '-is-int'] = is_int_value(v)
            if out[nm + '-is-int']:
                out[nm + '-in-range'] = S.valid_attr(nm, _as_int(v))
    return out


def _as_int(v):
    if z3 is not None and isinstance(v, SBool):
        return z3.If(v.e, 1, 0)
    if isinstance(v, bool):
        return int(v)
    return V(v)


def same_value(a, b):
    """clause: the stored value is the supplied value (same object, or equal and of the same type)"""
    if a is b:
        return True
    if cls_of(a) is not cls_of(b):
        return False
    va, vb = V(a), V(b)
    if isinstance(va, float) and va != va:
        return isinstance(vb, float) and vb != vb
    try:
        return eq(va, vb)
    except Exception:
        return False


def unchanged(cur, old):
    if set(cur.keys()) != set(old.keys()):
        return False
    out = []
    for k in cur:
        out.append(same_value(cur[k], old[k]))
    return And(*out) if out else True


def valid_message_obj(h, type_):
    """an arbitrary VALID message (the induction hypothesis)"""
    from .c_messages import msg_obj
    return msg_obj(h, type_, time='real')


def _targets(type_):
    return list(S.TYPES[type_]['names']) + ['time']


def _kinds_for(name):
    return DATA_KINDS if name == 'data' else SCALAR_KINDS


# ====================================================================== constructor
def _init_cfgs():
    out = []
    for t in S.ALL_TYPES:
        out.append({'type': t, 'mode': 'all'})                      # every attribute supplied, all symbolic ints
        out.append({'type': t, 'mode': 'none'})                     # defaults only
        out.append({'type': t, 'mode': 'unknown'})                  # an attribute the type does not have
        for nm in _targets(t):
            for kd in _kinds_for(nm):
                out.append({'type': t, 'mode': 'one', 'name': nm, 'kind': kd})
    return tuple(out)


def _supplied(h, cfg):
    """kwargs for constructor / copy according to cfg; records h.given = {name: (kind, value)}"""
    t = cfg['type']
    h.given = {}
    if cfg['mode'] == 'all':
        for nm in _targets(t):
            kd = 'ints-tuple' if nm == 'data' else 'int'
            h.given[nm] = (kd, make_value(h, kd, 'new_' + nm))
    elif cfg['mode'] == 'one':
        h.given[cfg['name']] = (cfg['kind'], make_value(h, cfg['kind'], 'new_' + cfg['name']))
    elif cfg['mode'] == 'unknown':
        other = 'pitch' if 'pitch' not in S.TYPES[t]['names'] else 'note'
        h.given[other] = ('int', h.int('new_' + other, 0, 0))
        h.unknown = other
    return {k: v for k, (kd, v) in h.given.items()}


def _all_acceptable(h, cfg):
    if cfg['mode'] == 'unknown':
        return [False]
    return [acceptable(nm, kd, v) for nm, (kd, v) in h.given.items()]


def _some_unacceptable(h, cfg):
    if cfg['mode'] == 'unknown':
        return True
    parts = [not_acceptable(nm, kd, v) for nm, (kd, v) in h.given.items()]
    if not parts:
        return False
    return AnyOf(parts) if len(parts) > 1 or not isinstance(parts[0], (bool,)) else parts[0]


def _stored_as_given(h, cfg, attrs, base):
    """clauses: supplied attributes hold the supplied value, the others hold `base` (defaults / original)"""
    out = {}
    for nm in attrs:
        if nm == 'type':
            continue
        if nm in h.given:
            kd, v = h.given[nm]
            if nm == 'data':
                try:
                    out['data-equals-supplied'] = eq(V(attrs['data']), V(v))
                except Exception:
                    out['data-equals-supplied'] = False     # not even the same kind of value
            else:
                out[nm + '-equals-supplied'] = same_value(attrs[nm], v)
        else:
            if nm == 'data':
                out['data-kept'] = eq(V(attrs['data']), V(base['data']))
            else:
                out[nm + '-kept'] = same_value(attrs[nm], base[nm])
    return out


@contract
class MessageInit(Contract):
    target = 'mido.messages.messages:Message.__init__'
    properties = ('C03',)
    configs = _init_cfgs()
    use = ('mido.messages.checks:check_data',)
    raises = {ValueError: 'rejected', TypeError: 'rejected', AttributeError: 'rejected'}

    def callee(self, h, cfg):
        import mido.messages.messages as M
        return M.Message

    def inputs(self, h, cfg):
        return [cfg['type']], _supplied(h, cfg)

    def ensures(self, h, cfg, a, r):
        import mido.messages.messages as M
        out = {'is-Message': cls_of(r) is M.Message}
        for i, c in enumerate(_all_acceptable(h, cfg)):
            out['accepted-only-if-acceptable.%d' % i] = c
        attrs = attrs_of(r)
        out.update({'valid.' + k: v for k, v in valid_state(attrs, cfg['type']).items()})
        if out.get('valid.attribute-set'):
            out.update(_stored_as_given(h, cfg, attrs, S.DEFAULTS))
        return out

    def rejected(self, h, cfg, a, pr):
        return _some_unacceptable(h, cfg)


@contract
class MessageFromDict(MessageInit):
    target = 'mido.messages.messages:BaseMessage.from_dict'
    configs = tuple(c for c in _init_cfgs() if c['mode'] in ('all', 'unknown') or c.get('kind') in ('real', 'str', 'None', 'ints-list', 'strs'))

    def callee(self, h, cfg):
        from pyvc.contract import raw_function
        return raw_function(self.target)

    def inputs(self, h, cfg):
        import mido.messages.messages as M
        d = dict(_supplied(h, cfg))
        d['type'] = cfg['type']
        return [M.Message, d], {}


# ====================================================================== copy
def _copy_cfgs():
    out = []
    for t in S.ALL_TYPES:
        out.append({'type': t, 'mode': 'all'})
        out.append({'type': t, 'mode': 'none'})
        out.append({'type': t, 'mode': 'unknown'})
        out.append({'type': t, 'mode': 'type-same'})
        out.append({'type': t, 'mode': 'type-other'})
        for nm in _targets(t):
            for kd in _kinds_for(nm):
                out.append({'type': t, 'mode': 'one', 'name': nm, 'kind': kd})
    return tuple(out)


@contract
class MessageCopy(Contract):
    target = 'mido.messages.messages:Message.copy'
    properties = ('C03', 'C15')
    configs = _copy_cfgs()
    use = ('mido.messages.checks:check_data',)
    raises = {ValueError: 'rejected', TypeError: 'rejected', AttributeError: 'rejected'}

    def inputs(self, h, cfg):
        h.m = valid_message_obj(h, cfg['type'])
        kw = {}
        h.given = {}
        if cfg['mode'] == 'type-same':
            kw['type'] = cfg['type']
        elif cfg['mode'] == 'type-other':
            kw['type'] = 'stop' if cfg['type'] != 'stop' else 'start'
        else:
            kw = _supplied(h, cfg)
        return [h.m], kw

    def ensures(self, h, cfg, a, r):
        import mido.messages.messages as M
        out = {'is-Message': cls_of(r) is M.Message, 'fresh-object': r is not h.m,
               'attribute-dict-not-shared': attrs_of(r) is not attrs_of(h.m)}
        if cfg['mode'] == 'type-other':
            out['type-cannot-change'] = False
        for i, c in enumerate(_all_acceptable(h, cfg) if cfg['mode'] in ('all', 'one', 'unknown') else []):
            out['accepted-only-if-acceptable.%d' % i] = c
        attrs = attrs_of(r)
        out.update({'valid.' + k: v for k, v in valid_state(attrs, cfg['type']).items()})
        if out.get('valid.attribute-set'):
            out.update(_stored_as_given(h, cfg, attrs, h.attrs0))
        return out

    def rejected(self, h, cfg, a, pr):
        if cfg['mode'] == 'type-other':
            return True
        if cfg['mode'] in ('type-same', 'none'):
            return False
        return _some_unacceptable(h, cfg)

    def frame(self, h, cfg, a):
        return {'original-unchanged': unchanged(attrs_of(h.m), h.attrs0)}


# ====================================================================== attribute assignment / deletion / data +=
_SET = Harness('''
    def set_attribute(m, name, value):
        setattr(m, name, value)
        return m
''')
_DEL = Harness('''
    def del_attribute(m, name):
        delattr(m, name)
        return m
''')
_IADD = Harness('''
    def data_iadd(m, other):
        m.data += other
        return m
''')


def _set_cfgs():
    out = []
    for t in S.ALL_TYPES:
        for nm in _targets(t):
            for kd in _kinds_for(nm):
                out.append({'type': t, 'name': nm, 'kind': kd})
        for kd in ('str', 'int'):
            out.append({'type': t, 'name': 'type', 'kind': kd})
        out.append({'type': t, 'name': 'bogus', 'kind': 'int'})
        out.append({'type': t, 'name': 'pitch' if 'pitch' not in S.TYPES[t]['names'] else 'note', 'kind': 'int'})
        if t != 'sysex':
            # `data` exists on sysex messages only: a valid payload assigned to any other message must be refused
            out.append({'type': t, 'name': 'data', 'kind': 'ints-tuple'})
            out.append({'type': t, 'name': 'data', 'kind': 'ints-list'})
    return tuple(out)


@contract
class MessageSetattr(Contract):
    target = 'harness:C03.setattr'
    properties = ('C03',)
    configs = _set_cfgs()
    use = ('mido.messages.checks:check_data',)
    raises = {ValueError: 'rejected', TypeError: 'rejected', AttributeError: 'rejected'}

    def callee(self, h, cfg):
        return _SET.get(h)

    def inputs(self, h, cfg):
        h.m = valid_message_obj(h, cfg['type'])
        h.v = make_value(h, cfg['kind'], 'v')
        return [h.m, cfg['name'], h.v], {}

    def _legal(self, cfg):
        return cfg['name'] in _targets(cfg['type'])

    def ensures(self, h, cfg, a, r):
        out = {}
        if not self._legal(cfg):
            out['type-and-unknown-attributes-cannot-be-assigned'] = False
            return out
        out['accepted-only-if-acceptable'] = acceptable(cfg['name'], cfg['kind'], h.v)
        attrs = attrs_of(h.m)
        out.update({'valid.' + k: v for k, v in valid_state(attrs, cfg['type']).items()})
        if out.get('valid.attribute-set'):
            h.given = {cfg['name']: (cfg['kind'], h.v)}
            out.update(_stored_as_given(h, cfg, attrs, h.attrs0))
        return out

    def rejected(self, h, cfg, a, pr):
        if not self._legal(cfg):
            return True
        return not_acceptable(cfg['name'], cfg['kind'], h.v)

    def frame(self, h, cfg, a):
        # whatever happens: type and attribute set never change; on rejection nothing changes at all
        cur = attrs_of(h.m)
        return {'attribute-set-never-changes': set(cur.keys()) == set(h.attrs0.keys()),
                'type-never-changes': cur.get('type') == cfg['type']}


@contract
class MessageSetattrRejectedUnchanged(MessageSetattr):
    """same harness; checks the frame of the exceptional exits: a rejected assignment leaves the message unchanged"""
    target = 'harness:C03.setattr-rejected-unchanged'

    def ensures(self, h, cfg, a, r):
        return {}

    def rejected(self, h, cfg, a, pr):
        return unchanged(attrs_of(h.m), h.attrs0)


@contract
class MessageDelattr(Contract):
    target = 'harness:C03.delattr'
    properties = ('C03',)
    configs = tuple({'type': t, 'name': nm} for t in S.ALL_TYPES for nm in _targets(t) + ['type', 'bogus'])
    raises = {AttributeError: 'rejected'}

    def callee(self, h, cfg):
        return _DEL.get(h)

    def inputs(self, h, cfg):
        h.m = valid_message_obj(h, cfg['type'])
        return [h.m, cfg['name']], {}

    def ensures(self, h, cfg, a, r):
        return {'attributes-cannot-be-deleted': False}

    def rejected(self, h, cfg, a, pr):
        return unchanged(attrs_of(h.m), h.attrs0)


@contract
class SysexIadd(Contract):
    target = 'harness:C03.sysex-data-iadd'
    properties = ('C03',)
    configs = tuple({'type': 'sysex', 'kind': kd} for kd in DATA_KINDS)
    use = ('mido.messages.checks:check_data',)
    raises = {ValueError: 'rejected', TypeError: 'rejected', AttributeError: 'rejected'}

    def callee(self, h, cfg):
        return _IADD.get(h)

    def inputs(self, h, cfg):
        h.m = valid_message_obj(h, 'sysex')
        h.v = make_value(h, cfg['kind'], 'v')
        return [h.m, h.v], {}

    def ensures(self, h, cfg, a, r):
        out = {'accepted-only-if-acceptable': acceptable('data', cfg['kind'], h.v)}
        attrs = attrs_of(h.m)
        out.update({'valid.' + k: v for k, v in valid_state(attrs, 'sysex').items()})
        if out.get('valid.data-is-SysexData'):
            out['data-extended'] = eq(V(attrs['data']), cat(V(h.attrs0['data']), V(h.v)))
            out['time-kept'] = same_value(attrs['time'], h.attrs0['time'])
        return out

    def rejected(self, h, cfg, a, pr):
        return [not_acceptable('data', cfg['kind'], h.v)]

    def frame(self, h, cfg, a):
        cur = attrs_of(h.m)
        return {'attribute-set-never-changes': set(cur.keys()) == set(h.attrs0.keys())}


@contract
class SysexIaddRejectedUnchanged(SysexIadd):
    target = 'harness:C03.sysex-data-iadd-rejected-unchanged'

    def ensures(self, h, cfg, a, r):
        return {}

    def rejected(self, h, cfg, a, pr):
        return unchanged(attrs_of(h.m), h.attrs0)
