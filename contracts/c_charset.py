"""C17 — the file charset is in force exactly for the duration of a load/save call and never leaks out of it.

_load and _save are verified with their callees (read_file_header, read_track, write_chunk, write_track)
replaced by the weakest contract that matters here: "returns, or raises any exception, and does not assign
meta._charset".  The frame part (nobody but meta_charset assigns the global) is checked on the syntax tree of
the whole package on every run.  Every exit of _load/_save -- normal and exceptional, at every call position --
is then an explicit path, and the postcondition  meta._charset == value before the call  is proved on each.
"""
import ast
import os
import struct

from pyvc.contract import Contract, contract, LoopSpec, V, attrs_of, cls_of, Harness, raw_function, Lemma, lemma
from pyvc.dsl import And, Or, Not, Implies, All, Ex, eq, at, length, is_z

try:
    import z3
    from pyvc.values import SInt, SBool, SStr, SSeq, Cell, Obj, PyRaise, Opaque, zs
except ImportError:
    z3 = None

EXC = (EOFError, OSError, ValueError, KeyError, IndexError, UnicodeDecodeError, UnicodeEncodeError, TypeError, struct.error)


def _meta():
    import mido.midifiles.meta as MM
    return MM


def current_charset(h):
    MM = _meta()
    if h.sym:
        return h.ctx.gstore.get((id(MM.__dict__), '_charset'), MM._charset)
    return MM._charset


class _Callee:
    """weakest contract of a callee of _load/_save: any outcome; requires the file charset to be in force"""
    def __init__(self, name, result):
        self.name = name
        self.result = result

    def __call__(self, ip, args, kwargs):
        ctx = ip.ctx
        h = ctx.h
        ctx.oblige('in-force-during-call.%s' % self.name, eq(V(current_charset(h)), V(attrs_of(h.mf)['charset'])), kind='call-pre')
        ctx.__dict__.setdefault('callee_calls', []).append((self.name, list(args)))
        which = ctx.fork(1 + len(EXC))
        if which == 0:
            return self.result(ip)
        raise PyRaise(EXC[which - 1], ('injected by the callee contract of %s' % self.name,))


class _RangeLoop(LoopSpec):
    header = None

    def inv(self, ip, fr, st):
        h = ip.ctx.h
        return [eq(V(current_charset(h)), V(attrs_of(h.mf)['charset']))]


def _header_result(ip):
    c = ip.ctx
    return (SInt(c.fresh('type')), SInt(c.fresh('ntracks')), SInt(c.fresh('tpb')))


def midifile_obj(h, debug=False, tracks=None):
    import mido.midifiles.midifiles as MF
    cs = h.str('file_charset')
    attrs = {'filename': None, 'type': h.int('type0'), 'ticks_per_beat': h.int('tpb0'), 'charset': cs, 'debug': debug,
             'clip': False, 'tracks': tracks if tracks is not None else [], '_merged_track': None}
    h.mf = h.obj(MF.MidiFile, attrs)
    return h.mf


class _CharsetContract(Contract):
    properties = ('C17',)
    symbolic_only = True

    def setup(self, h, cfg, ip):
        MM = _meta()
        h.old = h.str('charset_before')
        ip.ctx.gstore[(id(MM.__dict__), '_charset')] = h.old

    def ensures(self, h, cfg, a, r):
        return {'charset-restored': eq(V(current_charset(h)), V(h.old))}

    def restored(self, h, cfg, a, pr):
        return eq(V(current_charset(h)), V(h.old))

    raises = {BaseException: 'restored'}


@contract
class LoadRestoresCharset(_CharsetContract):
    key = 'C17._load'
    target = 'mido.midifiles.midifiles:MidiFile._load'
    configs = ({'debug': False}, {'debug': True})
    loops = {('mido.midifiles.midifiles:MidiFile._load', 0): _RangeLoop()}

    def hooks(self, cfg):
        return {raw_function('mido.midifiles.midifiles:read_file_header'): _Callee('read_file_header', _header_result),
                raw_function('mido.midifiles.midifiles:read_track'): _Callee('read_track', lambda ip: Opaque('track'))}

    def inputs(self, h, cfg):
        return [midifile_obj(h, cfg['debug']), Opaque('infile')], {}


@contract
class SaveRestoresCharset(_CharsetContract):
    key = 'C17._save'
    target = 'mido.midifiles.midifiles:MidiFile._save'
    properties = ('C17', 'C16')
    configs = ({'ntracks': 0}, {'ntracks': 1}, {'ntracks': 3})

    def ensures(self, h, cfg, a, r):
        out = _CharsetContract.ensures(self, h, cfg, a, r)
        # C16: saving reads only the current contents, and writes exactly the current tracks in order
        from .c_midifile import CONTENT_ATTRS
        bad = sorted({e[2] for e in h.ctx.log if e[0] == 'read' and e[1] == id(h.mf) and e[2] not in CONTENT_ATTRS})
        out['reads-only-current-contents%s' % (' (also read: %s)' % ', '.join(bad) if bad else '')] = not bad
        calls = [x for x in h.ctx.__dict__.get('callee_calls', []) if x[0] == 'write_track']
        out['writes-every-current-track-in-order'] = [x[1][1] for x in calls] == list(attrs_of(h.mf)['tracks'])
        return out

    def hooks(self, cfg):
        return {raw_function('mido.midifiles.midifiles:write_chunk'): _Callee('write_chunk', lambda ip: None),
                raw_function('mido.midifiles.midifiles:write_track'): _Callee('write_track', lambda ip: None)}

    def inputs(self, h, cfg):
        tracks = [Opaque('track%d' % i) for i in range(cfg['ntracks'])]
        return [midifile_obj(h, False, tracks), Opaque('outfile')], {}


_WITH = Harness('''
    def scoped(meta_charset, cs, fail, exc):
        with meta_charset(cs):
            if fail:
                raise exc
        return 1
''')


@contract
class MetaCharsetScoped(Contract):
    """the context manager itself, replayable on the real code: the body raises (or not) an arbitrary exception"""
    key = 'C17.meta_charset'
    target = 'mido.midifiles.meta:meta_charset'
    properties = ('C17',)
    configs = tuple({'exc': i} for i in range(len(EXC)))
    raises = {BaseException: 'restored'}

    def callee(self, h, cfg):
        return _WITH.get(h)

    def setup(self, h, cfg, ip):
        MM = _meta()
        ip.ctx.gstore[(id(MM.__dict__), '_charset')] = h.old

    def setup_concrete(self, h, cfg):
        MM = _meta()
        saved = MM._charset
        MM._charset = h.old

        def restore():
            MM._charset = saved
        return restore

    def inputs(self, h, cfg):
        MM = _meta()
        h.old = h.str('charset_before')
        exc = EXC[cfg['exc']]
        if exc is UnicodeDecodeError:
            ev = UnicodeDecodeError('x', b'', 0, 1, 'injected')
        elif exc is UnicodeEncodeError:
            ev = UnicodeEncodeError('x', '', 0, 1, 'injected')
        else:
            ev = exc('x')
        if h.sym:
            from pyvc.values import ExcVal
            ev = ExcVal(exc, ('x',))
        return [MM.meta_charset, h.str('cs'), h.bool('fail'), ev], {}

    def ensures(self, h, cfg, a, r):
        return {'charset-restored': eq(V(current_charset(h)), V(h.old))}

    def restored(self, h, cfg, a, pr):
        return eq(V(current_charset(h)), V(h.old))

    def samples(self, cfg):
        return [{'charset_before': 'latin1', 'cs': 'utf-8', 'fail': f} for f in (False, True)]


@lemma
class OnlyMetaCharsetAssigns(Lemma):
    """frame condition used by the callee contracts above, checked on the syntax tree of the current sources:
    the only assignment to the module global meta._charset is inside meta_charset()"""
    name = 'C17.only-meta_charset-assigns-_charset'
    properties = ('C17',)

    def vcs(self, ctx):
        root = os.path.join(os.environ.get('PYVC_REPO', '/repo'), 'mido')
        offenders = []
        for dp, dn, fn in os.walk(root):
            for f in fn:
                if not f.endswith('.py'):
                    continue
                path = os.path.join(dp, f)
                tree = ast.parse(open(path).read(), path)
                for fnode in ast.walk(tree):
                    if isinstance(fnode, (ast.FunctionDef, ast.AsyncFunctionDef)):
                        declares = any(isinstance(n, ast.Global) and '_charset' in n.names for n in ast.walk(fnode))
                        if declares and not (fnode.name == 'meta_charset' and path.endswith('midifiles/meta.py')):
                            offenders.append('%s:%s' % (path, fnode.name))
                for n in ast.walk(tree):
                    # meta._charset = ... / setattr(meta, '_charset', ...) from other modules
                    if isinstance(n, (ast.Assign, ast.AugAssign)):
                        tg = n.targets if isinstance(n, ast.Assign) else [n.target]
                        for t in tg:
                            if isinstance(t, ast.Attribute) and t.attr == '_charset':
                                offenders.append('%s:%d' % (path, n.lineno))
                    if isinstance(n, ast.Constant) and n.value == '_charset':
                        offenders.append('%s:%d (string "_charset")' % (path, n.lineno))
                # module-level rebinding in meta.py other than the initial definition
                if path.endswith('midifiles/meta.py'):
                    tops = [n for n in tree.body if isinstance(n, ast.Assign) and any(isinstance(t, ast.Name) and t.id == '_charset' for t in n.targets)]
                    if len(tops) != 1:
                        offenders.append('%s: %d module-level assignments' % (path, len(tops)))
        yield ('no-other-assignment (%s)' % (', '.join(offenders) or 'none found'), [], z3.BoolVal(not offenders))


# ====================================================================== text payload codec follows the charset in force
class _CodecContract(Contract):
    properties = ('C17',)

    def setup(self, h, cfg, ip):
        MM = _meta()
        ip.ctx.gstore[(id(MM.__dict__), '_charset')] = h.cs

    def setup_concrete(self, h, cfg):
        MM = _meta()
        saved = MM._charset
        MM._charset = h.cs

        def restore():
            MM._charset = saved
        return restore


@contract
class EncodeStringUsesCharset(_CodecContract):
    target = 'mido.midifiles.meta:encode_string'
    raises = {}

    def inputs(self, h, cfg):
        h.cs = h.str('charset')
        h.s = h.str('text')
        if h.sym:
            from pyvc.models import codec_functions
            h.assume(codec_functions()[2](V(h.cs), V(h.s)))
        else:
            try:
                h.s.encode(h.cs)
            except (UnicodeError, LookupError):
                from pyvc.contract import PreconditionFailed
                raise PreconditionFailed()
        return [h.s], {}

    def ensures(self, h, cfg, a, r):
        if h.sym:
            from pyvc.models import codec_functions
            e = codec_functions()[0](V(h.cs), V(h.s))
            return {'bytes-are-the-text-in-the-file-charset': V(r) == e, 'is-list': cls_of(r) is list}
        return {'bytes-are-the-text-in-the-file-charset': list(r) == list(h.s.encode(h.cs)), 'is-list': type(r) is list}

    def samples(self, cfg):
        out = []
        for cs in ('latin1', 'utf-8', 'cp1252', 'shift_jis', 'utf-16', 'ascii'):
            for t in ('', 'abc', 'été', '日本語', '€', 'x' * 300):
                out.append({'charset': cs, 'text': t})
        return out


@contract
class DecodeStringUsesCharset(_CodecContract):
    target = 'mido.midifiles.meta:decode_string'
    raises = {}

    def inputs(self, h, cfg):
        h.cs = h.str('charset')
        h.s = h.str('text')
        if h.sym:
            from pyvc.models import codec_functions, Decodable
            Enc, Dec, Encodable = codec_functions()[:3]
            e = Enc(V(h.cs), V(h.s))
            h.assume([Encodable(V(h.cs), V(h.s)), Dec(V(h.cs), e) == V(h.s), Decodable(V(h.cs), e)])
            h.assume(All(0, z3.Length(e), lambda k: z3.And(e[k] >= 0, e[k] <= 255)))
            data = Cell(SSeq(e, list), list)
        else:
            try:
                data = list(h.s.encode(h.cs))
            except (UnicodeError, LookupError):
                from pyvc.contract import PreconditionFailed
                raise PreconditionFailed()
        return [data], {}

    def ensures(self, h, cfg, a, r):
        return {'text-comes-back': eq(V(r), V(h.s))}

    def samples(self, cfg):
        return EncodeStringUsesCharset().samples(cfg)
