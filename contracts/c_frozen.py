"""C15 — copy, freeze and thaw have value semantics (mido/frozen.py, Message.copy, MetaMessage.copy)."""
from pyvc.contract import Contract, contract, V, attrs_of, cls_of, Harness, raw_function
from pyvc.dsl import And, Or, Not, Implies, Iff, All, Ex, AnyOf, eq, at, length, is_z, holds
from . import spec_midi as S
from . import spec_meta as M
from .c_state import unchanged, same_value

try:
    import z3
    from pyvc.values import SInt, SBool, SReal, SStr, SSeq, Cell, Obj
    from pyvc.models import HashVal
except ImportError:
    z3 = None

KINDS = ('Message:note_on', 'Message:sysex', 'Message:pitchwheel', 'Message:clock',
         'MetaMessage:set_tempo', 'MetaMessage:track_name', 'MetaMessage:key_signature', 'MetaMessage:sequencer_specific',
         'MetaMessage:end_of_track', 'UnknownMetaMessage', 'MetaMessage:sequencer_specific[list]')


def make_msg(h, kind, frozen=False, prefix=''):
    """a valid message object of the given kind (class:type), optionally of the corresponding Frozen class"""
    import mido.messages.messages as MS
    import mido.midifiles.meta as MM
    import mido.frozen as FZ
    if kind.startswith('Message:'):
        from .c_messages import msg_obj
        t = kind.split(':')[1]
        info = S.TYPES[t]
        attrs = {'type': t, 'time': h.real(prefix + 'time')}
        for nm in info['names']:
            if nm == 'data':
                attrs['data'] = h.int_seq(prefix + 'data', MS.SysexData, lo=0, hi=127, mutable=False)
            else:
                lo, hi = S.RANGES[nm]
                attrs[nm] = h.int(prefix + nm, lo, hi)
        cls = FZ.FrozenMessage if frozen else MS.Message
    elif kind.startswith('MetaMessage:'):
        from .c_meta import valid_meta
        t = kind.split(':')[1]
        h.cfg = {'time': 'real'}
        if t.endswith('[list]'):
            t = t[:-6]
            h.cfg['seq'] = 'list'
        o = valid_meta(h, t, prefix)
        attrs = dict(attrs_of(o))
        cls = FZ.FrozenMetaMessage if frozen else MM.MetaMessage
    else:
        attrs = {'type': 'unknown_meta', 'type_byte': h.int(prefix + 'type_byte', 0, 127),
                 'data': h.int_seq(prefix + 'data', tuple, lo=0, hi=255, mutable=False), 'time': h.real(prefix + 'time')}
        cls = FZ.FrozenUnknownMetaMessage if frozen else MM.UnknownMetaMessage
    return h.obj(cls, attrs), dict(attrs)


def expected_class(kind, frozen):
    import mido.messages.messages as MS
    import mido.midifiles.meta as MM
    import mido.frozen as FZ
    base = kind.split(':')[0]
    return {('Message', False): MS.Message, ('Message', True): FZ.FrozenMessage,
            ('MetaMessage', False): MM.MetaMessage, ('MetaMessage', True): FZ.FrozenMetaMessage,
            ('UnknownMetaMessage', False): MM.UnknownMetaMessage, ('UnknownMetaMessage', True): FZ.FrozenUnknownMetaMessage}[(base, frozen)]


def equal_state(a, b):
    """clause: two attribute dicts hold equal values under the same names"""
    if set(a.keys()) != set(b.keys()):
        return False
    return And(*[same_value(a[k], b[k]) for k in a]) if a else True


def immutable_values(attrs):
    """every attribute value is of an immutable kind (so that sharing values between copies is unobservable)"""
    ok = True
    for v in attrs.values():
        c = cls_of(v)
        if not (c in (int, bool, float, str, type(None)) or issubclass(c, (tuple, str))):
            ok = False
    return ok


@contract
class FreezeMessage(Contract):
    target = 'mido.frozen:freeze_message'
    properties = ('C15',)
    configs = tuple({'kind': k, 'frozen': f} for k in KINDS for f in (False, True)) + ({'kind': 'None'}, {'kind': 'other'})
    raises = {ValueError: 'not_a_message'}

    def inputs(self, h, cfg):
        if cfg['kind'] == 'None':
            h.m = None
        elif cfg['kind'] == 'other':
            h.m = 5
        else:
            h.m, h.attrs0 = make_msg(h, cfg['kind'], cfg['frozen'])
        return [h.m], {}

    def not_a_message(self, h, cfg, a, pr):
        return cfg['kind'] == 'other'

    def ensures(self, h, cfg, a, r):
        if cfg['kind'] == 'None':
            return {'None-maps-to-None': r is None}
        if cfg['kind'] == 'other':
            return {'rejected': False}
        if cfg['frozen']:
            return {'already-frozen-returned-unchanged': r is h.m, 'state-unchanged': unchanged(attrs_of(h.m), h.attrs0)}
        ra = attrs_of(r)
        return {'class': cls_of(r) is expected_class(cfg['kind'], True),
                'fresh-object': r is not h.m, 'attribute-dict-not-shared': ra is not attrs_of(h.m),
                'equal-to-original': equal_state(ra, h.attrs0),
                'values-immutable': immutable_values(ra),
                'original-unchanged': unchanged(attrs_of(h.m), h.attrs0)}


@contract
class ThawMessage(Contract):
    target = 'mido.frozen:thaw_message'
    properties = ('C15',)
    configs = tuple({'kind': k, 'frozen': f} for k in KINDS for f in (False, True)) + ({'kind': 'None'},)
    raises = {}

    def inputs(self, h, cfg):
        if cfg['kind'] == 'None':
            h.m = None
        else:
            h.m, h.attrs0 = make_msg(h, cfg['kind'], cfg['frozen'])
        return [h.m], {}

    def ensures(self, h, cfg, a, r):
        if cfg['kind'] == 'None':
            return {'None-maps-to-None': r is None}
        ra = attrs_of(r)
        return {'class': cls_of(r) is expected_class(cfg['kind'], False),
                'fresh-object': r is not h.m, 'attribute-dict-not-shared': ra is not attrs_of(h.m),
                'equal-to-original': equal_state(ra, h.attrs0),
                'original-unchanged': unchanged(attrs_of(h.m), h.attrs0)}


_THAW_FREEZE = Harness('''
    def thaw_of_freeze(freeze_message, thaw_message, m):
        f = freeze_message(m)
        t = thaw_message(f)
        return (t == m, f == m, freeze_message(f) is f, type(t) is type(m))
''')


@contract
class ThawFreeze(Contract):
    key = 'C15.thaw(freeze(m))==m'
    target = 'mido.frozen:thaw_message'
    properties = ('C15',)
    configs = tuple({'kind': k} for k in KINDS)
    raises = {}

    def callee(self, h, cfg):
        return _THAW_FREEZE.get(h)

    def inputs(self, h, cfg):
        import mido.frozen as FZ
        h.m, h.attrs0 = make_msg(h, cfg['kind'], False)
        return [FZ.freeze_message, FZ.thaw_message, h.m], {}

    def ensures(self, h, cfg, a, r):
        return {'thaw(freeze(m))==m': eq(V(r[0]), True), 'freeze(m)==m': eq(V(r[1]), True),
                'freeze-is-idempotent': eq(V(r[2]), True), 'thawed-class': eq(V(r[3]), True)}


_FROZEN_SET = Harness('''
    def frozen_setattr(m, name, value):
        setattr(m, name, value)
''')
_FROZEN_DEL = Harness('''
    def frozen_delattr(m, name):
        delattr(m, name)
''')


@contract
class FrozenSetattr(Contract):
    key = 'C15.frozen-rejects-assignment'
    target = 'mido.frozen:Frozen.__setattr__'
    properties = ('C15',)
    configs = tuple({'kind': k, 'name': n} for k in KINDS for n in ('time', 'type', 'data', 'bogus'))
    raises = {ValueError: 'rejected_unchanged'}

    def callee(self, h, cfg):
        return _FROZEN_SET.get(h)

    def inputs(self, h, cfg):
        h.m, h.attrs0 = make_msg(h, cfg['kind'], True)
        return [h.m, cfg['name'], h.int('value')], {}

    def ensures(self, h, cfg, a, r):
        return {'frozen-messages-reject-every-assignment': False}

    def rejected_unchanged(self, h, cfg, a, pr):
        return unchanged(attrs_of(h.m), h.attrs0)


@contract
class FrozenDelattr(Contract):
    key = 'C15.frozen-rejects-deletion'
    target = 'mido.messages.messages:BaseMessage.__delattr__'
    properties = ('C15',)
    configs = tuple({'kind': k, 'name': n} for k in KINDS for n in ('time', 'type', 'bogus'))
    raises = {AttributeError: 'rejected_unchanged', ValueError: 'rejected_unchanged'}

    def callee(self, h, cfg):
        return _FROZEN_DEL.get(h)

    def inputs(self, h, cfg):
        h.m, h.attrs0 = make_msg(h, cfg['kind'], True)
        return [h.m, cfg['name']], {}

    def ensures(self, h, cfg, a, r):
        return {'frozen-messages-reject-every-deletion': False}

    def rejected_unchanged(self, h, cfg, a, pr):
        return unchanged(attrs_of(h.m), h.attrs0)


_HASH = Harness('''
    def hashes(a, b):
        return (a == b, hash(a), hash(b))
''')


def struct_eq(x, y):
    """clause: two hash structures (nested tuples of hashable leaves) are equal as values"""
    if isinstance(x, tuple) or isinstance(y, tuple):
        if not (isinstance(x, tuple) and isinstance(y, tuple)) or len(x) != len(y):
            return False
        return And(*[struct_eq(p, q) for p, q in zip(x, y)]) if x else True
    if isinstance(x, str) or isinstance(y, str):
        return x == y if (isinstance(x, str) and isinstance(y, str)) else False
    try:
        return same_value(x, y) if cls_of(x) is cls_of(y) else eq(V(x), V(y))
    except Exception:            # leaves of different sorts (e.g. a name against a number) are different values
        return False


@contract
class FrozenHash(Contract):
    """equal frozen messages hash equal.  hash() of a tuple is ASSUMED to be a function of the (==) values of its
    items (Python's hash/eq contract for ints, floats, str, tuples); what is proved is that Frozen.__hash__ feeds
    hash() a structure that is equal for equal messages and contains only hashable values."""
    key = 'C15.equal-frozen-messages-hash-equal'
    target = 'mido.frozen:Frozen.__hash__'
    properties = ('C15',)
    configs = tuple({'kind': k} for k in KINDS)
    raises = {}

    def callee(self, h, cfg):
        return _HASH.get(h)

    def inputs(self, h, cfg):
        h.a, h.attrs_a = make_msg(h, cfg['kind'], True, 'a_')
        h.b, h.attrs_b = make_msg(h, cfg['kind'], True, 'b_')
        # equal messages need not have been filled in the same order (decode_message stores the channel last, the
        # constructor second): b's attribute dict is in the reverse insertion order of a's
        d = attrs_of(h.b) if h.sym else vars(h.b)
        items = list(d.items())[::-1]
        d.clear()
        d.update(items)
        return [h.a, h.b], {}

    def ensures(self, h, cfg, a, r):
        e, ha, hb = r
        if h.sym:
            same = struct_eq(ha.struct if isinstance(ha, HashVal) else ha, hb.struct if isinstance(hb, HashVal) else hb)
            return {'equal-messages-hash-equal': Implies(V(e), same), 'hashable': isinstance(ha, HashVal) and isinstance(hb, HashVal)}
        return {'equal-messages-hash-equal': (not e) or ha == hb,
                'usable-as-dict-key': {h.a: 1}.get(h.b, 0) == (1 if e else 0)}


# ====================================================================== MetaMessage.copy
def _meta_copy_cfgs():
    out = []
    for t in ('set_tempo', 'track_name', 'key_signature', 'sequencer_specific', 'end_of_track', 'smpte_offset', 'time_signature'):
        out.append({'type': t, 'mode': 'none'})
        out.append({'type': t, 'mode': 'all'})
        out.append({'type': t, 'mode': 'unknown'})
        out.append({'type': t, 'mode': 'type-same'})
        out.append({'type': t, 'mode': 'type-other'})
        out.append({'type': t, 'mode': 'time'})
    return tuple(out)


@contract
class MetaCopy(Contract):
    target = 'mido.midifiles.meta:MetaMessage.copy'
    properties = ('C15',)
    configs = _meta_copy_cfgs()
    raises = {ValueError: 'rejected', TypeError: 'rejected'}

    def inputs(self, h, cfg):
        from .c_meta import valid_meta, meta_all_values, SSC, _SeqSpecCheckLoop
        h.cfg = {'time': 'real'}
        h.m = valid_meta(h, cfg['type'])
        h.given, h.acc = {}, []
        kw = {}
        if cfg['mode'] == 'all':
            h.given, h.acc = meta_all_values(h, cfg['type'], {}, 'new_')
            h.given['time'] = h.real('new_time')
            kw = dict(h.given)
        elif cfg['mode'] == 'time':
            h.given = {'time': h.int('new_time')}
            kw = dict(h.given)
        elif cfg['mode'] == 'unknown':
            kw = {'bogus_attribute': 1}
            h.acc = [False]
        elif cfg['mode'] == 'type-same':
            kw = {'type': cfg['type']}
        elif cfg['mode'] == 'type-other':
            kw = {'type': 'marker' if cfg['type'] != 'marker' else 'text'}
            h.acc = [False]
        return [h.m], kw

    def ensures(self, h, cfg, a, r):
        import mido.midifiles.meta as MM
        ra = attrs_of(r)
        out = {'class': cls_of(r) is MM.MetaMessage, 'fresh-object': r is not h.m,
               'attribute-dict-not-shared': ra is not attrs_of(h.m)}
        for i, c in enumerate(h.acc):
            out['accepted-only-if-documented.%d' % i] = c
        out['attribute-set'] = set(ra.keys()) == set(h.attrs0.keys())
        if out['attribute-set']:
            for k in ra:
                if k in h.given:
                    out[k + '-overridden'] = same_value(ra[k], h.given[k])
                else:
                    out[k + '-kept'] = same_value(ra[k], h.attrs0[k])
        return out

    def rejected(self, h, cfg, a, pr):
        parts = [Not(c) if not isinstance(c, All) else Ex(c.lo, c.hi, lambda k, c=c: Not(c.f(k))) for c in h.acc]
        if not parts:
            return False
        return AnyOf(parts)

    def frame(self, h, cfg, a):
        return {'original-unchanged': unchanged(attrs_of(h.m), h.attrs0)}


from .c_meta import SSC as _SSC, _SeqSpecCheckLoop as _SSCL      # noqa: E402
MetaCopy.loops = {_SSC: _SSCL()}


# ====================================================================== copy() of a FROZEN message
_FCOPY = Harness('''
    def do(m, kw):
        return m.copy(**kw)
''')


@contract
class FrozenCopy(Contract):
    """copy() on a frozen message (the track helpers copy every message they touch): a message of the matching - frozen -
    class, equal to the original except for the overrides, a new object; no exception, original unchanged"""
    key = 'C15.copy-of-a-frozen-message'
    target = 'mido.messages.messages:Message.copy'
    properties = ('C15',)
    configs = tuple({'kind': k, 'override': o} for k in KINDS if not k.endswith('[list]') for o in ('none', 'time', 'time-skip-checks'))
    use = ('mido.messages.checks:check_data',)
    raises = {}

    def callee(self, h, cfg):
        return _FCOPY.get(h)

    def inputs(self, h, cfg):
        h.m, h.attrs0 = make_msg(h, cfg['kind'], True)
        kw = {}
        if cfg['override'] != 'none':
            h.new_time = h.real('new_time')
            kw['time'] = h.new_time
        if cfg['override'] == 'time-skip-checks':
            kw['skip_checks'] = True
        return [h.m, kw], {}

    def ensures(self, h, cfg, a, r):
        want = dict(h.attrs0)
        if cfg['override'] != 'none':
            want['time'] = h.new_time
        return {'matching-frozen-class': cls_of(r) is expected_class(cfg['kind'], True),
                'fresh-object': r is not h.m and attrs_of(r) is not attrs_of(h.m),
                'equal-to-the-original-with-the-overrides': equal_state(attrs_of(r), want)}

    def frame(self, h, cfg, a):
        return {'original-unchanged': unchanged(attrs_of(h.m), h.attrs0)}


from .c_meta import SSC as _SSC3, _SeqSpecCheckLoop as _SSCL3      # noqa: E402
FrozenCopy.loops = {_SSC3: _SSCL3()}
