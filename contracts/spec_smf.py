"""Standard MIDI File 1.0 specification pieces used as oracle (C07, C08, C09): variable-length quantities.

A VLQ is the base-128 representation of a non-negative integer, most significant digit first, bit 7 set on
every byte but the last.  The *canonical* (minimal) VLQ has no leading zero digit.

Spec functions (symbolic mode: uninterpreted z3 functions + definitional unfoldings supplied as hints):
    HI(n, j)   = n div 128**j                      HI(n, 0) = n,  HI(n, j+1) = HI(n, j) div 128
    VV(s, i)   = value of the first i bytes of s    VV(s, 0) = 0,  VV(s, i+1) = VV(s, i) * 128 + s[i] mod 128
"""
from pyvc.dsl import And, Or, Not, Implies, Ite, All, Ex, eq, at, length, is_z, imod, idiv

try:
    import z3
    IntSeq = z3.SeqSort(z3.IntSort())
    HI = z3.Function('HI', z3.IntSort(), z3.IntSort(), z3.IntSort())
    VV = z3.Function('VV', IntSeq, z3.IntSort(), z3.IntSort())
except ImportError:
    z3 = None


def vlq_py(n):
    """canonical VLQ of n >= 0 (reference implementation, written from the SMF specification)"""
    out = [n % 128]
    n //= 128
    while n:
        out.insert(0, 128 + n % 128)
        n //= 128
    return out


def vlq_value_py(bs):
    v = 0
    for b in bs:
        v = v * 128 + (b % 128)
    return v


def unfold_hi(n, j):
    return [HI(n, z3.IntVal(0)) == n, z3.Implies(j >= 0, HI(n, j + 1) == HI(n, j) / 128)]


def unfold_vv(s, i):
    return [VV(s, z3.IntVal(0)) == 0, z3.Implies(z3.And(i >= 0, i < z3.Length(s)), VV(s, i + 1) == VV(s, i) * 128 + s[i] % 128)]


def canonical_vlq(r, n):
    """clauses: r is the canonical VLQ of n  (pointwise characterisation through HI)"""
    if not is_z(r) and not is_z(n):
        return [list(r) == vlq_py(n)] if isinstance(n, int) and n >= 0 else [False]
    L = z3.Length(r)
    return [n >= 0, L >= 1, HI(n, L) == 0, z3.Implies(L > 1, HI(n, L - 1) != 0),
            All(0, L, lambda k: r[k] == HI(n, L - 1 - k) % 128 + z3.If(k < L - 1, 128, 0))]


def is_vlq_shape(s):
    """clauses: every byte but the last has bit 7 set, the last one does not, all are bytes"""
    if not is_z(s):
        s = list(s)
        return [len(s) >= 1 and all(128 <= b <= 255 for b in s[:-1]) and 0 <= s[-1] <= 127]
    L = z3.Length(s)
    return [L >= 1, And(0 <= s[L - 1], s[L - 1] <= 127), All(0, L - 1, lambda k: And(128 <= s[k], s[k] <= 255))]
