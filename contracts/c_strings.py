"""C14 — dict round trip (proved) ; text/repr round trips and parser exceptions are bounded stand-ins (b_strings.py)."""
from pyvc.contract import Contract, contract, V, attrs_of, cls_of, Harness
from pyvc.dsl import And, eq
from . import spec_midi as S
from . import spec_meta as M

try:
    import z3
except ImportError:
    z3 = None

_DICT_RT = Harness('''
    def dict_roundtrip(cls, m):
        d = m.dict()
        return (cls.from_dict(d) == m, d)
''')


@contract
class MessageDictRoundTrip(Contract):
    key = 'C14.from_dict(dict(m))==m'
    target = 'mido.messages.messages:BaseMessage.dict'
    properties = ('C14', 'C03')      # C03: the exported dictionary is a copy - editing it cannot change the message behind the checks
    configs = tuple({'type': t, 'time': tm} for t in S.ALL_TYPES for tm in ('int', 'real'))
    use = ('mido.messages.checks:check_data',)
    raises = {}

    def callee(self, h, cfg):
        return _DICT_RT.get(h)

    def inputs(self, h, cfg):
        import mido.messages.messages as MS
        from .c_messages import msg_obj
        h.m = msg_obj(h, cfg['type'], time=cfg['time'])
        return [MS.Message, h.m], {}

    def ensures(self, h, cfg, a, r):
        ok, d = r
        out = {'equal-to-original': eq(V(ok), True), 'dict-keys': set(d.keys()) == set(h.attrs0.keys()),
               'dict-is-a-copy': d is not attrs_of(h.m)}
        if cfg['type'] == 'sysex':
            out['sysex-data-as-list'] = cls_of(d['data']) is list
        return out


@contract
class MetaDictRoundTrip(Contract):
    key = 'C14.meta.from_dict(dict(m))==m'
    target = 'mido.messages.messages:BaseMessage.from_dict'
    properties = ('C14',)
    configs = tuple({'type': t} for t in M.ALL_META if t != 'time_signature') + ({'type': 'time_signature', 'exp': 3},)
    raises = {}

    def callee(self, h, cfg):
        return _DICT_RT.get(h)

    def inputs(self, h, cfg):
        import mido.midifiles.meta as MM
        from .c_meta import valid_meta
        h.cfg = dict(cfg)
        h.m = valid_meta(h, cfg['type'])
        return [MM.MetaMessage, h.m], {}

    def ensures(self, h, cfg, a, r):
        ok, d = r
        return {'equal-to-original': eq(V(ok), True), 'dict-is-a-copy': d is not attrs_of(h.m)}


from .c_meta import SSC as _SSC, _SeqSpecCheckLoop as _SSCL      # noqa: E402
MetaDictRoundTrip.loops = {_SSC: _SSCL()}
