"""Contracts for mido/midifiles/tracks.py  (C12; fix_end_of_track is shared with C07/C08).

Tracks are sequences of messages of unknown length (pyvc.msgs: z3 datatype Msg(kind, type, time, pay)).
Spec functions over a track s (uninterpreted, with the recursive definitions below supplied as unfolding hints):

  PS(s, i)  = sum of the delta times of s[:i]                               PS(s,0)=0, PS(s,i+1)=PS(s,i)+time(s[i])
  FO(s, i)  = what fix_end_of_track has yielded after consuming s[:i]       FO(s,0)=[]
  FA(s, i)  = delta time accumulated from removed end_of_track messages      FA(s,0)=0
      s[i] is end_of_track :  FO(s,i+1)=FO(s,i),                                   FA(s,i+1)=FA(s,i)+time(s[i])
      otherwise            :  FO(s,i+1)=FO(s,i) ++ [s[i] with time FA(s,i)+time(s[i])], FA(s,i+1)=0
These are the statements of C07/C12 ("exactly one end_of_track that carries any trailing delta", "every event keeps
its absolute time") written as a fold; lemmas about them are in l_tracks.py.
"""
from pyvc.contract import Contract, contract, LoopSpec, V, attrs_of, cls_of, Harness, raw_function
from pyvc.dsl import And, Or, Not, Implies, All, Ex, eq, length, is_z

try:
    import z3
    from pyvc.values import SInt, SBool, SSeq, Cell, Obj, PyRaise, Unsupported
    from pyvc.msgs import MSG_I, SMsg
except ImportError:
    z3 = None

T = 'mido.midifiles.tracks:'


def spec_fns():
    ek = MSG_I()
    if not hasattr(ek, 'PS'):
        SQ = ek.seqsort
        ek.PS = z3.Function('PS', SQ, z3.IntSort(), z3.IntSort())
        ek.FO = z3.Function('FO', SQ, z3.IntSort(), SQ)
        ek.FA = z3.Function('FA', SQ, z3.IntSort(), z3.IntSort())
    return ek


def unfold_ps(ek, s, i):
    return [ek.PS(s, z3.IntVal(0)) == 0,
            z3.Implies(z3.And(i >= 0, i < z3.Length(s)), ek.PS(s, i + 1) == ek.PS(s, i) + ek.time(s[i]))]


def unfold_fix(ek, s, i):
    m = s[i]
    step = z3.And(
        z3.Implies(ek.is_eot(m), z3.And(ek.FO(s, i + 1) == ek.FO(s, i), ek.FA(s, i + 1) == ek.FA(s, i) + ek.time(m))),
        z3.Implies(z3.Not(ek.is_eot(m)),
                   z3.And(ek.FO(s, i + 1) == z3.Concat(ek.FO(s, i), z3.Unit(ek.retime(m, ek.FA(s, i) + ek.time(m)))),
                          ek.FA(s, i + 1) == 0)))
    return [ek.FO(s, z3.IntVal(0)) == z3.Empty(ek.seqsort), ek.FA(s, z3.IntVal(0)) == 0,
            z3.Implies(z3.And(i >= 0, i < z3.Length(s)), step)]


def eot(ek, t):
    return ek.mk(z3.IntVal(1), 'end_of_track', t, z3.IntVal(0))


# ---------------------------------------------------------------- reference implementations (concrete side)
def key_of(m):
    a = dict(vars(m))
    a.pop('time', None)
    return (type(m).__name__, tuple(sorted((k, repr(v)) for k, v in a.items())))


def ref_fix(msgs):
    out, acc = [], 0
    for m in msgs:
        if m.type == 'end_of_track':
            acc += m.time
        else:
            out.append((key_of(m), acc + m.time))
            acc = 0
    import mido
    out.append((key_of(mido.MetaMessage('end_of_track')), acc))
    return out


def view_msgs(ms):
    return [(key_of(m), m.time) for m in ms]


# ====================================================================== generators: ghost output + loop invariants
class _GenLoop(LoopSpec):
    """common part: ghost `out` = sequence yielded so far (kept on ctx.ghost_out for the postcondition)"""
    header = 'messages'

    def enter(self, ip, fr, seqv):
        st = LoopSpec.enter(self, ip, fr, seqv)
        st.ek = seqv.ek
        st.out = z3.Empty(seqv.ek.seqsort)
        ip.ctx.__dict__['ghost_out'] = st
        return st

    def havoc(self, ip, fr, st):
        st.out = ip.ctx.fresh('yielded', st.ek.seqsort)
        self.havoc_vars(ip, fr, st)

    def step(self, ip, fr, st):
        for y in st.yields:
            st.out = z3.Concat(st.out, z3.Unit(st.ek.unwrap(y)))


class _AbsLoop(_GenLoop):
    def havoc_vars(self, ip, fr, st):
        fr.env['now'] = SInt(ip.ctx.fresh('now'))

    def hints(self, ip, fr, st, phase):
        ek = spec_fns()
        return unfold_ps(ek, st.seq, st.i - 1) + unfold_ps(ek, st.seq, st.i)

    def inv(self, ip, fr, st):
        ek = spec_fns()
        s, i, out = st.seq, st.i, st.out
        return [V(fr.env['now']) == ek.PS(s, i), z3.Length(out) == i,
                All(0, i, lambda k: out[k] == ek.retime(s[k], ek.PS(s, k + 1)))]


class _RelLoop(_GenLoop):
    def havoc_vars(self, ip, fr, st):
        fr.env['now'] = SInt(ip.ctx.fresh('now'))

    def inv(self, ip, fr, st):
        ek = st.ek
        s, i, out = st.seq, st.i, st.out
        prev = lambda k: z3.If(k == 0, z3.IntVal(0), ek.time(s[k - 1]))
        return [V(fr.env['now']) == prev(i), z3.Length(out) == i,
                All(0, i, lambda k: out[k] == ek.retime(s[k], ek.time(s[k]) - prev(k)))]


class _FixLoop(_GenLoop):
    def havoc_vars(self, ip, fr, st):
        fr.env['accum'] = SInt(ip.ctx.fresh('accum'))

    def hints(self, ip, fr, st, phase):
        ek = spec_fns()
        return unfold_fix(ek, st.seq, st.i - 1) + unfold_fix(ek, st.seq, st.i)

    def inv(self, ip, fr, st):
        ek = spec_fns()
        s, i, out = st.seq, st.i, st.out
        return [st.out == ek.FO(s, i), V(fr.env['accum']) == ek.FA(s, i)]


def ghost_yielded(h, r):
    """everything the generator yielded on this path: ghost prefix (arbitrary iterations) ++ what came after the loop"""
    st = h.ctx.__dict__.get('ghost_out')
    ek = MSG_I()
    tail = [ek.unwrap(y) for y in r]
    base = st.out if st is not None else z3.Empty(ek.seqsort)
    if tail:
        return z3.Concat(base, *[z3.Unit(t) for t in tail])
    return base


class _TrackFn(Contract):
    properties = ('C12', 'C13')      # C13: iteration / length / play are computed from the merged track
    collect = True
    raises = {}
    configs = ({'skip_checks': False}, {'skip_checks': True})

    def inputs(self, h, cfg):
        h.track = h.msg_seq('track')
        if not h.sym:
            h.before = view_msgs(h.track)
        return [h.track], {'skip_checks': cfg['skip_checks']}

    def frame(self, h, cfg, a):
        if h.sym:
            # no heap write at all is performed (the messages of the input are only read; copies are fresh)
            return {'inputs-not-modified': len([e for e in h.ctx.log if e[0] == 'write']) == 0}
        return {'inputs-not-modified': view_msgs(h.track) == h.before}


@contract
class ToAbstime(_TrackFn):
    target = T + '_to_abstime'
    loops = {(T + '_to_abstime', 0): _AbsLoop()}

    def ensures(self, h, cfg, a, r):
        if not h.sym:
            want, now = [], 0
            for m in h.track:
                now += m.time
                want.append((key_of(m), now))
            return {'each-message-at-its-absolute-time': view_msgs(r) == want}
        ek = spec_fns()
        s = V(h.track)
        y = ghost_yielded(h, r)
        n = z3.Length(s)
        return {'length': z3.Length(y) == n,
                'each-message-at-its-absolute-time': All(0, n, lambda k: y[k] == ek.retime(s[k], ek.PS(s, k + 1)))}

    def call_site(self, ip, fn, args, kwargs):
        ek = spec_fns()
        s = args[0]
        sv = s.v if isinstance(s, Cell) else s
        if not (isinstance(sv, SSeq) and sv.ek is ek):
            return ip.call_repo(fn, args, kwargs)
        y = ip.ctx.fresh('abstime', ek.seqsort)
        n = z3.Length(sv.e)
        ip.ctx.assume([z3.Length(y) == n, All(0, n, lambda k: y[k] == ek.retime(sv.e[k], ek.PS(sv.e, k + 1)))])
        ip.ctx.__dict__.setdefault('trace', []).append(('abstime', sv.e, y, kwargs.get('skip_checks', args[1] if len(args) > 1 else False)))
        return SSeq(y, tuple, ek)


@contract
class ToReltime(_TrackFn):
    target = T + '_to_reltime'
    loops = {(T + '_to_reltime', 0): _RelLoop()}

    def ensures(self, h, cfg, a, r):
        if not h.sym:
            want, prev = [], 0
            for m in h.track:
                want.append((key_of(m), m.time - prev))
                prev = m.time
            return {'each-message-at-the-difference-to-its-predecessor': view_msgs(r) == want}
        ek = MSG_I()
        s = V(h.track)
        y = ghost_yielded(h, r)
        n = z3.Length(s)
        prev = lambda k: z3.If(k == 0, z3.IntVal(0), ek.time(s[k - 1]))
        return {'length': z3.Length(y) == n,
                'each-message-at-the-difference-to-its-predecessor': All(0, n, lambda k: y[k] == ek.retime(s[k], ek.time(s[k]) - prev(k)))}

    def call_site(self, ip, fn, args, kwargs):
        ek = spec_fns()
        s = args[0]
        sv = s.v if isinstance(s, Cell) else s
        if not (isinstance(sv, SSeq) and sv.ek is ek):
            return ip.call_repo(fn, args, kwargs)
        y = ip.ctx.fresh('reltime', ek.seqsort)
        n = z3.Length(sv.e)
        prev = lambda k: z3.If(k == 0, z3.IntVal(0), ek.time(sv.e[k - 1]))
        ip.ctx.assume([z3.Length(y) == n, All(0, n, lambda k: y[k] == ek.retime(sv.e[k], ek.time(sv.e[k]) - prev(k)))])
        ip.ctx.__dict__.setdefault('trace', []).append(('reltime', sv.e, y, kwargs.get('skip_checks', args[1] if len(args) > 1 else False)))
        return SSeq(y, tuple, ek)


@contract
class FixEndOfTrack(_TrackFn):
    target = T + 'fix_end_of_track'
    properties = ('C12', 'C07', 'C08', 'C16', 'C13')
    loops = {(T + 'fix_end_of_track', 0): _FixLoop()}

    def ensures(self, h, cfg, a, r):
        import mido.midifiles.tracks as TR
        if not h.sym:
            again = list(TR.fix_end_of_track(list(h.track), skip_checks=cfg['skip_checks']))
            return {'non-eot-messages-with-carried-deltas-then-one-eot': view_msgs(r) == ref_fix(h.track),
                    'closing-end_of_track-is-a-new-message-on-every-call (never a shared object)': list(r)[-1] is not again[-1]}
        ek = spec_fns()
        s = V(h.track)
        # a yielded value that is neither taken from the track nor built during this call is a pre-existing (module-level)
        # object: every caller would share it, and an edit of one merged track would show up in all others
        native = [y_ for y_ in r if not isinstance(y_, (SMsg, Obj))]
        out = {'every-yielded-message-comes-from-the-track-or-is-new (no shared module-level object)': not native}
        if native:
            return out
        y = ghost_yielded(h, r)
        n = z3.Length(s)
        out['non-eot-messages-with-carried-deltas-then-one-eot'] = y == z3.Concat(ek.FO(s, n), z3.Unit(eot(ek, ek.FA(s, n))))
        return out

    def call_site(self, ip, fn, args, kwargs):
        ek = spec_fns()
        s = args[0]
        sv = s.v if isinstance(s, Cell) else s
        if not (isinstance(sv, SSeq) and sv.ek is ek):
            return ip.call_repo(fn, args, kwargs)
        n = z3.Length(sv.e)
        y = z3.Concat(ek.FO(sv.e, n), z3.Unit(eot(ek, ek.FA(sv.e, n))))
        ip.ctx.__dict__.setdefault('trace', []).append(('fix', sv.e, y, kwargs.get('skip_checks', args[1] if len(args) > 1 else False)))
        return SSeq(y, tuple, ek)

    def samples(self, cfg):
        def m(kind, typ, time, pay):
            return dict(kind=kind, type=typ, time=time, pay=pay)
        E = lambda t: m(1, 'end_of_track', t, 0)
        N = lambda t, p=1: m(0, 'note_on', t, p)
        return [{'track': tr} for tr in ([], [E(0)], [E(5)], [N(1), E(2)], [E(3), N(4)], [N(1), E(2), E(3), N(4, 2), E(5), E(6)],
                                         [E(1), E(2), E(3)], [N(0), N(0, 2), m(1, 'text', 7, 3), E(0), m(2, 'unknown_meta', 1, 9)])]


# ====================================================================== merge_tracks
def ref_merge(tracks):
    """reference for the concrete side: absolute times, stable sort, drop end_of_track, deltas, one final end_of_track"""
    evs = []
    for ti, tr in enumerate(tracks):
        now = 0
        for mi, m in enumerate(tr):
            now += m.time
            evs.append((now, ti, mi, m))
    evs.sort(key=lambda e: e[0])                      # Python's sort is stable: ties stay in track order, then in-track order
    out, prev, last = [], 0, 0
    for (t, ti, mi, m) in evs:
        last = t
        if m.type == 'end_of_track':
            continue
        out.append((key_of(m), t - prev))
        prev = t
    import mido
    out.append((key_of(mido.MetaMessage('end_of_track')), last - prev))
    return out


@contract
class MergeTracks(Contract):
    """merge_tracks is the composition  fix_end_of_track . _to_reltime . stable-sort-by-time . concat(_to_abstime(track_t)),
    checked against the callee contracts (each proved above) and the assumed contract of list.sort; the input tracks and
    messages are not written.  The user-level consequences follow by the lemmas of l_tracks.py."""
    target = T + 'merge_tracks'
    properties = ('C12', 'C13')
    configs = tuple({'ntracks': n, 'skip_checks': sc} for n in (0, 1, 2, 3) for sc in (False, True))
    use = (T + '_to_abstime', T + '_to_reltime', T + 'fix_end_of_track')
    raises = {}

    def inputs(self, h, cfg):
        h.tracks = [h.msg_seq('track%d' % i) for i in range(cfg['ntracks'])]
        if h.sym:
            for tr in h.tracks:
                e = V(tr)
                ek = spec_fns()
                h.assume(All(0, length(e), lambda k, e=e: ek.time(e[k]) >= 0))
        else:
            if any(m.time < 0 for tr in h.tracks for m in tr):
                from pyvc.contract import PreconditionFailed
                raise PreconditionFailed()
            h.before = [view_msgs(tr) for tr in h.tracks]
        return [list(h.tracks)], {'skip_checks': cfg['skip_checks']}

    def ensures(self, h, cfg, a, r):
        import mido.midifiles.tracks as TR
        out = {'is-MidiTrack': cls_of(r) is TR.MidiTrack}
        if not h.sym:
            out['events-at-their-absolute-times-in-stable-order-then-one-eot'] = view_msgs(r) == ref_merge(h.tracks)
            return out
        ek = spec_fns()
        tr = h.ctx.__dict__.get('trace', [])
        kinds = [t[0] for t in tr]
        n = cfg['ntracks']
        if n == 0:
            items = r.items if hasattr(r, 'items') else list(r)
            out['only-an-end_of_track-at-time-0'] = len(items) == 1 and attrs_of(items[0]).get('type') == 'end_of_track' \
                and eq(V(attrs_of(items[0])['time']), 0)
            return out
        out['pipeline-shape'] = kinds == ['abstime'] * n + ['sort', 'reltime', 'fix']
        if not out['pipeline-shape']:
            return out
        for i in range(n):
            out['abstime-of-track-%d' % i] = tr[i][1] == V(h.tracks[i])
        cat = z3.Concat(*[t[2] for t in tr[:n]]) if n > 1 else (tr[0][2] if n == 1 else z3.Empty(ek.seqsort))
        out['all-tracks-concatenated-in-track-order-then-sorted'] = tr[n][1] == cat
        key = tr[n][3]
        out['sorted-by-time'] = key is not None
        if key is not None:
            probe = z3.Const('probe_msg', ek.D)
            kv = h.ctx.ip.call(key, [SMsg(probe, ek)], {})
            # the key must be the absolute time ALONE: with the (assumed) stable sort that is what keeps ties in
            # track order and then in-track order; any further key component reorders simultaneous events
            out['sorted-by-time'] = (not isinstance(kv, (tuple, list))) and V(kv) == ek.time(probe)
        out['deltas-of-the-sorted-list'] = tr[n + 1][1] == tr[n][2]
        out['end-of-track-fixed-last'] = tr[n + 2][1] == tr[n + 1][2]
        out['result-is-the-fixed-sequence'] = V(r) == tr[n + 2][2]
        out['skip_checks-passed-on'] = all((t[3] is cfg['skip_checks']) for t in tr if t[0] != 'sort')
        return out

    def frame(self, h, cfg, a):
        if h.sym:
            return {'inputs-not-modified': len([e for e in h.ctx.log if e[0] == 'write']) == 0}
        return {'inputs-not-modified': [view_msgs(t) for t in h.tracks] == h.before}

    def samples(self, cfg):
        def m(kind, typ, time, pay):
            return dict(kind=kind, type=typ, time=time, pay=pay)
        E = lambda t: m(1, 'end_of_track', t, 0)
        N = lambda t, p=1: m(0, 'note_on', t, p)
        T = lambda t, p: m(1, 'set_tempo', t, p)
        pool = [[], [E(0)], [N(1), E(2)], [N(0, 2), N(5, 3), E(1), N(2, 4)], [E(7)], [N(3, 5), N(0, 6), N(3, 7)], [m(1, 'text', 3, 8), E(0), E(4)],
                [N(1, 9), T(0, 600000), N(0, 10), T(5, 400000), E(0)], [T(1, 300000), N(0, 11), m(1, 'text', 0, 12), T(0, 700000)]]
        out = []
        import itertools
        for combo in itertools.product(pool, repeat=cfg['ntracks']):
            out.append({'track%d' % i: t for i, t in enumerate(combo)})
        # ties between different kinds of messages at one tick (same track and across tracks) come first
        out.sort(key=lambda d: -sum(1 for t in d.values() for x in t if x['type'] == 'set_tempo'))
        return out[:80]
