"""Bounded stand-ins for C07/C08 at whole-file level, with an INDEPENDENT reference SMF codec (written from the SMF 1.0
specification, no mido code): run on the real code under /venv/bin/python; never counted as proved.

The proofs cover the reader primitives, the event-loop dispatch of read_track, the writer on all pairs of events, the meta
codec and the message codec; what they do not cover end-to-end is the composition  load . save  over whole files.
"""
import io
import random
import contextlib

from pyvc.contract import bounded
from . import spec_midi as S
from . import spec_meta as M
from .spec_smf import vlq_py, vlq_value_py

CH_TYPES = [t for t, i in S.TYPES.items() if i['channel']]
SYSCOM = ['quarter_frame', 'songpos', 'song_select', 'tune_request']
BOUNDARY_TIMES = [0, 1, 127, 128, 16383, 16384, 2097151, 2097152, 268435455]
BOUNDARY_LENS = [0, 1, 127, 128, 129, 16383, 16384]


# ---------------------------------------------------------------- abstract events <-> mido objects
def rand_event(rng, small=False):
    """abstract event: dict(kind, ...) independent of mido"""
    r = rng.random()
    t = rng.choice(BOUNDARY_TIMES) if rng.random() < 0.3 else rng.randrange(0, 1000)
    if r < 0.55:
        typ = rng.choice(CH_TYPES + SYSCOM)
        attrs = {}
        for nm in S.TYPES[typ]['names']:
            lo, hi = S.RANGES[nm]
            attrs[nm] = rng.choice([lo, hi, rng.randint(lo, hi)])
        if rng.random() < 0.5 and 'channel' in attrs:
            attrs['channel'] = 3          # provoke running status
        return dict(kind='msg', type=typ, attrs=attrs, time=t)
    if r < 0.65:
        n = rng.choice(BOUNDARY_LENS[:5] if small else BOUNDARY_LENS) if rng.random() < 0.5 else rng.randrange(0, 20)
        return dict(kind='sysex', data=[rng.randrange(128) for _ in range(n)], time=t)
    if r < 0.9:
        mt = rng.choice([m for m in M.ALL_META if m != 'end_of_track'])
        attrs = {}
        for (nm, kind, lo, hi, dflt) in M.META[mt][1]:
            if kind == 'int':
                attrs[nm] = rng.choice([lo, hi, rng.randint(lo, hi)])
                if mt == 'smpte_offset' and nm == 'hours':
                    attrs[nm] = rng.randint(0, 31)         # known finding K1: hours >= 32 do not round-trip
            elif kind == 'text':
                n = rng.choice(BOUNDARY_LENS[:5] if small else BOUNDARY_LENS) if rng.random() < 0.3 else rng.randrange(0, 12)
                attrs[nm] = ''.join(rng.choice('abc é~') for _ in range(n))
            elif kind == 'rate':
                attrs[nm] = rng.choice([24, 25, 29.97, 30])
            elif kind == 'key':
                attrs[nm] = rng.choice(sorted(M.KEYS))
            elif kind == 'pow2':
                attrs[nm] = 2 ** rng.choice([0, 1, 2, 3, 7, 8, 29, 255])
            elif kind == 'bytes':
                attrs[nm] = tuple(rng.randrange(256) for _ in range(rng.choice([0, 1, 127, 128, 5])))      # tuple: K4
        return dict(kind='meta', type=mt, attrs=attrs, time=t)
    if r < 0.97:
        return dict(kind='unknown', type_byte=rng.choice([0x0A, 0x10, 0x60, 0x7E]), data=tuple(rng.randrange(256) for _ in range(rng.choice([0, 3, 128]))), time=t)
    return dict(kind='meta', type='end_of_track', attrs={}, time=t)


def to_mido(ev):
    import mido
    if ev['kind'] == 'msg':
        return mido.Message(ev['type'], time=ev['time'], **ev['attrs'])
    if ev['kind'] == 'sysex':
        return mido.Message('sysex', data=ev['data'], time=ev['time'])
    if ev['kind'] == 'meta':
        return mido.MetaMessage(ev['type'], time=ev['time'], **ev['attrs'])
    return mido.UnknownMetaMessage(ev['type_byte'], ev['data'], time=ev['time'])


def from_mido(m):
    import mido
    if isinstance(m, mido.UnknownMetaMessage):
        return dict(kind='unknown', type_byte=m.type_byte, data=tuple(m.data), time=m.time)
    if isinstance(m, mido.MetaMessage):
        a = {k: v for k, v in vars(m).items() if k not in ('type', 'time')}
        if 'data' in a:
            a['data'] = tuple(a['data'])
        return dict(kind='meta', type=m.type, attrs=a, time=m.time)
    if m.type == 'sysex':
        return dict(kind='sysex', data=list(m.data), time=m.time)
    return dict(kind='msg', type=m.type, attrs={k: v for k, v in vars(m).items() if k not in ('type', 'time')}, time=m.time)


def fix_ref(evs):
    out, acc = [], 0
    for e in evs:
        if e['kind'] == 'meta' and e['type'] == 'end_of_track':
            acc += e['time']
        else:
            out.append(dict(e, time=e['time'] + acc))
            acc = 0
    out.append(dict(kind='meta', type='end_of_track', attrs={}, time=acc))
    return out


# ---------------------------------------------------------------- reference encoder (with the legal alternatives) / decoder
def event_body(ev, charset='latin1'):
    """(status, data bytes) for messages; full body for meta / sysex"""
    if ev['kind'] == 'msg':
        b = list(S.spec_encode(ev['type'], ev['attrs']))
        return 'chan', b
    if ev['kind'] == 'sysex':
        return 'sysex', list(ev['data'])
    if ev['kind'] == 'unknown':
        return 'meta', (ev['type_byte'], list(ev['data']))
    pl = list(M.payload(ev['type'], ev['attrs'], lambda s: tuple(s.encode(charset))))
    return 'meta', (M.META[ev['type']][0], pl)


def pad_vlq(n, pad):
    return [0x80] * pad + vlq_py(n)


def encode_track_ref(evs, rng=None, canonical=True):
    """canonical=True: the encoding save() must produce; otherwise a random legal alternative (running status used or not
    wherever legal, VLQs padded with leading 0x80)"""
    out, rs = [], None
    for ev in evs:
        pad = 0 if canonical else rng.choice([0, 0, 1, 2])
        out += pad_vlq(ev['time'], pad)
        kind, body = event_body(ev)
        if kind == 'chan':
            st = body[0]
            may = rs is not None and st == rs and st < 0xF0
            use = may if canonical else (may and rng.random() < 0.5)
            out += body[1:] if use else body
            rs = st if st < 0xF0 else None
        elif kind == 'sysex':
            pad2 = 0 if canonical else rng.choice([0, 1])
            out += [0xF0] + pad_vlq(len(body) + 1, pad2) + body + [0xF7]
            rs = None
        else:
            tb, pl = body
            pad2 = 0 if canonical else rng.choice([0, 1])
            out += [0xFF, tb] + pad_vlq(len(pl), pad2) + pl
            rs = None
    return out


def encode_file_ref(typ, tpb, tracks, rng=None, canonical=True, header_extra=0):
    hdr = [typ >> 8, typ & 255, len(tracks) >> 8, len(tracks) & 255, tpb >> 8, tpb & 255] + [0x5A] * header_extra
    out = list(b'MThd') + list((len(hdr)).to_bytes(4, 'big')) + hdr
    for tr in tracks:
        d = encode_track_ref(tr, rng, canonical)
        out += list(b'MTrk') + list(len(d).to_bytes(4, 'big')) + d
    return bytes(out)


class RefError(Exception):
    pass


def decode_file_ref(data):
    """strict reference decoder: returns (type, tpb, [tracks of abstract events], notes) and checks canonical form"""
    pos = 0
    notes = []
    if data[:4] != b'MThd':
        raise RefError('no MThd')
    hl = int.from_bytes(data[4:8], 'big')
    typ, ntr, tpb = (int.from_bytes(data[8 + 2 * i:10 + 2 * i], 'big') for i in range(3))
    pos = 8 + hl
    tracks = []
    for _ in range(ntr):
        if data[pos:pos + 4] != b'MTrk':
            raise RefError('no MTrk at %d' % pos)
        ln = int.from_bytes(data[pos + 4:pos + 8], 'big')
        p, end = pos + 8, pos + 8 + ln
        evs, rs = [], None

        def vlq():
            nonlocal p
            start = p
            while data[p] & 0x80:
                p += 1
            p += 1
            raw = list(data[start:p])
            v = vlq_value_py(raw)
            if raw != vlq_py(v):
                notes.append('non-minimal VLQ at %d' % start)
            return v
        while p < end:
            dt = vlq()
            b = data[p]
            if b == 0xFF:
                tb = data[p + 1]
                p += 2
                n = vlq()
                pl = list(data[p:p + n])
                p += n
                evs.append(('meta', tb, pl, dt))
                rs = None
            elif b == 0xF0:
                p += 1
                n = vlq()
                body = list(data[p:p + n])
                p += n
                if not body or body[-1] != 0xF7:
                    notes.append('sysex without F7')
                evs.append(('sysex', body[:-1], dt))
                rs = None
            else:
                if b < 0x80:
                    if rs is None:
                        raise RefError('running status without status at %d' % p)
                    st = rs
                else:
                    st = b
                    p += 1
                    if rs is not None and st == rs and st < 0xF0:
                        notes.append('running status not used at %d' % p)
                ln_ = S.status_len(st)
                if ln_ < 1:
                    raise RefError('bad status %x' % st)
                body = [st] + list(data[p:p + ln_ - 1])
                p += ln_ - 1
                evs.append(('chan', body, dt))
                rs = st if st < 0xF0 else None
        if p != end:
            raise RefError('chunk length mismatch')
        if not evs or evs[-1][:3] != ('meta', 0x2F, []):
            notes.append('track does not end with FF 2F 00')
        tracks.append(evs)
        pos = end
    if pos != len(data):
        notes.append('trailing bytes')
    return typ, tpb, tracks, notes


def abstract_to_ref(evs):
    out = []
    for ev in evs:
        kind, body = event_body(ev)
        if kind == 'chan':
            out.append(('chan', body, ev['time']))
        elif kind == 'sysex':
            out.append(('sysex', body, ev['time']))
        else:
            out.append(('meta', body[0], body[1], ev['time']))
    return out


def same_events(a, b):
    return a == b


def rand_file(rng, small=False):
    typ = rng.choice([0, 1, 1, 2])
    ntr = 1 if typ == 0 else rng.choice([0, 1, 2, 3])
    tracks = [[rand_event(rng, small) for _ in range(rng.randrange(0, 8))] for _ in range(ntr)]
    return typ, rng.choice([1, 96, 480, 32767]), tracks


def save_bytes(typ, tpb, tracks):
    import mido
    mf = mido.MidiFile(type=typ, ticks_per_beat=tpb, tracks=[mido.MidiTrack(to_mido(e) for e in tr) for tr in tracks])
    b = io.BytesIO()
    mf.save(file=b)
    return b.getvalue()


def load_tracks(data, **kw):
    import mido
    mf = mido.MidiFile(file=io.BytesIO(data), **kw)
    return mf.type, mf.ticks_per_beat, [[from_mido(m) for m in tr] for tr in mf.tracks]


@bounded('smf-roundtrip-and-conformance', ('C07', 'C08'),
         '400 (4000 thorough) random files: types 0-2, 0-3 tracks, up to 8 events per track drawn from all message/meta/unknown families with boundary '
         'delta times (every VLQ size) and payload lengths 0/1/127/128/129/16383/16384; canonical form checked by an independent reference decoder; '
         'alternative legal encodings (running status on/off, VLQs padded by 0..2 bytes, header chunk of 6..10 bytes) loaded with debug on/off and clip on/off')
def smf_roundtrip(tier, seed, only=None):
    rng = random.Random(seed)
    fails, n, seen = [], 0, set()
    N = 400 if tier == 'quick' else 4000
    for trial in range(N):
        typ, tpb, tracks = rand_file(rng, small=(trial % 10 != 0))
        key = repr((typ, tpb, tracks))
        seen.add(hash(key))
        want = [fix_ref(tr) for tr in tracks]
        n += 1
        try:
            data = save_bytes(typ, tpb, tracks)
            # C07: load(save(f)) has the same header and, per track, fix_end_of_track(track)
            t2, tpb2, got = load_tracks(data)
            if (t2, tpb2) != (typ, tpb) or got != want:
                fails.append(dict(clause='load(save(f)) == f with end_of_track fixed', inputs=dict(seed=seed, trial=trial), detail='%r\n!=\n%r' % (got, want)))
                continue
            # C08 write direction: independent decoder + canonical form
            rt, rtpb, rtracks, notes = decode_file_ref(data)
            if (rt, rtpb) != (typ, tpb) or rtracks != [abstract_to_ref(tr) for tr in want] or notes:
                fails.append(dict(clause='bytes written conform to SMF in canonical form', inputs=dict(seed=seed, trial=trial), detail=repr(notes)))
                continue
            if data != encode_file_ref(typ, tpb, want):
                fails.append(dict(clause='bytes written == reference canonical encoding', inputs=dict(seed=seed, trial=trial), detail=''))
                continue
            # fixed point
            if save_bytes(t2, tpb2, got) != data:
                fails.append(dict(clause='save(load(b)) == b for b written by save', inputs=dict(seed=seed, trial=trial), detail=''))
            # C08 read direction: alternative legal encodings, debug, clip
            alt = encode_file_ref(typ, tpb, want, rng, canonical=False, header_extra=rng.choice([0, 0, 1, 4]))
            a_t, a_tpb, a_got = load_tracks(alt)
            if (a_t, a_tpb, a_got) != (typ, tpb, want):
                fails.append(dict(clause='every conformant alternative encoding loads to the same events', inputs=dict(seed=seed, trial=trial, bytes=list(alt)[:400]), detail=repr(a_got)[:300]))
                continue
            buf = io.StringIO()
            with contextlib.redirect_stdout(buf):
                d_res = load_tracks(alt, debug=True)
            if d_res != (typ, tpb, want):
                fails.append(dict(clause='debug=True loads the same', inputs=dict(seed=seed, trial=trial), detail=''))
            if load_tracks(alt, clip=True) != (typ, tpb, want):
                fails.append(dict(clause='clip=True equals clip=False on valid data', inputs=dict(seed=seed, trial=trial), detail=''))
        except Exception as ex:
            fails.append(dict(clause='save/load raised on storable contents', inputs=dict(seed=seed, trial=trial, file=key[:400]), detail='%s: %s' % (type(ex).__name__, ex)))
    return dict(evaluations=n, distinct_nontrivial=len(seen), failures=fails[:20])


@bounded('smf-refusals-clip-and-fixed-point', ('C07', 'C08'),
         'refusals: each real-time type / negative / float time at each position of a 3-event track, type 0 with 0/2/3 tracks; clip: every data byte of a '
         'valid file raised above 127 one at a time; fixed point: 600 (6000 thorough) single-byte mutations of valid files')
def smf_refusals(tier, seed, only=None):
    import mido
    rng = random.Random(seed)
    fails, n, seen = [], 0, set()
    base = [dict(kind='msg', type='note_on', attrs=dict(channel=1, note=60, velocity=64), time=10),
            dict(kind='msg', type='note_on', attrs=dict(channel=1, note=62, velocity=0), time=20),
            dict(kind='meta', type='set_tempo', attrs=dict(tempo=400000), time=0)]
    for pos in range(3):
        for bad in list(S.REALTIME_TYPES) + ['negative', 'float']:
            msgs = [to_mido(e) for e in base]
            if bad == 'negative':
                msgs[pos] = msgs[pos].copy(time=-1)
            elif bad == 'float':
                msgs[pos] = msgs[pos].copy(time=1.5)
            else:
                msgs[pos] = mido.Message(bad, time=1)
            n += 1
            seen.add((pos, bad))
            b = io.BytesIO()
            try:
                mido.MidiFile(type=1, tracks=[mido.MidiTrack(msgs)]).save(file=b)
                fails.append(dict(clause='unstorable contents are refused with ValueError', inputs=dict(position=pos, bad=bad), detail='saved %d bytes' % len(b.getvalue())))
            except ValueError:
                pass
            except Exception as ex:
                fails.append(dict(clause='unstorable contents are refused with ValueError', inputs=dict(position=pos, bad=bad), detail=repr(ex)))
    for ntr in (0, 2, 3):
        n += 1
        try:
            mido.MidiFile(type=0, tracks=[mido.MidiTrack() for _ in range(ntr)]).save(file=io.BytesIO())
            fails.append(dict(clause='type 0 file without exactly one track is refused', inputs=dict(ntracks=ntr), detail='saved'))
        except ValueError:
            pass
    # system common messages (incl. tune_request) are storable
    for t in SYSCOM:
        n += 1
        try:
            data = save_bytes(1, 96, [[dict(kind='msg', type=t, attrs={nm: S.RANGES[nm][1] for nm in S.TYPES[t]['names']}, time=5)]])
            load_tracks(data)
        except Exception as ex:
            fails.append(dict(clause='system common messages can be stored', inputs=dict(type=t), detail=repr(ex)))
    # clip
    typ, tpb, tracks = 1, 96, [[dict(kind='msg', type='note_on', attrs=dict(channel=0, note=1, velocity=2), time=0),
                                dict(kind='msg', type='control_change', attrs=dict(channel=0, control=3, value=4), time=1),
                                dict(kind='sysex', data=[5, 6, 7], time=2),
                                dict(kind='msg', type='pitchwheel', attrs=dict(channel=2, pitch=100), time=3)]]
    data = bytearray(save_bytes(typ, tpb, tracks))
    good = load_tracks(bytes(data))
    for k in range(22, len(data) - 4):
        if data[k] < 0x80 and k not in ():
            mutated = bytearray(data)
            mutated[k] = 0x80 | mutated[k] if mutated[k] | 0x80 not in (0xF0, 0xF7, 0xFF) else 0xC5
            n += 1
            seen.add(('clip', k))
            try:
                strict = load_tracks(bytes(mutated))
            except Exception:
                strict = None
            try:
                clipped = load_tracks(bytes(mutated), clip=True)
            except Exception as ex:
                clipped = ex
            if strict is not None and clipped != strict:
                fails.append(dict(clause='clip=True equals clip=False where that succeeds', inputs=dict(offset=k), detail=repr(clipped)[:200]))
    # clip=True really clips: hand-written track data with out-of-range data bytes, with explicit status and in running status
    import struct as _st
    import mido as _mido

    def raw_file(track_data):
        return b'MThd' + _st.pack('>LHHH', 6, 0, 1, 96) + b'MTrk' + _st.pack('>L', len(track_data)) + bytes(track_data)
    for name, body, want in (
            ('explicit status, second data byte high', [0, 0x90, 0x40, 0xC8], [('note_on', 0x40, 127)]),
            ('explicit status, first data byte high', [0, 0x90, 0xC3, 0x20], [('note_on', 127, 0x20)]),
            ('running status, second data byte high', [0, 0x90, 0x40, 0x40, 0x10, 0x43, 0xC8], [('note_on', 0x40, 0x40), ('note_on', 0x43, 127)]),
            ('running status after running status', [0, 0x90, 1, 2, 0, 3, 0xFF - 0x70, 0, 5, 0x80 + 1], [('note_on', 1, 2), ('note_on', 3, 127), ('note_on', 5, 127)]),
            ('two-byte message in running status', [0, 0xC1, 5, 0, 6], [('program_change', 5), ('program_change', 6)])):
        n += 1
        seen.add(('clip-explicit', name))
        datab = raw_file(body + [0, 0xFF, 0x2F, 0])
        try:
            got = []
            for m in _mido.MidiFile(file=io.BytesIO(datab), clip=True).tracks[0]:
                if m.type == 'note_on':
                    got.append(('note_on', m.note, m.velocity))
                elif m.type == 'program_change':
                    got.append(('program_change', m.program))
            if got != want:
                fails.append(dict(clause='clip=True clips out-of-range data bytes to 127', inputs=dict(case=name, track_data=list(body)), detail=repr(got)))
        except Exception as ex:     # noqa
            fails.append(dict(clause='clip=True clips out-of-range data bytes to 127', inputs=dict(case=name, track_data=list(body)), detail=repr(ex)))
    # fixed point under byte-level mutation
    N = 600 if tier == 'quick' else 6000
    for trial in range(N):
        typ, tpb, tracks = rand_file(rng, small=True)
        try:
            data = bytearray(save_bytes(typ, tpb, tracks))
        except Exception:
            continue
        if len(data) < 20:
            continue
        k = rng.randrange(8, len(data))
        data[k] = rng.randrange(256)
        n += 1
        seen.add(('mut', trial))
        try:
            l1 = load_tracks(bytes(data))
        except Exception:
            continue                       # not loadable: nothing claimed
        try:
            b2 = save_bytes(*l1)
        except ValueError:
            continue                       # loadable but not storable (e.g. real-time message in the file): save refuses, fine
        except Exception as ex:
            fails.append(dict(clause='save of loaded contents raises only ValueError', inputs=dict(seed=seed, trial=trial, bytes=list(data)[:300]), detail=repr(ex)))
            continue
        try:
            l2 = load_tracks(b2)
            ok = l2 == (l1[0], l1[1], [fix_ref(tr) for tr in l1[2]]) and save_bytes(*l2) == b2
        except Exception as ex:
            ok, l2 = False, ex
        if not ok:
            fails.append(dict(clause='load-save-load is a fixed point', inputs=dict(seed=seed, trial=trial, bytes=list(data)[:300]), detail=repr(l2)[:300]))
    return dict(evaluations=n, distinct_nontrivial=len(seen), failures=fails[:20])
