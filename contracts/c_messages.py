"""Contracts for mido/messages/{checks,decode,encode,messages}.py  (properties C01, C02, parts of C03/C04).

Nothing in /repo is touched; the functions named in `target` are located in the current working tree
and their unmodified bodies are executed symbolically.
"""
from pyvc.contract import Contract, contract, LoopSpec, V, attrs_of, cls_of, H, Harness
from pyvc.dsl import (And, Or, Not, Implies, Ite, All, Ex, AnyOf, eq, at, cat, seq, length, sub, is_z, holds)
from . import spec_midi as S

try:
    import z3
    from pyvc.values import SInt, SSeq, Cell, Obj, PyRaise, zseq, Opaque, Unsupported, INT_EK
except ImportError:
    z3 = None

SEQ_KINDS = {'list': list, 'tuple': tuple, 'bytes': bytes, 'bytearray': bytearray}


class TimeToken:
    """a value passed as `time`; only its identity matters (time is 'passed through')"""
    def __repr__(self):
        return '<time token>'


# ====================================================================== checks.check_data
class _CheckDataLoop(LoopSpec):
    header = 'data_bytes'

    def inv(self, ip, fr, st):
        s = st.seq
        return All(0, st.i, lambda k: S.data_byte(s[k]))


@contract
class CheckData(Contract):
    target = 'mido.messages.checks:check_data'
    properties = ('C01', 'C02', 'C03', 'C04')
    loops = {('mido.messages.checks:check_data', 0): _CheckDataLoop()}
    raises = {ValueError: 'raises_value_error'}

    def inputs(self, h, cfg):
        h.d = h.int_seq('d', list)
        return [h.d], {}

    def ensures(self, h, cfg, a, r):
        d = V(h.d)
        return {'all-data-bytes': All(0, length(d), lambda k: S.data_byte(at(d, k))),
                'returns-None': r is None}

    def raises_value_error(self, h, cfg, a, pr):
        d = V(h.d)
        return Ex(0, length(d), lambda k: Not(S.data_byte(at(d, k))))

    # modular use at call sites: callers see only this
    def call_site(self, ip, fn, args, kwargs):
        (data,) = args
        v = data.v if isinstance(data, Cell) else data
        if isinstance(v, SSeq) and v.ek is INT_EK:
            e = v.e
        elif isinstance(v, (list, tuple)) and all(isinstance(x, (int, SInt)) and not isinstance(x, bool) for x in v):
            e = zseq(list(v))
        else:
            return ip.call_repo(fn, args, kwargs)       # other kinds: execute the body
        if ip.ctx.fork(2) == 0:
            ip.ctx.assume(All(0, z3.Length(e), lambda k: S.data_byte(e[k])))
            return None
        ip.ctx.assume(Ex(0, z3.Length(e), lambda k: Not(S.data_byte(e[k]))))
        raise PyRaise(ValueError, ('data byte must be in range 0..127',))


# ====================================================================== decode.decode_message
def _decoded_ok(b, type_, m):
    """postcondition shared by decode_message and Message.from_bytes"""
    out = {}
    for i, c in enumerate(S.wellformed(b)):
        out['wellformed.%d' % i] = c
    if type_ not in S.TYPES:
        out['type-defined'] = False
        return out
    names = S.TYPES[type_]['names']
    keys = set(m.keys())
    out['attribute-set'] = keys == set(names) | {'type', 'time'}
    if keys != set(names) | {'type', 'time'}:
        return out
    mv = {k: V(m[k]) for k in names}
    out['bytes-reproduce-input'] = eq(S.spec_encode(type_, mv), b)
    out['length'] = eq(S.spec_length(type_, mv), length(b))
    return out


@contract
class DecodeMessage(Contract):
    target = 'mido.messages.decode:decode_message'
    properties = ('C01', 'C02')
    use = ('mido.messages.checks:check_data',)
    raises = {ValueError: 'raises_value_error'}
    configs = tuple({'seq': k} for k in ('list', 'tuple', 'bytearray'))

    def inputs(self, h, cfg):
        pycls = SEQ_KINDS[cfg['seq']]
        if pycls in (bytes, bytearray):
            h.b = h.int_seq('b', pycls, lo=0, hi=255, mutable=False)
        else:
            h.b = h.int_seq('b', pycls, mutable=False)
        h.time = TimeToken()
        return [h.b], {'time': h.time}

    def ensures(self, h, cfg, a, r):
        b = V(h.b)
        out = {'is-dict': isinstance(r, dict)}
        out.update(_decoded_ok(b, r['type'], r))
        out['time-passed-through'] = r['time'] is h.time
        if r['type'] == 'sysex':
            out['data-is-tuple'] = cls_of(r['data']) is tuple
        return out

    def raises_value_error(self, h, cfg, a, pr):
        return S.not_wellformed(V(h.b))


@contract
class MessageFromBytes(Contract):
    target = 'mido.messages.messages:Message.from_bytes'
    properties = ('C01', 'C02', 'C04')
    use = ('mido.messages.checks:check_data',)
    raises = {ValueError: 'raises_value_error'}
    configs = tuple({'seq': k} for k in ('list', 'tuple', 'bytearray'))

    def callee(self, h, cfg):
        import mido.messages.messages as M
        h.cls = M.Message
        from pyvc.contract import raw_function
        return raw_function(self.target)

    def inputs(self, h, cfg):
        import mido.messages.messages as M
        pycls = SEQ_KINDS[cfg['seq']]
        if pycls in (bytes, bytearray):
            h.b = h.int_seq('b', pycls, lo=0, hi=255, mutable=False)
        else:
            h.b = h.int_seq('b', pycls, mutable=False)
        h.time = TimeToken()
        return [M.Message, h.b], {'time': h.time}

    def ensures(self, h, cfg, a, r):
        import mido.messages.messages as M
        b = V(h.b)
        m = attrs_of(r)
        out = {'is-Message': cls_of(r) is M.Message}
        out.update(_decoded_ok(b, m['type'], m))
        out['time-passed-through'] = m['time'] is h.time
        if m['type'] == 'sysex':
            out['data-is-SysexData'] = cls_of(m['data']) is M.SysexData
        return out

    def raises_value_error(self, h, cfg, a, pr):
        return S.not_wellformed(V(h.b))

    def samples(self, cfg):
        out = []
        for b in ([], [0x90], [0x90, 1], [0x90, 1, 2], [0x90, 1, 2, 3], [0xE0, 1], [0xE0, 1, 2, 3], [0xF1], [0xF1, 1, 2],
                  [0xF2], [0xF2, 1], [0xF2, 1, 2, 3], [0xF0], [0xF0, 0xF7], [0xF0, 1, 2, 0xF7], [0xF0, 1, 128, 0xF7],
                  [0xF0, 1, 2], [0xF4], [0xF7], [0xF8], [0xF8, 1], [0x7F], [0x90, 128, 0], [0x90, -1, 0], [256, 0, 0],
                  [-112, 1, 2], [0xC0, 5], [0xD5, 127], [0xF3, 7], [0xF6], [0xFF], [0xFD], [0xF9]):
            if cfg['seq'] == 'bytearray' and not all(0 <= x <= 255 for x in b):
                continue
            out.append({'b': b})
        return out


# ====================================================================== encode.encode_message & friends
def _msg_inputs(h, type_, time=True):
    """symbolic message attributes of the given type, constrained to the documented ranges"""
    info = S.TYPES[type_]
    m = {'type': type_}
    for nm in info['names']:
        if nm == 'data':
            m['data'] = h.int_seq('data', tuple, lo=0, hi=127, mutable=False)
        else:
            lo, hi = S.RANGES[nm]
            m[nm] = h.int(nm, lo, hi)
    return m


@contract
class EncodeMessage(Contract):
    target = 'mido.messages.encode:encode_message'
    properties = ('C01',)
    configs = tuple({'type': t} for t in S.ALL_TYPES)
    raises = {}

    def inputs(self, h, cfg):
        h.m = _msg_inputs(h, cfg['type'])
        h.m['time'] = 0
        return [dict(h.m)], {}

    def ensures(self, h, cfg, a, r):
        t = cfg['type']
        mv = {k: V(v) for k, v in h.m.items()}
        enc = S.spec_encode(t, mv)
        rv = V(r)
        out = {'equals-spec-encoding': eq(rv, enc),
               'is-list': cls_of(r) is list,
               'length': eq(length(rv), S.spec_length(t, mv))}
        # well-formedness of the spec encoding itself (lemma on the oracle, checked for every type)
        for i, c in enumerate(S.wellformed(enc)):
            out['spec-wellformed.%d' % i] = c
        out['status-byte-fixed-by-type-and-channel'] = eq(at(rv, 0), S.TYPES[t]['status'] + (mv['channel'] if S.TYPES[t]['channel'] else 0))
        # the caller owns the list it gets: it is built by this call, never an object shared with other calls (a caller that
        # extends a shared list would corrupt the encoding of every later message of that type)
        if not h.sym:
            import mido.messages.encode as E
            out['result-is-a-new-list-owned-by-the-caller'] = E.encode_message(dict(h.m)) is not r
        return out


_TWICE = Harness('''
    def do(m):
        a = m.bytes()
        b = m.bytes()
        a.append(0)
        return (a, b, m.bytes())
''')


@contract
class BytesOwnedByCaller(Contract):
    """bytes() hands out a list that belongs to the caller: two calls give two different list objects, and changing one
    result changes neither the other nor what the message encodes to afterwards"""
    key = 'C01.bytes-result-owned-by-the-caller'
    target = 'mido.messages.messages:BaseMessage.bytes'
    properties = ('C01',)
    configs = tuple({'type': t} for t in S.ALL_TYPES)
    raises = {}
    symbolic_only = True

    def callee(self, h, cfg):
        return _TWICE.get(h)

    def inputs(self, h, cfg):
        h.mo = msg_obj(h, cfg['type'], time='int')
        return [h.mo], {}

    def ensures(self, h, cfg, a, r):
        x, y, z = r
        enc = S.spec_encode(cfg['type'], {k: V(v) for k, v in attrs_of(h.mo).items() if k not in ('type', 'time')})
        return {'two-calls-two-list-objects': x is not y and y is not z and x is not z,
                'editing-one-result-leaves-the-others-alone': And(eq(V(y), enc), eq(V(z), enc))}


# ====================================================================== Message objects (C01)
def msg_obj(h, type_, time='token'):
    """a valid Message object of the given type with symbolic attribute values"""
    import mido.messages.messages as M
    info = S.TYPES[type_]
    attrs = {'type': type_}
    if time == 'token':
        attrs['time'] = TimeToken()
    elif time == 'real':
        attrs['time'] = h.real('time')
    else:
        attrs['time'] = h.int('time')
    for nm in info['names']:
        if nm == 'data':
            attrs['data'] = h.int_seq('data', M.SysexData, lo=0, hi=127, mutable=False)
        else:
            lo, hi = S.RANGES[nm]
            attrs[nm] = h.int(nm, lo, hi)
    h.attrs0 = dict(attrs)
    return h.obj(M.Message, attrs)


def _spec_view(attrs, type_):
    return {k: V(attrs[k]) for k in S.TYPES[type_]['names']}


class _MsgMethod(Contract):
    properties = ('C01',)
    configs = tuple({'type': t} for t in S.ALL_TYPES)

    def inputs(self, h, cfg):
        h.m = msg_obj(h, cfg['type'])
        return [h.m], {}

    def frame(self, h, cfg, a):
        # the message is not modified
        cur = attrs_of(h.m)
        return {'message-unchanged': set(cur) == set(h.attrs0) and all(cur[k] is h.attrs0[k] for k in cur)}


@contract
class MessageBytes(_MsgMethod):
    target = 'mido.messages.messages:Message.bytes'

    def ensures(self, h, cfg, a, r):
        mv = _spec_view(h.attrs0, cfg['type'])
        return {'equals-spec-encoding': eq(V(r), S.spec_encode(cfg['type'], mv)), 'is-list': cls_of(r) is list}


@contract
class MessageLen(_MsgMethod):
    target = 'mido.messages.messages:Message.__len__'

    def ensures(self, h, cfg, a, r):
        mv = _spec_view(h.attrs0, cfg['type'])
        return {'len-equals-encoding-length': eq(V(r), length(S.spec_encode(cfg['type'], mv)))}


@contract
class MessageBin(_MsgMethod):
    target = 'mido.messages.messages:BaseMessage.bin'

    def ensures(self, h, cfg, a, r):
        mv = _spec_view(h.attrs0, cfg['type'])
        return {'equals-spec-encoding': eq(V(r), S.spec_encode(cfg['type'], mv)), 'is-bytearray': cls_of(r) is bytearray}


_RT = {
    'bytes': Harness('''
        def roundtrip_bytes(Message, m):
            return Message.from_bytes(m.bytes(), time=m.time) == m
    '''),
    'bin': Harness('''
        def roundtrip_bin(Message, m):
            return Message.from_bytes(m.bin(), time=m.time) == m
    '''),
    'len': Harness('''
        def len_matches(Message, m):
            return len(m) == len(m.bytes())
    '''),
}


@contract
class RoundTripBytes(Contract):
    """decode(encode(m)) == m for every valid message: the real bytes()/bin() fed to the real from_bytes"""
    target = 'harness:C01.roundtrip'
    properties = ('C01',)
    use = ('mido.messages.checks:check_data',)
    configs = tuple({'type': t, 'via': v} for t in S.ALL_TYPES for v in ('bytes', 'bin', 'len'))

    def callee(self, h, cfg):
        return _RT[cfg['via']].get(h)

    def inputs(self, h, cfg):
        import mido.messages.messages as M
        h.m = msg_obj(h, cfg['type'])
        return [M.Message, h.m], {}

    def ensures(self, h, cfg, a, r):
        return {'equal-to-original': eq(V(r), True)}
