"""C19 — SYX files (mido/syx.py).

write_syx_file (binary) is executed symbolically with real message objects and a file model: the file content is the
concatenation of the MIDI 1.0 encodings of the sysex messages (payloads of ANY length), other messages are dropped.
read_syx_file is verified structurally: empty file -> []; first byte 0xF0 -> the whole content is fed to one Parser; else the
latin1 text, with every whitespace character replaced by a space, goes through bytearray.fromhex and is fed to the parser;
only sysex messages are returned, in parser order.  That the parser then returns exactly the written messages is C06
(concatenation of encoded messages parses back); the text format and end-to-end round trips are bounded stand-ins.
"""
import collections
import builtins

from pyvc.contract import Contract, contract, V, attrs_of, cls_of, Harness, raw_function
from pyvc.dsl import And, eq, cat, seq, length, concat_eq
from . import spec_midi as S

try:
    import z3
    from pyvc.values import SInt, SSeq, Cell, Obj, PyRaise, Opaque, IntSeq
    from .c_files import FileModel
except ImportError:
    z3 = None

SYX = 'mido.syx:'
MIXES = (('sysex',), ('sysex', 'sysex'), ('note_on',), ('sysex', 'note_on', 'sysex'), (), ('clock', 'sysex'))


class OpenModel:
    """ASSUMED contract of open(): returns a file object (context manager) bound to the content of that path"""
    def __init__(self, h):
        self.h = h
        self.calls = []

    def __call__(self, ip, name, mode='r', *a, **k):
        h = self.h
        self.calls.append((name, mode))
        f = Obj(SyxFile, {'content': h.file_content if 'r' in mode else z3.Empty(IntSeq), 'pos': z3.IntVal(0), 'mode': mode, 'texts': []})
        h.opened.append(f)
        return f


class SyxFile(FileModel if z3 is not None else object):
    _pyvc_model = True

    def __enter__(ip, self):
        return self
    __enter__._pyvc_native = True

    def __exit__(ip, self, *exc):
        self.attrs['closed'] = True
        return False
    __exit__._pyvc_native = True

    def write(ip, self, b):
        if 'b' not in self.attrs['mode']:
            self.attrs['texts'].append(b)
            return None
        return FileModel.write(ip, self, b)
    write._pyvc_native = True

    def read(ip, self, n=-1):
        return FileModel.read(ip, self, n)
    read._pyvc_native = True


@contract
class WriteSyxBinary(Contract):
    target = SYX + 'write_syx_file'
    properties = ('C19',)
    configs = tuple({'mix': m} for m in MIXES)
    raises = {}
    symbolic_only = True

    def setup(self, h, cfg, ip):
        h.opened = []
        h.file_content = None
        ip.models.table[builtins.open] = OpenModel(h)

    def inputs(self, h, cfg):
        from .c_files import event_obj
        import mido.messages.messages as MS
        h.msgs, h.specs = [], []
        for i, fam in enumerate(cfg['mix']):
            if fam == 'clock':
                o = h.obj(MS.Message, {'type': 'clock', 'time': 0})
                sp = dict(kind='other')
            else:
                o, sp = event_obj(h, fam, i)
            h.msgs.append(o)
            h.specs.append(sp)
        return ['out.syx', list(h.msgs)], {}

    def ensures(self, h, cfg, a, r):
        out = {'one-file-opened-for-binary-writing': len(h.opened) == 1 and h.opened[0].attrs['mode'] == 'wb' and h.opened[0].attrs.get('closed') is True}
        if len(h.opened) != 1:
            return out
        parts = []
        for sp in h.specs:
            if sp['kind'] == 'sysex':
                parts += [seq([0xF0]), sp['payload'], seq([0xF7])]
        want = cat(*parts) if parts else seq([])
        out['content-is-the-concatenation-of-the-sysex-encodings'] = And(*concat_eq(h.opened[0].attrs['content'], want))
        return out


class _ParserToken:
    def __init__(self, h):
        self.h = h


@contract
class ReadSyxStructure(Contract):
    target = SYX + 'read_syx_file'
    properties = ('C19',)
    configs = ({'kind': 'empty'}, {'kind': 'binary'}, {'kind': 'text'})
    raises = {ValueError: 'not_hex'}
    symbolic_only = True

    def setup(self, h, cfg, ip):
        import re
        h.opened = []
        ip.models.table[builtins.open] = OpenModel(h)
        h.trace = []

        def re_sub(ipx, pat, repl, text):
            h.trace.append(('re.sub', pat, repl, text))
            return Opaque('whitespace-normalised text')
        ip.models.table[re.sub] = re_sub

        def fromhex(ipx, cls, text):
            h.trace.append(('fromhex', text))
            if ipx.ctx.fork(2) == 1:
                raise PyRaise(ValueError, ('non-hexadecimal number found in fromhex() arg',))
            return Opaque('bytes from hex')
        ip.models.m_fromhex = fromhex

        def feed(ipx, args, kwargs):
            h.trace.append(('feed', args[1]))
            return None

        def parser_iter(ipx, args, kwargs):
            import mido.messages.messages as MS
            h.parsed = [Obj(MS.Message, {'type': 'sysex', 'data': Opaque('d0'), 'time': 0}), Obj(MS.Message, {'type': 'note_on', 'time': 0}),
                        Obj(MS.Message, {'type': 'sysex', 'data': Opaque('d1'), 'time': 0})]
            from pyvc.values import GenObj

            def gen():
                yield from h.parsed
            return GenObj(gen(), 'parser')
        ip.hooks = dict(ip.hooks)
        ip.hooks[raw_function('mido.parser:Parser.feed')] = feed
        ip.hooks[raw_function('mido.parser:Parser.__iter__')] = parser_iter

    def inputs(self, h, cfg):
        c = h.int_seq('content', bytes, lo=0, hi=255, mutable=False)
        cv = V(c)
        if cfg['kind'] == 'empty':
            h.assume(z3.Length(cv) == 0)
        elif cfg['kind'] == 'binary':
            h.assume([z3.Length(cv) >= 1, cv[0] == 240])
        else:
            h.assume([z3.Length(cv) >= 1, cv[0] != 240])
        h.file_content = cv
        from pyvc.models import Decodable
        h.assume(Decodable(z3.StringVal('latin1'), cv))       # latin1 decodes every byte string
        h.decoded = []
        return ['in.syx'], {}

    def not_hex(self, h, cfg, a, pr):
        return cfg['kind'] == 'text' and any(t[0] == 'fromhex' for t in h.trace) and not any(t[0] == 'feed' for t in h.trace)

    def ensures(self, h, cfg, a, r):
        out = {'file-opened-for-binary-reading': len(h.opened) == 1 and h.opened[0].attrs['mode'] == 'rb'}
        feeds = [t for t in h.trace if t[0] == 'feed']
        if cfg['kind'] == 'empty':
            out['empty-file-gives-empty-list'] = list(r) == [] and not feeds
            return out
        out['exactly-one-feed'] = len(feeds) == 1
        if cfg['kind'] == 'binary':
            out['binary-content-fed-unchanged'] = len(feeds) == 1 and eq(V(feeds[0][1]), h.file_content) is not False and not any(t[0] == 'fromhex' for t in h.trace)
        else:
            subs = [t for t in h.trace if t[0] == 're.sub']
            hexs = [t for t in h.trace if t[0] == 'fromhex']
            out['text-whitespace-normalised-then-hex-decoded'] = (len(subs) == 1 and subs[0][1] == r'\s' and subs[0][2] == ' ' and len(hexs) == 1
                                                                  and isinstance(hexs[0][1], Opaque) and len(feeds) == 1 and isinstance(feeds[0][1], Opaque))
        out['only-sysex-messages-in-parser-order'] = list(r) == [h.parsed[0], h.parsed[2]]
        return out
