"""Per-property metadata: level claimed, clause table, assumptions (source for MANIFEST.json and evidence)."""

_PENDING = 'check not built yet in this session (work in progress, see DESIGN.md §9)'

PROPS = {
    'C01': dict(
        level='proof',
        text='encode_message, Message.bytes/bin/__len__ are proved equal to an independent MIDI 1.0 spec encoding for all 18 '
             'types with every attribute symbolic over its whole documented range (sysex payload: a sequence of any length); '
             'the spec encoding is proved well-formed; the composition from_bytes(bytes()/bin()) == m is proved by executing '
             'the real encoder and decoder back to back on a symbolic valid message. hex()/from_hex() is a bounded stand-in.',
        note='trusted: pyvc engine, z3/cvc5, hand-written MIDI 1.0 spec (contracts/spec_midi.py); check_data used via its proved '
             'contract; hex()/from_hex() clause only bounded (string formatting outside the encoding)',
        clauses=[
            ['bytes()/bin()/encode_message == spec_encode(m); status byte fixed by type and channel; data bytes < 0x80', 'P'],
            ['len(m) == len(bytes())', 'P'],
            ['from_bytes(m.bytes()|m.bin(), time=m.time) == m', 'P'],
            ['from_hex(m.hex(sep)) == m', 'B'],
            ['the list bytes() returns is new on every call and owned by the caller', 'P'],
            ['a decoded message does not depend on what callers did with earlier results: decode, edit every attribute of the result, decode again (18 types x 5 routes x 3 times)', 'B'],
        ],
        assumptions=[],
        trusted_base=[],
    ),
    'C03': dict(
        level='proof',
        text='object invariant Valid(m) (attribute set fixed by type; every value an Integral inside its documented range; '
             'time a Real; sysex data a SysexData of ints 0..127) is proved to be established by the constructor/from_dict and '
             'preserved by copy(**overrides), attribute assignment, attribute deletion and sysex `data +=`, for all 18 types, '
             'with integer values fully symbolic (every range limit is inside the proof) and one contract clause per exit: '
             'normal => acceptable and Valid and stored-as-given; exception => class in {ValueError, TypeError, AttributeError}, '
             'input not acceptable, original unchanged. By induction over the call history no invalid state is reachable.',
        note='trusted: pyvc engine, z3/cvc5, spec ranges in contracts/spec_midi.py, the object-invariant methodology '
             '(invariant established + preserved by every public operation => holds after every history); non-integer kinds are '
             'checked on representative values of each type (float, nan, str, None, tuple, list, complex); from_str is decided under C14',
        clauses=[
            ['constructor / from_dict: accepted iff acceptable, result Valid, values stored as given', 'P'],
            ['copy(**overrides): same, result fresh, original unchanged on every exit', 'P'],
            ['attribute assignment: accepted iff acceptable; rejected leaves message unchanged; type/attribute set never change', 'P'],
            ['attribute deletion always rejected, message unchanged', 'P'],
            ['sysex data += other', 'P'],
            ['non-integer kinds: representative values per type', 'B'],
            ['from_str', 'see C14'],
        ],
        assumptions=['object-invariant methodology (induction over the history of public calls)'],
        trusted_base=[],
    ),
    'C04': dict(
        level='proof',
        technique='contract-based deductive verification: VCs generated from the real Python source by symbolic execution against sidecar contracts, discharged by z3/cvc5; whole-stream clauses as a loop invariant with ghost history on the real Tokenizer.feed; four Sublist axioms discharged by Lean 4 + Mathlib',
        text='representation invariant WF of the tokenizer and a relational step specification are proved for the real '
             'Tokenizer.feed_byte from an ARBITRARY well-formed state and an arbitrary byte (out-of-range bytes raise ValueError and '
             'change nothing); Tokenizer.feed / Parser.feed are proved for byte strings of any length by loop invariants (every '
             'token appended is one complete well-formed message; every queued object is a valid Message, never an exception). '
             'Lemmas over the step specification give: exactly one real-time message per defined real-time byte, in order, and '
             'the kept bytes form a subsequence of the input (Sublist axioms checked by Lean+Mathlib). The lift to whole streams '
             'is itself a loop invariant of the real Tokenizer.feed with ghost state (contract C04.stream-invariants): from any '
             'well-formed state whose kept bytes are a subsequence of the history consumed so far, after feed(data) the kept '
             'bytes are a subsequence of history ++ data and the real-time tokens emitted are exactly the defined real-time '
             'bytes of data in order - for data of ANY length; the history parameter makes the clause compose over any '
             'sequence of feed/feed_byte calls.',
        note='trusted: pyvc, z3/cvc5, Lean kernel; MIDI 1.0 spec in contracts/spec_midi.py; the whole-stream clauses are stated '
             'at token level (decoding a token gives a message with exactly these bytes: C01/C02); Parser.feed uses the proved '
             'summary of Tokenizer.feed at the call site (abstract token queue)',
        clauses=[
            ['feed_byte from any WF state: WF preserved, <=1 token, token well-formed, step relation', 'P'],
            ['Tokenizer.feed / Parser.feed over any byte string: never raise, every queued message valid', 'P'],
            ['one real-time message per defined real-time byte, in order (step lemma)', 'P'],
            ['bytes of other messages form a subsequence of the input (step lemma + Sublist axioms in Lean)', 'P'],
            ['whole streams: kept bytes (tokens ++ partial message) are a subsequence of history ++ data; real-time tokens == '
             'defined real-time bytes of data in order; loop invariant of the real Tokenizer.feed with ghost history, any length, data given as '
             'list / bytes / bytearray / tuple, tokens queued by feed outside its loop included', 'P'],
            ['every message a parser queues was built by that call (never an object shared with other calls)', 'P'],
        ],
        assumptions=['the Sublist predicate is used through instances of A1..A3 only (uninterpreted in z3)',
                     'correspondence between the z3 Sublist axioms and the Lean statements A0..A3 (by inspection)'],
        trusted_base=['Lean 4 + Mathlib (list theory A0..A3)'],
        external=[dict(name='lean:ListTheory', cmd=['lean', 'lean/ListTheory.lean'], solver='lean',
                       obligations=['A0', 'A1', 'A2', 'A3'], timeout=900)],
    ),
    'C05': dict(
        level='proof',
        text='chunking: Tokenizer.feed(data) is proved to perform exactly the calls feed_byte(data[0..n-1]) in order and to write '
             'nothing itself, and feed_byte/Parser.feed_byte are proved from arbitrary states, so any split of the stream performs '
             'the same steps on the same state. Retrieval: get_message returns the oldest queued item and removes exactly it, or '
             'None exactly when nothing is pending; pending() is the queue length; iteration yields the queue in order '
             '(invariant yielded ++ remaining == queue) - all for queues of ANY length. ParserQueue: put_bytes/poll/iterpoll proved '
             'against an assumed FIFO contract of queue.Queue. Parser.feed / feed_byte are proved to hand exactly their bytes, in order, to the '
             'parser\'s own tokenizer for data of any kind and length (one-element chunks included) and to queue nothing themselves; '
             'Tokenizer.__iter__, through which _decode takes the tokens out, is FIFO over a queue of any length.',
        note='trusted: pyvc, z3/cvc5; queue.Queue assumed FIFO; queue items are represented by integers because retrieval only '
             'moves them (any inspection would surface as a failing obligation); the step from "same sequence of steps" to '
             '"same messages" is the determinism of the proved step function',
        clauses=[
            ['feed(data) == fold of feed_byte over data, no writes of its own', 'P'],
            ['Parser.feed_byte / feed keep the tokenizer queue drained and only append to the message queue', 'P'],
            ['Parser.feed / feed_byte hand exactly their bytes, in order, to the parser\'s own tokenizer (any data kind and length, '
             'one-element chunks included), call _decode afterwards and queue nothing by themselves', 'P'],
            ['Tokenizer.__iter__ (the way _decode takes tokens out): FIFO over a queue of any length, leaves it empty; __len__', 'P'],
            ['every cut of short streams into chunks of 5 kinds, retrieval interleaved: same messages as the whole stream', 'B'],
            ['get_message / pending / __iter__ on a queue of any length: FIFO, None iff empty', 'P'],
            ['ParserQueue.put_bytes / poll / iterpoll', 'PA (queue.Queue FIFO)'],
            ['Parser() / Tokenizer() establish the invariant: idle, empty, UNBOUNDED queues; alias discipline (a queued token is never changed again)', 'P'],
        ],
        assumptions=['queue.Queue is FIFO (ParserQueue clause)', 'parametricity of the retrieval functions in the queued items'],
        trusted_base=[],
    ),
    'C06': dict(
        level='proof',
        technique='contract-based deductive verification: VCs generated from the real Python source by symbolic execution against sidecar contracts, discharged by z3/cvc5; the induction over the message list (concatenation corollary) discharged by Lean 4 + Mathlib from the fold and resynchronisation contracts',
        text='resynchronisation is proved on the real code from ANY well-formed parser state (that is: after any prefix): '
             'feeding the encoding of a valid non-sysex message of each of the 17 types queues exactly that message and leaves '
             'no partial message; for sysex, Tokenizer.feed over F0 ++ y ++ F7 with y any mix of data and real-time bytes of any '
             'length is proved by a loop invariant (payload = data bytes of y in order, each defined real-time byte delivered at '
             'once and ahead of the sysex, the final token is F0 payload F7). The two corollaries of the property statement - P ++ '
             'enc(M) yields the messages of P followed by M, and any concatenation of encodings parses back to the same list - are '
             'proved in Lean 4 (lean/StreamInduction.lean: induction over the byte string for the fold law, induction over the message '
             'list for the corollary) from exactly two hypotheses: feeding is the fold of the per-byte step (contract '
             'C05.feed-is-a-fold-of-feed_byte on the real Tokenizer.feed) and resynchronisation from any well-formed state (the two '
             'contracts above).',
        note='trusted: pyvc, z3/cvc5, Lean kernel; the correspondence between the hypotheses `run`/`resync` of the Lean theorems and the '
             'contracts C05.feed-is-a-fold-of-feed_byte, C06.resync-fixed, C06.resync-sysex is by inspection; the sysex clause is stated '
             'at token level, decoding of the token is covered by C01/C02',
        clauses=[
            ['any WF state + enc(M) for the 17 fixed-length types => exactly M queued, no partial left', 'P'],
            ['sysex with inserted real-time bytes, any length', 'P'],
            ['the message queued for M is a new object built by the call (not a prebuilt object shared by all parsers)', 'P'],
            ['P ++ enc(M) -> messages of P then M; concatenation of encoded messages parses back: induction over the list in Lean '
             'from the fold contract and the resynchronisation contracts', 'P (hypothesis correspondence by inspection)'],
        ],
        assumptions=['correspondence between the hypotheses of lean/StreamInduction.lean (run = fold of the step, resync) and the '
                     'contracts C05.feed-is-a-fold-of-feed_byte / C06.resync-fixed / C06.resync-sysex (by inspection)'],
        trusted_base=['Lean 4 + Mathlib (StreamInduction: run_append, prefix_then_message, concat_parses_back)'],
        external=[dict(name='lean:StreamInduction', cmd=['lean', 'lean/StreamInduction.lean'], solver='lean',
                       obligations=['run_append', 'prefix_then_message', 'concat_parses_back'], timeout=900)],
    ),
    'C09': dict(
        level='proof',
        technique='contract-based deductive verification: VCs generated from the real Python source by symbolic execution against sidecar contracts, discharged by z3/cvc5; the bit trick `v & (v - 1)` through a theory lemma discharged as a pure bit-vector query (z3) on every run',
        text='per meta type: the constructor accepts exactly the documented domain (ints fully symbolic over all integers, '
             'so every range limit is inside the proof; 30 keys, 4 frame rates and all 256 power-of-two denominators enumerated '
             'exhaustively), bytes() == FF type canonical-VLQ(len) payload with the SMF payload layout and every item a byte, and '
             'MetaMessage.from_bytes(m.bytes()) == m for payloads of ANY length (loop invariant over the length-prefix scan, '
             'with termination). encode_variable_int is proved canonical for all non-negative integers, decode_variable_int is '
             'its inverse on every VLQ-shaped list (lemma VLQ.value by induction).',
        note='trusted: pyvc, z3/cvc5, SMF payload layouts and documented domains in contracts/spec_meta.py; text payloads use '
             'an assumed codec contract (Dec(cs, Enc(cs, s)) == s for encodable s); non-integer '
             'kinds are checked on representative values; `x & (x - 1)` is known to the engine only through the bit-vector lemma '
             'bv.x-and-x-minus-one (contracts/l_bits.py); known findings K1 (smpte hours >= 32) and K4 (list-valued '
             'sequencer_specific data) are listed in known_findings.json and proved absent outside their regions',
        clauses=[
            ['constructor accepts exactly the documented domain (per attribute)', 'P'],
            ['bytes() == FF type vlq(len) payload, all bytes; length VLQ canonical', 'P'],
            ['from_bytes(bytes(m)) == m, any payload length', 'P (PA codec axiom for text)'],
            ['encode_variable_int canonical for all n >= 0; decode_variable_int inverse; lemma VLQ.value', 'P'],
            ['all 256 denominators accepted and round-trip; 30 keys; 4 frame rates', 'P (exhaustive enumeration of the finite domains)'],
            ['time_signature denominator over ALL integers: accepted iff it is one of 2**0..2**255 (the test `v & (v - 1)` through the '
             'theory lemma bv.x-and-x-minus-one, discharged in bit-vector mode for widths 16/64/256 on every run)', 'P'],
            ['checked assignment MetaMessage._setattr from ANY valid message: stored iff in the documented domain, other attributes '
             'kept, a rejected assignment (ValueError/TypeError; AttributeError for type / unknown names) changes nothing', 'P'],
            ['reading a meta event from a track', 'see C07/C08'],
            ['bytes() / from_bytes and file load / save repeated after callers edited the earlier results: same values, new objects', 'B'],
        ],
        assumptions=['text codec: Encodable(cs, s) => Dec(cs, Enc(cs, s)) == s and Enc yields bytes',
                     'list.reverse(): new[k] == old[len-1-k] (builtin contract)'],
        trusted_base=[],
    ),
    'C15': dict(
        level='proof',
        text='copy()/freeze_message()/thaw_message() are proved, for Message, MetaMessage and UnknownMetaMessage values with '
             'symbolic attributes, to return an object of the matching class whose attribute dict is a fresh dict holding the '
             'same values, all of immutable kinds (so later assignments on either object cannot reach the other); with overrides '
             'copy equals a fresh construction or rejects like the constructor, leaving the original unchanged; frozen objects '
             'reject every assignment/deletion with state unchanged; thaw(freeze(m)) == m, freeze is idempotent by identity, '
             'None maps to None; equal frozen messages feed hash() equal structures of hashable values.',
        note='trusted: pyvc, z3/cvc5; ASSUMED: hash() of tuples/ints/floats/str is a function of their == value (Python data '
             'model), dict lookup uses hash+eq; known finding K4-C15 (list-valued sequencer_specific data) listed',
        clauses=[
            ['copy() without/with overrides (Message: see C03 MessageCopy; MetaMessage.copy here)', 'P'],
            ['freeze/thaw class mapping, equality, freshness, None, idempotence', 'P'],
            ['frozen objects reject setattr/delattr, state unchanged', 'P'],
            ['equal frozen messages hash equal / dict keys', 'PA (hash/eq contract of builtins)'],
        ],
        assumptions=['Python hash/eq contract for int, float, str, tuple'],
        trusted_base=[],
    ),
    'C17': dict(
        level='proof',
        text='every exit of MidiFile._load and MidiFile._save - normal, and exceptional at every call position for every '
             'exception class the callees can raise - is an explicit path of the symbolic execution of the real functions, and '
             'on each one meta._charset equals its value before the call; inside the body (at every callee call) the charset '
             'in force is the file charset. The context manager is also verified by itself with a replayable harness. '
             'encode_string/decode_string are proved to use the charset in force (text bytes == Enc(charset, text), and back).',
        note='trusted: pyvc, z3/cvc5; callees of _load/_save are replaced by their weakest contract (any outcome, does not '
             'assign _charset); that frame condition is checked on the syntax tree of the whole package every run; text codecs '
             'are an uninterpreted model (assumed round-trip for encodable text); a bounded stand-in injects real faults at '
             'every byte of real files',
        clauses=[
            ['_load/_save restore the process-wide charset on every exit', 'P'],
            ['charset in force during the call == file charset', 'P'],
            ['only meta_charset assigns _charset (syntactic frame check)', 'P'],
            ['encode_string/decode_string follow the charset in force', 'PA (codec model)'],
            ['end-to-end save/load with faults at every byte, 5 charsets', 'B'],
        ],
        assumptions=['codec model: Dec(cs, Enc(cs, s)) == s for encodable s'],
        trusted_base=[],
    ),
    'C14': dict(
        level='exploration',
        text='from_dict(m.dict()) == m is PROVED for all 18 message types and all meta types with symbolic attribute values '
             '(object model only, no strings). The textual clauses - from_str(str(m)) == m, eval(repr(x)) == x for messages, meta '
             'messages, tracks and files, parse_string raising only ValueError, parse_string_stream reporting bad lines and '
             'carrying on - are bounded stand-ins on the real code: Python string formatting, str.split/int()/float() parsing and '
             'eval() are outside the verifier\'s encoding (no string-library model was built), so this property is claimed as '
             'exploration, not proof.',
        note='bounded: boundary grid of every attribute of every type x 11 times; grammar-generated and random lines; tracks of '
             'length 0..4, files of 0..3 tracks. The proved part (dict round trip) is listed under coverage.obligations.',
        explanation='mixed: dict round trip by discharged obligations; text/repr clauses by bounded enumeration on the real code',
        clauses=[
            ['from_dict(m.dict()) == m (Message and MetaMessage)', 'P'],
            ['from_str(str(m)) == m', 'B'],
            ['eval(repr(x)) == x for messages, meta messages, tracks, files', 'B'],
            ['parse_string raises only ValueError / returns a valid message', 'B'],
            ['parse_string_stream: (None, "line N: ...") for bad lines, continues, skips blanks and comments', 'B'],
        ],
        assumptions=[],
        trusted_base=[],
    ),
    'C12': dict(
        level='proof',
        text='the three generators are proved against fold specifications for tracks of ANY length (loop invariants with a '
             'ghost output sequence): _to_abstime puts every message at its prefix sum, _to_reltime at the difference to its '
             'predecessor, fix_end_of_track yields FO (non-end_of_track messages with the deltas of removed end_of_track messages '
             'carried over) followed by one end_of_track holding the trailing delta FA; merge_tracks is proved to be exactly '
             'fix . reltime . sort-by-time . concat(abstime(track_t)) in track order, for 0..3 tracks of any length, writing to '
             'no input object. Lemmas (induction) give the user-level clauses: no end_of_track before the last element, every '
             'yielded message keeps its absolute tick, total duration preserved, deltas of the sorted list telescope.',
        note='trusted: pyvc, z3/cvc5; ASSUMED: list.sort(key=) is a stable sort (permutation + sorted, given as a bijection '
             'contract); messages in a track are valid so that msg.copy(time=t) only changes the time (contract proved under '
             'C03/C15); number of tracks enumerated 0..3 (each of unknown length); the final assembly of the lemmas into the '
             'sentence of the property statement is by hand (DESIGN.md)',
        clauses=[
            ['_to_abstime / _to_reltime / fix_end_of_track against their fold specifications, any track length', 'P'],
            ['merge_tracks == fix . reltime . stable-sort . concat(abstime), inputs not written, skip_checks passed on', 'P (sort contract assumed)'],
            ['lemmas: no inner end_of_track, absolute ticks kept, total duration kept, telescoping, monotone abstime', 'P'],
            ['ties kept in track order then in-track order', 'PA (stability of list.sort)'],
            ['more than 3 tracks', 'not covered (the loop over tracks is unrolled for 0..3 tracks)'],
        ],
        assumptions=['list.sort is a stable sort', 'tracks hold valid messages with non-negative integer delta times'],
        trusted_base=[],
    ),
    'C13': dict(
        level='proof',
        text='MidiFile.__iter__ is proved (loop invariant with ghost output, merged track of ANY length) to yield, for each merged '
             'message, a copy whose time is delta x (tempo in force x 1e-6 / ticks_per_beat) - the tempo in force being 500000 until a '
             'set_tempo and changing only AFTER the set_tempo message itself - and 0 for a zero delta; length is proved to be the sum of '
             'those times over exactly that sequence; type 2 files refuse both. play(): loop invariant input_time == cumulative '
             'time (independent of the clock: no drift); per iteration the clock is read once, sleep is called with exactly '
             'input_time - elapsed when positive and not otherwise, the message is yielded only when clock >= start + input_time, '
             'meta messages are withheld unless requested. Floats are treated as reals.',
        note='trusted: pyvc, z3/cvc5; floats as mathematical reals (the constant 1e-6 is the exact value of the double); '
             'ASSUMED clock/sleep contract: now() never goes backwards and sleep(d) advances it by >= d; merge_tracks is used through '
             'its contract (C12); IEEE rounding of tick2second/second2tick only by a bounded grid',
        clauses=[
            ['__iter__: seconds follow the tempo map (tempo applies to deltas after the set_tempo)', 'PA (reals)'],
            ['length == cumulative time; type 2 refuses iteration (TypeError) and length (ValueError)', 'PA (reals)'],
            ['play: no drift, exact sleep, never early, meta filter', 'PA (reals, clock contract)'],
            ['second2tick(tick2second(t)) == t over the reals', 'PA'],
            ['second2tick(tick2second(t)) == t in IEEE arithmetic', 'B'],
        ],
        assumptions=['floats are reals (no rounding)', 'clock is monotone, sleep(d) advances it by at least d'],
        trusted_base=[],
    ),
    'C16': dict(
        level='proof',
        text='every observer (merged_track, __iter__, length, play, _save) is verified from a state whose hidden cache field holds '
             'ARBITRARY junk - the only thing any history of earlier observations and edits can leave behind - and is proved to '
             '(a) return the contract result for the CURRENT tracks/type/ticks_per_beat and (b) read no attribute of the file '
             'outside its contents (type, ticks_per_beat, charset, tracks, ...). Hence results are a function of the current '
             'contents only, i.e. equal to those of a freshly built file with the same contents.',
        note='trusted: pyvc, z3/cvc5; the read-set is taken from the interpreter log of attribute reads on the MidiFile '
             'object; edits through the tracks list and the messages are ordinary Python mutations of the contents themselves; a '
             'bounded stand-in replays random edit/observe histories on the real code',
        clauses=[
            ['merged_track merges the current tracks, never a stale value', 'P'],
            ['__iter__/length/play/_save read only current contents and are specified as functions of them', 'P'],
            ['MidiFile(...) stores type/ticks_per_beat/charset/clip, uses the given tracks, loads only without tracks, refuses type outside 0..2; add_track', 'P'],
            ['save is an observer: writing a track (incl. folding an end_of_track inside it) changes no message; fix_end_of_track yields copies', 'P'],
            ['random edit/observe histories vs freshly built files', 'B'],
        ],
        assumptions=[],
        trusted_base=[],
    ),
    'C07': dict(
        level='proof',
        text='proved on the real code: every reader primitive (read_byte, read_bytes for any size, read_variable_int for any VLQ '
             'incl. padding, chunk and file headers incl. longer headers, read_message per status family with and without a '
             'running-status data byte, read_sysex and read_meta_message for any payload length), the dispatch rules of one '
             'iteration of the read_track event loop (loop cut, any position / running status), build_meta_message per meta type '
             '(incl. unknown types keeping data and delta), write_chunk, the track writer on every pair of event families with '
             'symbolic attribute values and delta times (exact canonical bytes incl. running-status decisions and end_of_track '
             'folding), the refusals (six real-time types, negative and non-integer times, type 0 with != 1 track: ValueError, '
             'nothing written), the file header and track order of save/_load, fix_end_of_track for any track. The end-to-end '
             'composition load(save(f)) over whole files and the byte-mutation fixed point are bounded stand-ins with an '
             'independent reference codec.',
        note='trusted: pyvc, z3/cvc5; files modelled as (content, position) like io.BytesIO; messages in pairs are real objects '
             '(bytes(), is_realtime, from_bytes ... are the real code); delta times below 2**28 in the pair proofs; the induction '
             'from event pairs to whole tracks (the writer state is only the running status) and the reader/writer composition '
             'are not mechanised; known finding K1 (smpte hours >= 32) applies to meta events read from a track too',
        clauses=[
            ['reader primitives, any sizes/lengths (read_byte/bytes/variable_int/chunk+file header/message/sysex/meta)', 'P'],
            ['read_track: one arbitrary iteration of the event loop (dispatch, running status, chunk end)', 'P'],
            ['write_track on all pairs of event families: exact canonical encoding, inputs unchanged', 'P'],
            ['refusals raise ValueError and write nothing; save() header and track order; _load header use', 'P'],
            ['build_meta_message: payload of a valid meta message -> that message with the delta (unknown types too)', 'P'],
            ['load(save(f)) == f with end_of_track fixed, whole files; load-save-load fixed point under byte mutation', 'B'],
            ['loading the same bytes / saving the same file again after an earlier loaded file was edited: same events, same bytes', 'B'],
        ],
        assumptions=['file objects behave like io.BytesIO', 'event-pair coverage lifts to whole tracks (writer state = running status only)'],
        trusted_base=[],
    ),
    'C08': dict(
        level='proof',
        text='write direction: the proved pairwise writer contract IS the canonical SMF encoding (minimal delta VLQs through the '
             'proved encode_variable_int contract, running status exactly when the previous event is a channel message with the '
             'same status and never across meta/sysex, sysex as F0 vlq(len+1) data F7, meta as FF type vlq(len) payload, FF 2F 00 '
             'last, exact chunk length); read direction: read_variable_int is proved for padded VLQs, read_file_header for any '
             'header length >= 6, read_message/read_sysex with clip on/off (clip differs only by replacing bytes > 127 with 127), '
             'DebugFileWrapper is proved transparent, the event-loop dispatch is proved for any running status. The statement over '
             'ALL alternative encodings of whole event lists is a bounded stand-in against an independent reference encoder/decoder.',
        note='same trusted base as C07; the reference codec in contracts/b_files.py is written from the SMF specification and '
             'shares no code with mido',
        clauses=[
            ['canonical bytes for all pairs of event families (write direction)', 'P'],
            ['padded VLQs, long headers, clip semantics, debug wrapper transparency, event-loop dispatch (read direction)', 'P'],
            ['all legal alternative encodings of whole files load to the same events (debug/clip on/off)', 'B'],
        ],
        assumptions=['file objects behave like io.BytesIO'],
        trusted_base=[],
    ),
    'C11': dict(
        level='proof',
        text='with the device behind a port abstracted by a device contract (_send may raise OSError, _receive may do nothing / '
             'return a message / queue a message / close the port itself), the real BasePort.close, __exit__, __del__, '
             'BaseOutput.send/reset, BaseInput.receive/poll/iter_pending/__iter__ and MultiPort._receive/multi_receive are '
             'executed symbolically for every combination of open/closed, pending queue, autoreset, block: close releases the '
             'device exactly once iff the port was open, after sending the 32 reset messages once when autoreset is set (an '
             'OSError from the device is swallowed and the device is still released); send on a closed port raises ValueError; '
             'receive hands out pending messages first (also when closed) without polling; a non-blocking receive never sleeps; a '
             'blocking one only waits while nothing is deliverable and the port is open (loop cut: one arbitrary iteration); '
             'iteration over a closed port drains and stops without exception; MultiPort._receive returns after one pass for both '
             'values of block.',
        note='trusted: pyvc, z3/cvc5; ASSUMED device contract and sequential semantics inside one call; termination of a '
             'blocking receive on an idle open device is environment-dependent and not claimed; SocketPort/PortServer are under C18',
        clauses=[
            ['close idempotent, device released once, autoreset once before release, OSError swallowed; __exit__/__del__; for device '
             'classes that override _send() and for those that override the public send() (rtmidi/amidi style)', 'P'],
            ['reset() / panic(): exactly the documented control changes reach the device, in order, once; nothing on a closed port', 'P'],
            ['send: closed -> ValueError, non-message -> TypeError, else exactly one device send of an equal fresh copy', 'P'],
            ['receive/poll: drain first, non-blocking never waits, waits only while open and nothing deliverable', 'P'],
            ['iteration over a closed port: pending messages in order, then stops, no exception', 'P'],
            ['MultiPort._receive terminates after one pass (block True/False), collects every open port', 'P'],
            ['a device that takes messages in and closes in the same poll: receive / iteration / multi_receive / MultiPort hand every one out', 'P'],
            ['constructors build what the other contracts start from: open, own re-entrant lock, queue is the parser queue (unbounded), _open once', 'P'],
        ],
        assumptions=['device contract for _open/_close/_send/_receive', 'time.sleep returns'],
        trusted_base=[],
    ),
    'C10': dict(
        level='proof',
        text='what contracts can decide about a property over schedules is a SUFFICIENT discipline, and that is what is proved: on '
             'every path of receive (blocking / non-blocking), poll, iter_pending and send of BaseIOPort, EchoPort, MultiPort (and '
             'IOPort), every test/pop/append of the message queue and every use of the device happens while the lock that owns '
             'the queue is held (lock ownership tracked through `with lock:` by the symbolic executor); send passes exactly one '
             'fresh equal copy to the device; receive pops the head; EchoPort appends at the tail. Exactly-once, intact, '
             'per-sender-FIFO delivery under every interleaving then follows from the ASSUMED serialisability of the critical '
             'sections of one re-entrant lock. IOPort violates the discipline (known finding K2).',
        note='trusted: pyvc, z3/cvc5; ASSUMED meta-theorem: critical sections guarded by one lock are serialisable and '
             'deque/list operations inside them are atomic w.r.t. that lock; no schedule is enumerated by the proof - a bounded '
             'stand-in runs real threads with a tiny switch interval',
        clauses=[
            ['queue and device only touched under the owning lock, all public operations, 4 port classes', 'P (K2: IOPort)'],
            ['send hands exactly one fresh equal copy to the device (C11.send), original unchanged', 'P'],
            ['fan-in: MultiPort._receive queues everything it polls, in per-port order, behind what is queued, and returns nothing past the queue', 'P'],
            ['serialisability of critical sections => exactly-once / FIFO under all interleavings', 'assumed meta-theorem'],
            ['real threads: 1-3 senders x 1-2 receivers, sampled schedules', 'B'],
        ],
        assumptions=['critical sections of one lock are serialisable (Python threading.RLock)', 'device double contract'],
        trusted_base=[],
    ),
    'C02': dict(
        level='proof',
        text='Message.from_bytes / decode_message are verified against the MIDI 1.0 well-formedness predicate for integer '
             'sequences of ANY length and ANY integer items: returns => wellformed(b) and spec_encode(result)==b; '
             'ValueError => not wellformed(b); no other exception class escapes (every implicit IndexError/KeyError/TypeError '
             'site is an explicit path). Non-integer items are a bounded stand-in on representative values.',
        note='trusted: pyvc engine, z3/cvc5, the hand-written MIDI 1.0 spec in contracts/spec_midi.py; check_data is used '
             'through its (separately proved) contract at the call site; from_hex rests on an assumed bytearray.fromhex model',
        clauses=[
            ['from_bytes/decode_message: returns => wellformed and bytes reproduce input', 'P'],
            ['ValueError => input not well-formed; no other exception type (integer items)', 'P'],
            ['non-integer items raise TypeError or ValueError', 'B'],
            ['from_hex', 'PA'],
        ],
        assumptions=['bytearray.fromhex / re.sub behave as documented (from_hex clause)'],
        trusted_base=[],
    ),
    'C19': dict(
        level='proof',
        text='write_syx_file and read_syx_file are executed symbolically with builtins.open replaced by a file model. Proved for '
             'message lists of every sysex/non-sysex mix of length 0..3 with payloads of ANY length and content: the binary '
             'writer opens one file \'wb\', writes exactly the concatenation F0 payload F7 of the sysex messages in order and closes '
             'it. The reader is proved structurally: empty file -> []; first byte F0 -> the whole content is fed to one Parser and '
             'its messages are filtered by type == sysex; otherwise the text is decoded latin1, whitespace-normalised by re.sub '
             'and bytearray.fromhex\'d, a ValueError of fromhex propagates. That the parser yields exactly the encoded sysex '
             'messages is C04/C05 (feed contract); hex formatting/parsing, the plaintext writer and the end-to-end round trip are '
             'bounded stand-ins on the real code.',
        note='trusted: pyvc, z3/cvc5, file model of open(); ASSUMED models of re.sub, bytearray.fromhex, Parser.feed (its contract is proved under C04/C05)',
        clauses=[
            ['binary writer: content == concatenation of sysex encodings, non-sysex dropped, any payload length (lists up to 3)', 'P'],
            ['reader structure: empty -> [], F0 -> parser, else latin1 + whitespace strip + fromhex; only sysex kept; ValueError propagates', 'PA'],
            ['round trip both formats, whitespace layouts, non-hex text -> ValueError, payload 0..5000 in mixed lists, single payloads up to 350000', 'B'],
        ],
        assumptions=['open()/file object model', 're.sub and bytearray.fromhex behave as documented', 'Parser contract (proved in C04/C05) composes with the reader'],
        trusted_base=[],
    ),
    'C20': dict(
        level='proof',
        text='the configuration space of C20 is finite; the real Backend.__init__/load/module/_env/_add_api/open_input/open_output/'
             'open_ioport/_get_devices/get_*_names are executed symbolically on the full grid (8640 configurations: backend name '
             'absent/plain/with API suffix x MIDO_BACKEND unset/plain/with suffix x api keyword x use_environ x native IOPort x '
             'get_devices x operation x each relevant MIDO_DEFAULT_* variable set/unset x explicit port name x api in the call x load), '
             'with port names, api strings and environment values SYMBOLIC (any non-empty string), the backend module an abstract '
             'recording object and importlib.import_module / os.environ.get modelled. Each configuration proves: module name '
             'without suffix, imported exactly once and not before first use (unless load), explicit name beats environment beats '
             'None, explicit api beats keyword/suffix api and reaches every constructor and device query, native IOPort vs wrapper '
             'pair, name listings. The same grid with concrete strings plus set_backend rebinding is run on the real code natively '
             '(exhaustive, 9217 configurations).',
        note='trusted: pyvc, z3/cvc5; ASSUMED: importlib.import_module(name) imports the named module once, os.environ.get is a mapping lookup; '
             'explicit port names / api strings / environment values are non-empty (the code treats \'\' as absent)',
        clauses=[
            ['name/api split, lazy single import, load flag', 'P'],
            ['port name precedence explicit > environment (only with use_environ) > None, for any strings', 'P'],
            ['api precedence call kwarg > api keyword > name suffix; reaches Input/Output/IOPort/get_devices', 'P'],
            ['native IOPort vs ports.IOPort(Input, Output) wrapper; I/O names = inputs that are outputs, in input order', 'P'],
            ['set_backend rebinds the six top-level functions; concrete exhaustive grid on the real interpreter', 'B (exhaustive)'],
        ],
        assumptions=['import_module/os.environ models', 'non-empty strings'],
        trusted_base=[],
    ),
    'C18': dict(
        level='proof',
        text='the operating-system side of a connection is an ASSUMED device contract (select may say readable only if a byte is left '
             'or the peer has gone, and may say not-readable at any time - that is every segmentation; read(1) returns the next byte '
             'of an arbitrary stream, b\'\' at its end once the peer has gone, or raises OSError; a connection is released when the '
             'socket and every makefile() object are closed). Against it the real SocketPort._receive is proved with a loop '
             'invariant for a stream of ANY length and content from ANY position: the parser is fed exactly the bytes read, in stream '
             'order, each once, one byte per successful select, nothing after end of stream; the port closes iff end of stream was '
             'read, which requires that every byte was delivered; a closed port has released the connection (socket and both file '
             'objects: peer sees the disconnect). SocketPort.__init__ makes the receive queue the parser queue, _send writes the '
             'encoding once and flushes (broken pipe closes), PortServer.accept/_receive/_send never block on the listener unless '
             'asked, drop closed clients and hand every open client to MultiPort._receive (one pass, C11); '
             'parse_address(format_address(h, p)) == (h, p) for EVERY host without colon and every port 1..65535 (cvc5). That the '
             'parser turns the fed bytes into exactly the complete messages is C04-C06, that iteration drains and ends on a closed '
             'port is C11; the composition and the OS assumptions are exercised on real socketpairs / loopback TCP (bounded).',
        note='trusted: pyvc, z3/cvc5; ASSUMED: device contract of select/read/makefile/close above, str.from_int/str.to_int lemmas, '
             'split/int models; a connection RESET (OSError from read) is re-raised by design and is outside the property',
        clauses=[
            ['SocketPort._receive: fed bytes == stream bytes read, in order, once each; close iff EOF read; no read after EOF / without select', 'P'],
            ['close releases socket and both file objects exactly once (peer sees EOF: assumed OS semantics); idempotent', 'P'],
            ['__init__: queue is the parser queue, unbuffered rb/wb files on the given connection, name is the address', 'P'],
            ['_send: one write of the encoding + flush; errno 32 closes and releases; errors re-raised as OSError', 'P'],
            ['PortServer: non-blocking listener poll, closed clients dropped, every open client polled once, accepted port named after peer', 'P'],
            ['parse_address(format_address(host, port)) == (host, port), all hosts without colon, ports 1..65535', 'P'],
            ['PortServer(host, port[, backlog]) binds to exactly that address and listens, connect(host, port) connects to exactly it; TCP stream socket', 'P'],
            ['bytes fed -> exactly the complete messages (parser, C04-C06); iteration ends cleanly on closed port (C11)', 'PA'],
            ['real socketpair: every cut offset x segmentations; close seen by peer; TCP server with 3 clients; address grid', 'B'],
        ],
        assumptions=['OS device contract (select/read/makefile/close)', 'parser contracts of C04-C06 and port contracts of C11 compose', 'theory lemmas for str.from_int'],
        trusted_base=[],
    ),
}

NOT_APPLICABLE = {}
