"""Per-property metadata: level claimed, clause table, assumptions (source for MANIFEST.json and evidence)."""

_PENDING = 'check not built yet in this session (work in progress, see DESIGN.md §9)'

PROPS = {
    'C01': dict(
        level='proof',
        text='encode_message, Message.bytes/bin/__len__ are proved equal to an independent MIDI 1.0 spec encoding for all 18 '
             'types with every attribute symbolic over its whole documented range (sysex payload: a sequence of any length); '
             'the spec encoding is proved well-formed; the composition from_bytes(bytes()/bin()) == m is proved by executing '
             'the real encoder and decoder back to back on a symbolic valid message. hex()/from_hex() is a bounded stand-in.',
        note='trusted: pyvc engine, z3/cvc5, hand-written MIDI 1.0 spec (contracts/spec_midi.py); check_data used via its proved '
             'contract; hex()/from_hex() clause only bounded (string formatting outside the encoding)',
        clauses=[
            ['bytes()/bin()/encode_message == spec_encode(m); status byte fixed by type and channel; data bytes < 0x80', 'P'],
            ['len(m) == len(bytes())', 'P'],
            ['from_bytes(m.bytes()|m.bin(), time=m.time) == m', 'P'],
            ['from_hex(m.hex(sep)) == m', 'B'],
        ],
        assumptions=[],
        trusted_base=[],
    ),
    'C03': dict(
        level='proof',
        text='object invariant Valid(m) (attribute set fixed by type; every value an Integral inside its documented range; '
             'time a Real; sysex data a SysexData of ints 0..127) is proved to be established by the constructor/from_dict and '
             'preserved by copy(**overrides), attribute assignment, attribute deletion and sysex `data +=`, for all 18 types, '
             'with integer values fully symbolic (every range limit is inside the proof) and one contract clause per exit: '
             'normal => acceptable and Valid and stored-as-given; exception => class in {ValueError, TypeError, AttributeError}, '
             'input not acceptable, original unchanged. By induction over the call history no invalid state is reachable.',
        note='trusted: pyvc engine, z3/cvc5, spec ranges in contracts/spec_midi.py, the object-invariant methodology '
             '(invariant established + preserved by every public operation => holds after every history); non-integer kinds are '
             'checked on representative values of each type (float, nan, str, None, tuple, list, complex); from_str is decided under C14',
        clauses=[
            ['constructor / from_dict: accepted iff acceptable, result Valid, values stored as given', 'P'],
            ['copy(**overrides): same, result fresh, original unchanged on every exit', 'P'],
            ['attribute assignment: accepted iff acceptable; rejected leaves message unchanged; type/attribute set never change', 'P'],
            ['attribute deletion always rejected, message unchanged', 'P'],
            ['sysex data += other', 'P'],
            ['non-integer kinds: representative values per type', 'B'],
            ['from_str', 'see C14'],
        ],
        assumptions=['object-invariant methodology (induction over the history of public calls)'],
        trusted_base=[],
    ),
    'C02': dict(
        level='proof',
        text='Message.from_bytes / decode_message are verified against the MIDI 1.0 well-formedness predicate for integer '
             'sequences of ANY length and ANY integer items: returns => wellformed(b) and spec_encode(result)==b; '
             'ValueError => not wellformed(b); no other exception class escapes (every implicit IndexError/KeyError/TypeError '
             'site is an explicit path). Non-integer items are a bounded stand-in on representative values.',
        note='trusted: pyvc engine, z3/cvc5, the hand-written MIDI 1.0 spec in contracts/spec_midi.py; check_data is used '
             'through its (separately proved) contract at the call site; from_hex rests on an assumed bytearray.fromhex model',
        clauses=[
            ['from_bytes/decode_message: returns => wellformed and bytes reproduce input', 'P'],
            ['ValueError => input not well-formed; no other exception type (integer items)', 'P'],
            ['non-integer items raise TypeError or ValueError', 'B'],
            ['from_hex', 'PA'],
        ],
        assumptions=['bytearray.fromhex / re.sub behave as documented (from_hex clause)'],
        trusted_base=[],
    ),
}

NOT_APPLICABLE = {pid: _PENDING for pid in
                  ['C04', 'C05', 'C06', 'C07', 'C08', 'C09', 'C10', 'C11', 'C12', 'C13', 'C14', 'C15',
                   'C16', 'C17', 'C18', 'C19', 'C20']}
