"""Per-property metadata: level claimed, clause table, assumptions (source for MANIFEST.json and evidence)."""

_PENDING = 'check not built yet in this session (work in progress, see DESIGN.md §9)'

PROPS = {
    'C02': dict(
        level='proof',
        text='Message.from_bytes / decode_message are verified against the MIDI 1.0 well-formedness predicate for integer '
             'sequences of ANY length and ANY integer items: returns => wellformed(b) and spec_encode(result)==b; '
             'ValueError => not wellformed(b); no other exception class escapes (every implicit IndexError/KeyError/TypeError '
             'site is an explicit path). Non-integer items are a bounded stand-in on representative values.',
        note='trusted: pyvc engine, z3/cvc5, the hand-written MIDI 1.0 spec in contracts/spec_midi.py; check_data is used '
             'through its (separately proved) contract at the call site; from_hex rests on an assumed bytearray.fromhex model',
        clauses=[
            ['from_bytes/decode_message: returns => wellformed and bytes reproduce input', 'P'],
            ['ValueError => input not well-formed; no other exception type (integer items)', 'P'],
            ['non-integer items raise TypeError or ValueError', 'B'],
            ['from_hex', 'PA'],
        ],
        assumptions=['bytearray.fromhex / re.sub behave as documented (from_hex clause)'],
        trusted_base=[],
    ),
}

NOT_APPLICABLE = {pid: _PENDING for pid in
                  ['C01', 'C03', 'C04', 'C05', 'C06', 'C07', 'C08', 'C09', 'C10', 'C11', 'C12', 'C13', 'C14', 'C15',
                   'C16', 'C17', 'C18', 'C19', 'C20']}
