"""Bounded stand-in for C17 on the real code: whole save/load calls with faults injected at every byte."""
import io
from pyvc.contract import bounded


@bounded('charset-never-leaks', ('C17',), 'charsets latin1/utf-8/cp1252/shift_jis/utf-16/utf-16-le/utf-7/iso2022_jp x 5 texts x truncation of the saved file at EVERY byte offset, a corrupted data byte at every offset, and save() failing in the n-th message (non-integer time, unencodable text)')
def charset_never_leaks(tier, seed, only=None):
    import mido
    import mido.midifiles.meta as MM
    fails = []
    n = 0
    seen = set()
    # (the long ones make the ENCODED payload 127 / 128 / 129 bytes long in one charset or another: the length-prefix boundary)
    texts = ['abc', 'été', '日本', 'a+b', 'take 1', 'a' * 127, 'a' * 128, 'a' * 129, 'é' * 64, 'a' * 63, 'a' * 64]
    for cs in ('latin1', 'utf-8', 'cp1252', 'shift_jis', 'utf-16', 'utf-16-le', 'utf-7', 'iso2022_jp'):
        for text in texts:
            try:
                text.encode(cs)
            except UnicodeError:
                continue
            mf = mido.MidiFile(charset=cs, type=1)
            tr = mido.MidiTrack([mido.MetaMessage('track_name', name=text), mido.Message('note_on', note=60, time=3),
                                 mido.MetaMessage('lyrics', text=text, time=5), mido.Message('note_off', note=60, time=7)])
            mf.tracks.append(tr)
            buf = io.BytesIO()
            mf.save(file=buf)
            data = buf.getvalue()
            n += 1
            if MM._charset != 'latin1':
                fails.append(dict(clause='charset leaked after a successful save', inputs=dict(charset=cs, text=text), detail=MM._charset))
                MM._charset = 'latin1'
            try:
                back = mido.MidiFile(file=io.BytesIO(data), charset=cs)
                ok = back.tracks[0][0].name == text and back.tracks[0][2].text == text and \
                    bytes(text.encode(cs)) in data
                detail = repr(back.tracks)
                if ok:
                    # the clip option only concerns data bytes of channel/sysex messages: text payloads are untouched by it
                    back2 = mido.MidiFile(file=io.BytesIO(data), charset=cs, clip=True)
                    ok = back2.tracks[0][0].name == text and back2.tracks[0][2].text == text
                    detail = 'loaded with clip=True: ' + repr(back2.tracks)
            except Exception as ex:      # noqa  (a file just saved must load again)
                ok, detail = False, 'loading the file just saved raised %r' % ex
            if not ok or MM._charset != 'latin1':
                fails.append(dict(clause='text does not survive save/load in its charset', inputs=dict(charset=cs, text=text), detail=detail[:300]))
                MM._charset = 'latin1'
            if not ok:
                continue
            variants = [(('truncate', k), data[:k]) for k in range(len(data))]
            variants += [(('corrupt', k), data[:k] + bytes([0xFF if data[k] != 0xFF else 0xF5]) + data[k + 1:]) for k in range(14, len(data))]
            for tag, d in variants:
                n += 1
                seen.add((cs, text, tag))
                try:
                    mido.MidiFile(file=io.BytesIO(d), charset=cs)
                except Exception:
                    pass
                if MM._charset != 'latin1':
                    fails.append(dict(clause='charset leaked out of a failed load', inputs=dict(charset=cs, text=text, fault=list(tag)), detail=MM._charset))
                    MM._charset = 'latin1'
            for pos in range(len(tr)):
                for bad in ('float-time', 'unencodable'):
                    tr2 = mido.MidiTrack(m.copy() for m in tr)
                    if bad == 'float-time':
                        tr2[pos] = tr2[pos].copy(time=1.5)
                    elif tr2[pos].is_meta:
                        tr2[pos] = mido.MetaMessage('lyrics', text='Ж中\U0001F600' if cs not in ('utf-8', 'utf-16') else '\ud800')
                    else:
                        continue
                    mf2 = mido.MidiFile(charset=cs, type=1)
                    mf2.tracks.append(tr2)
                    n += 1
                    seen.add((cs, text, 'save', pos, bad))
                    try:
                        mf2.save(file=io.BytesIO())
                    except Exception:
                        pass
                    if MM._charset != 'latin1':
                        fails.append(dict(clause='charset leaked out of a failed save', inputs=dict(charset=cs, text=text, position=pos, fault=bad), detail=MM._charset))
                        MM._charset = 'latin1'
    return dict(evaluations=n, distinct_nontrivial=len(seen), failures=fails[:20])
