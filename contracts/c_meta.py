"""Contracts for mido/midifiles/meta.py  (C09; the variable-length-quantity contracts are shared with C07/C08)."""
import collections

from pyvc.contract import Contract, contract, LoopSpec, V, attrs_of, cls_of, Harness, raw_function, Lemma, lemma
from pyvc.dsl import (And, Or, Not, Implies, Iff, Ite, All, Ex, AnyOf, eq, at, cat, seq, length, sub, is_z, holds, empty)
from . import spec_smf as F

try:
    import z3
    from pyvc.values import SInt, SBool, SSeq, SStr, Cell, Obj, PyRaise, zseq, IntSeq, INT_EK, Unsupported
    from .spec_smf import HI, VV
except ImportError:
    z3 = None

EVI = 'mido.midifiles.meta:encode_variable_int'


# ====================================================================== encode_variable_int
class _DigitsLoop(LoopSpec):
    """while value: bytes.append(value & 0x7f); value >>= 7"""
    header = 'value'

    def enter(self, ip, fr, seqv):
        st = LoopSpec.enter(self, ip, fr, None)
        st.v0 = V(ip.ctx.h.value)
        return st

    def havoc(self, ip, fr, st):
        fr.env['value'] = SInt(ip.ctx.fresh('value'))
        fr.env['bytes'] = Cell(SSeq(ip.ctx.fresh('digits', IntSeq), list), list)

    def hints(self, ip, fr, st, phase):
        b = zseq(fr.env['bytes'])
        n = z3.Length(b)
        return F.unfold_hi(st.v0, n) + F.unfold_hi(st.v0, n - 1)

    def inv(self, ip, fr, st):
        v0 = st.v0
        v = V(fr.env['value'])
        b = zseq(fr.env['bytes'])
        n = z3.Length(b)
        return [v >= 0, v == HI(v0, n),
                All(0, n, lambda k: b[k] == HI(v0, k) % 128),
                z3.Implies(n > 0, HI(v0, n - 1) != 0)]


class _HighBitLoop(LoopSpec):
    """for i in range(len(bytes) - 1): bytes[i] |= 0x80"""
    header = 'range(len(bytes) - 1)'

    def enter(self, ip, fr, seqv):
        st = LoopSpec.enter(self, ip, fr, seqv)
        st.rev = zseq(fr.env['bytes'])          # the reversed digit list, before any high bit is set
        st.cell = fr.env['bytes']
        return st

    def havoc(self, ip, fr, st):
        c = fr.env['bytes']
        c.v = SSeq(ip.ctx.fresh('vlq', IntSeq), list)

    def inv(self, ip, fr, st):
        b = zseq(fr.env['bytes'])
        rev = st.rev
        L = z3.Length(rev)
        i = st.i
        return [fr.env['bytes'] is st.cell, z3.Length(b) == L,
                All(0, L, lambda k: b[k] == rev[k] + z3.If(k < i, 128, 0))]


@contract
class EncodeVariableInt(Contract):
    target = EVI
    properties = ('C07', 'C08', 'C09')
    loops = {(EVI, 0): _DigitsLoop(), (EVI, 1): _HighBitLoop()}
    raises = {ValueError: 'negative'}

    def inputs(self, h, cfg):
        h.value = h.int('value')
        return [h.value], {}

    def negative(self, h, cfg, a, pr):
        return V(h.value) < 0

    def ensures(self, h, cfg, a, r):
        n = V(h.value)
        rv = V(r)
        out = {'is-list': cls_of(r) is list}
        for i, c in enumerate(F.canonical_vlq(rv, n)):
            out['canonical-vlq.%d' % i] = c
        return out

    def ensure_hints(self, h, cfg, a, r):
        if not h.sym:
            return []
        n = V(h.value)
        return F.unfold_hi(n, z3.IntVal(0))

    def samples(self, cfg):
        return [{'value': v} for v in (0, 1, 127, 128, 129, 255, 16383, 16384, 2097151, 2097152, 268435455, 268435456, 2 ** 40, -1)]

    # ---- what callers may assume: the proved postcondition plus its consequence by lemma VLQ.value (below)
    def call_site(self, ip, fn, args, kwargs):
        (value,) = args
        ctx = ip.ctx
        if not isinstance(value, (SInt, SBool)):
            return ip.call_repo(fn, args, kwargs)          # concrete (or ill-typed) argument: execute the body
        n = V(value) if isinstance(value, SInt) else z3.If(value.e, 1, 0)
        if not ctx.branch(n >= 0):
            raise PyRaise(ValueError, ('variable int must be a non-negative integer',))
        r = ctx.fresh('vlq', IntSeq)
        ctx.assume(F.canonical_vlq(r, n))
        L = z3.Length(r)
        ctx.assume(All(0, L, lambda k: z3.And(r[k] >= 0, r[k] <= 255)))          # consequence of the pointwise clause
        ctx.assume([z3.And(r[L - 1] >= 0, r[L - 1] <= 127), All(0, L - 1, lambda k: z3.And(128 <= r[k], r[k] <= 255))])
        ctx.assume(VV(r, L) == n)                                                 # lemma VLQ.value
        ctx.add_pool(L - 1)
        return Cell(SSeq(r, list), list)


@lemma
class VlqValueLemma(Lemma):
    """canonical_vlq(r, n)  ==>  VV(r, len r) == n   and the bytes have the VLQ shape.
    Induction on i for  claim(i): VV(r, i) == HI(n, L - i)  (0 <= i <= L)."""
    name = 'VLQ.value'
    properties = ('C07', 'C08', 'C09')

    def vcs(self, ctx):
        r = z3.Const('r', IntSeq)
        n, i = z3.Ints('n i')
        L = z3.Length(r)
        hyp = list(F.canonical_vlq(r, n))
        ctx.add_pool(i)
        claim = lambda j: VV(r, j) == HI(n, L - j)
        yield ('base', hyp + F.unfold_vv(r, z3.IntVal(0)), claim(z3.IntVal(0)))
        yield ('step', hyp + [0 <= i, i < L, claim(i)] + F.unfold_vv(r, i) + F.unfold_hi(n, L - i - 1), claim(i + 1))
        yield ('conclusion', hyp + [claim(L)] + F.unfold_hi(n, z3.IntVal(0)), VV(r, L) == n)
        k = z3.Int('k')
        ctx.add_pool(k)
        yield ('bytes', hyp + [0 <= k, k < L], z3.And(r[k] >= 0, r[k] <= 255))
        yield ('shape-last', hyp, z3.And(r[L - 1] >= 0, r[L - 1] <= 127))
        yield ('shape-rest', hyp + [0 <= k, k < L - 1], z3.And(128 <= r[k], r[k] <= 255))


# ====================================================================== MetaMessage: constructor, bytes, round trip (C09)
from . import spec_meta as M          # noqa: E402

CHARSET = 'latin1'
INT_KINDS = ('int', 'bool', 'real', 'str', 'None', 'list')
TEXT_KINDS = ('text', 'int', 'None', 'bytes', 'list')
RATE_VALUES = (24, 25, 29.97, 30)
BAD_RATES = (23, 29.0, 0, '24', None)
BAD_KEYS = ('H', 'c', 'Cbm', '', 5, None)
POW2_EXPONENTS = (0, 1, 2, 3, 7, 8, 29, 31, 63, 64, 200, 255)
DATA_KINDS = ('bytes-tuple', 'bytes-list', 'ints-tuple', 'ints-list', 'text', 'None', 'int', 'floats')


def meta_cfgs():
    out = []
    for t in M.ALL_META:
        tb, attrs = M.META[t]
        out.append({'type': t, 'mode': 'all'})
        out.append({'type': t, 'mode': 'none'})
        out.append({'type': t, 'mode': 'unknown'})
        for (nm, kind, lo, hi, dflt) in attrs:
            if kind == 'int':
                for kd in INT_KINDS:
                    out.append({'type': t, 'mode': 'one', 'name': nm, 'kind': kd})
            elif kind == 'text':
                for kd in TEXT_KINDS:
                    out.append({'type': t, 'mode': 'one', 'name': nm, 'kind': kd})
            elif kind == 'rate':
                for i in range(len(RATE_VALUES)):
                    out.append({'type': t, 'mode': 'one', 'name': nm, 'kind': 'rate', 'idx': i})
                for i in range(len(BAD_RATES)):
                    out.append({'type': t, 'mode': 'one', 'name': nm, 'kind': 'bad-rate', 'idx': i})
            elif kind == 'key':
                for k in sorted(M.KEYS):
                    out.append({'type': t, 'mode': 'one', 'name': nm, 'kind': 'key', 'key': k})
                for i in range(len(BAD_KEYS)):
                    out.append({'type': t, 'mode': 'one', 'name': nm, 'kind': 'bad-key', 'idx': i})
            elif kind == 'pow2':
                for e in range(256):
                    out.append({'type': t, 'mode': 'one', 'name': nm, 'kind': 'pow2', 'exp': e})
                for kd in ('real', 'str', 'None', 'any-int', 'bool'):
                    out.append({'type': t, 'mode': 'one', 'name': nm, 'kind': kd})
            elif kind == 'bytes':
                for kd in DATA_KINDS:
                    out.append({'type': t, 'mode': 'one', 'name': nm, 'kind': kd})
        for kd in ('int', 'real', 'str', 'None'):
            out.append({'type': t, 'mode': 'one', 'name': 'time', 'kind': kd})
    return tuple(out)


def meta_value(h, t, nm, kind, cfg, prefix='new_'):
    """returns (value, acceptable clause, stored-kind)"""
    name = prefix + nm
    akind = dict((a[0], a) for a in M.META[t][1]).get(nm)
    if nm == 'time':
        if kind == 'int':
            return h.int(name), True
        if kind == 'real':
            return h.real(name), True
        return {'str': 'x', 'None': None}[kind], False
    base = akind[1]
    if kind == 'int':
        v = h.int(name)
        if base == 'int':
            return v, M.in_domain(t, nm, V(v))
        return v, False
    if kind == 'bool':
        b = h.bool(name)
        return b, (V(b) if base == 'pow2' else base == 'int')      # True == 1 == 2**0 is in the domain, False == 0 is not
    if kind == 'any-int':
        # ANY integer for the power-of-two attribute: accepted exactly when it is one of 2**0 .. 2**255
        v = h.int(name)
        return v, Or(*[V(v) == 2 ** k for k in range(256)])
    if kind == 'real':
        return h.real(name), False
    if kind == 'str':
        return 'x', False
    if kind == 'None':
        return None, False
    if kind == 'list':
        return [1], False
    if kind == 'text':
        if base == 'bytes':
            return 'ab', False
        return h.str(name), base == 'text'
    if kind == 'bytes':
        return b'ab', False
    if kind == 'rate':
        return RATE_VALUES[cfg['idx']], True
    if kind == 'bad-rate':
        return BAD_RATES[cfg['idx']], False
    if kind == 'key':
        return cfg['key'], True
    if kind == 'bad-key':
        return BAD_KEYS[cfg['idx']], False
    if kind == 'pow2':
        return 2 ** cfg['exp'], True
    if kind in ('bytes-tuple', 'bytes-list'):
        v = h.int_seq(name, tuple if kind == 'bytes-tuple' else list, lo=0, hi=255)
        return v, True
    if kind in ('ints-tuple', 'ints-list'):
        v = h.int_seq(name, tuple if kind == 'ints-tuple' else list)
        d = V(v)
        return v, All(0, length(d), lambda k: And(0 <= at(d, k), at(d, k) <= 255))
    if kind == 'floats':
        return (1.0, 2.0), False
    raise KeyError(kind)


def meta_all_values(h, t, cfg, prefix=''):
    """every attribute supplied with a symbolic value of its own kind (ints unconstrained)"""
    out = {}
    acc = []
    for (nm, kind, lo, hi, dflt) in M.META[t][1]:
        if kind == 'int':
            v, a = meta_value(h, t, nm, 'int', cfg, prefix)
        elif kind == 'text':
            v, a = meta_value(h, t, nm, 'text', cfg, prefix)
        elif kind == 'rate':
            v, a = RATE_VALUES[cfg.get('rate', 0)], True
        elif kind == 'key':
            v, a = cfg.get('key', 'F#m'), True
        elif kind == 'pow2':
            v, a = 2 ** cfg.get('exp', 3), True
        elif kind == 'bytes':
            v, a = meta_value(h, t, nm, 'ints-tuple', cfg, prefix)
        out[nm] = v
        acc.append(a)
    return out, acc


def valid_meta(h, t, prefix=''):
    """an arbitrary VALID meta message of type t (attributes symbolic inside their documented domains)"""
    import mido.midifiles.meta as MM
    attrs = {'type': t}
    cfg = getattr(h, 'cfg', {})
    for (nm, kind, lo, hi, dflt) in M.META[t][1]:
        name = prefix + nm
        if kind == 'int':
            attrs[nm] = h.int(name, lo, hi)
        elif kind == 'text':
            s = h.str(name)
            if h.sym:
                # instance of the ASSUMED codec contract for this text: encodable; its encoding consists of bytes and
                # decodes back to the text
                from pyvc.models import codec_functions, Decodable
                Enc, Dec, Encodable = codec_functions()[:3]
                cs = z3.StringVal(CHARSET)
                e = Enc(cs, V(s))
                h.assume([Encodable(cs, V(s)), Dec(cs, e) == V(s), Decodable(cs, e)])
                h.assume(All(0, z3.Length(e), lambda k, e=e: z3.And(e[k] >= 0, e[k] <= 255)))
            attrs[nm] = s
        elif kind == 'rate':
            attrs[nm] = RATE_VALUES[cfg.get('rate', 0)]
        elif kind == 'key':
            attrs[nm] = cfg.get('key', 'F#m')
        elif kind == 'pow2':
            attrs[nm] = 2 ** cfg.get('exp', 3)
        elif kind == 'bytes':
            if cfg.get('seq') == 'list':
                attrs[nm] = h.int_seq(name, list, lo=0, hi=255, mutable=True)
            else:
                attrs[nm] = h.int_seq(name, tuple, lo=0, hi=255, mutable=False)
    attrs['time'] = h.int(prefix + 'time') if cfg.get('time', 'int') == 'int' else h.real(prefix + 'time')
    h.attrs0 = dict(attrs)
    return h.obj(MM.MetaMessage, attrs)


def enc_text(s):
    """bytes of a text in the current charset: the codec model (symbolic) or CPython (concrete)"""
    if is_z(s):
        from pyvc.models import codec_functions
        return codec_functions()[0](z3.StringVal(CHARSET), s)
    return tuple(s.encode(CHARSET))


def meta_payload(t, attrs):
    return M.payload(t, {k: V(v) for k, v in attrs.items() if k not in ('type', 'time')}, enc_text)


def same(a, b):
    from .c_state import same_value
    return same_value(a, b)


class _SeqSpecCheckLoop(LoopSpec):
    """for byte in value: check_int(byte, 0, 255)     (MetaSpec_sequencer_specific.check)"""
    header = 'value'

    def inv(self, ip, fr, st):
        s = st.seq
        return [All(0, st.i, lambda k: z3.And(0 <= s[k], s[k] <= 255))]


SSC = ('mido.midifiles.meta:MetaSpec_sequencer_specific.check', 0)


@contract
class MetaInit(Contract):
    target = 'mido.midifiles.meta:MetaMessage.__init__'
    properties = ('C09',)
    configs = meta_cfgs()
    loops = {SSC: _SeqSpecCheckLoop()}
    raises = {ValueError: 'rejected', TypeError: 'rejected'}

    def callee(self, h, cfg):
        import mido.midifiles.meta as MM
        return MM.MetaMessage

    def inputs(self, h, cfg):
        t = cfg['type']
        h.given = {}
        h.acc = []
        if cfg['mode'] == 'all':
            vals, acc = meta_all_values(h, t, cfg, 'new_')
            h.given, h.acc = vals, acc
            h.given['time'] = h.int('new_time')
        elif cfg['mode'] == 'one':
            v, a = meta_value(h, t, cfg['name'], cfg['kind'], cfg)
            h.given[cfg['name']] = v
            h.acc = [a]
        elif cfg['mode'] == 'unknown':
            h.given['bogus_attribute'] = 1
            h.acc = [False]
        return [t], dict(h.given)

    def ensures(self, h, cfg, a, r):
        import mido.midifiles.meta as MM
        t = cfg['type']
        out = {'is-MetaMessage': cls_of(r) is MM.MetaMessage}
        for i, c in enumerate(h.acc):
            out['accepted-only-if-documented.%d' % i] = c
        attrs = attrs_of(r)
        names = M.attrs_of_type(t)
        out['attribute-set'] = set(attrs.keys()) == set(names) | {'type', 'time'}
        if not out['attribute-set']:
            return out
        out['type'] = attrs['type'] == t
        dflt = {a[0]: a[4] for a in M.META[t][1]}
        dflt['time'] = 0
        for nm in names + ['time']:
            if nm in h.given:
                out[nm + '-stored-as-given'] = same(attrs[nm], h.given[nm])
            else:
                dv = dflt[nm]
                sv = attrs[nm]
                out[nm + '-default'] = eq(V(sv), V(dv)) if not isinstance(dv, (str, float)) else sv == dv
        return out

    def rejected(self, h, cfg, a, pr):
        parts = [Not(c) if not isinstance(c, All) else Ex(c.lo, c.hi, lambda k, c=c: Not(c.f(k))) for c in h.acc]
        if not parts:
            return False
        return AnyOf(parts)


def _setattr_cfgs():
    out = [c for c in meta_cfgs() if c['mode'] == 'one']
    for t in M.ALL_META:
        out.append({'type': t, 'mode': 'unknown'})
        out.append({'type': t, 'mode': 'type'})
    return tuple(out)


@contract
class MetaSetattr(Contract):
    """checked assignment on an ARBITRARY valid meta message (so: after any history of accepted assignments): a value is
    stored exactly when it lies in the documented domain of the attribute, the other attributes keep their values, and a
    rejected assignment (ValueError / TypeError; AttributeError for `type` and unknown names) changes nothing."""
    target = 'mido.midifiles.meta:MetaMessage._setattr'
    properties = ('C09',)
    configs = _setattr_cfgs()
    loops = {SSC: _SeqSpecCheckLoop()}
    raises = {ValueError: 'rejected', TypeError: 'rejected', AttributeError: 'no_such_attribute'}

    def inputs(self, h, cfg):
        t = cfg['type']
        h.cfg = {}
        h.m = valid_meta(h, t, 'old_')
        if cfg['mode'] == 'one':
            h.name = cfg['name']
            h.value, h.ok = meta_value(h, t, cfg['name'], cfg['kind'], cfg)
        elif cfg['mode'] == 'unknown':
            h.name, h.value, h.ok = 'bogus_attribute', 1, False
        else:
            h.name, h.value, h.ok = 'type', t, False
        return [h.m, h.name, h.value], {}

    def _unchanged(self, h):
        from .c_state import unchanged
        return unchanged(attrs_of(h.m), h.attrs0)

    def ensures(self, h, cfg, a, r):
        attrs = attrs_of(h.m)
        out = {'returns-None': r is None, 'accepted-only-if-documented': h.ok,
               'attribute-set-unchanged': set(attrs.keys()) == set(h.attrs0.keys())}
        if not out['attribute-set-unchanged'] or h.name not in attrs:
            return out
        out['stored-as-given'] = same(attrs[h.name], h.value)
        for k in h.attrs0:
            if k != h.name:
                out['other-attribute-kept.' + k] = same(attrs[k], h.attrs0[k])
        return out

    def rejected(self, h, cfg, a, pr):
        c = h.ok
        bad = Not(c) if not isinstance(c, All) else Ex(c.lo, c.hi, lambda k, c=c: Not(c.f(k)))
        return [bad, self._unchanged(h)]

    def no_such_attribute(self, h, cfg, a, pr):
        return [cfg['mode'] in ('unknown', 'type'), self._unchanged(h)]

    def samples(self, cfg):
        return []


def _valid_cfgs():
    out = []
    for t in M.ALL_META:
        if t == 'smpte_offset':
            out += [{'type': t, 'rate': i} for i in range(4)]
        elif t == 'key_signature':
            out += [{'type': t, 'key': k} for k in sorted(M.KEYS)]
        elif t == 'time_signature':
            out += [{'type': t, 'exp': e} for e in range(256)]
        else:
            out.append({'type': t})
    return tuple(out)


@contract
class MetaBytes(Contract):
    target = 'mido.midifiles.meta:MetaMessage.bytes'
    properties = ('C09', 'C07', 'C08')
    configs = _valid_cfgs()
    use = (EVI,)
    raises = {}

    def inputs(self, h, cfg):
        h.cfg = cfg
        h.m = valid_meta(h, cfg['type'])
        return [h.m], {}

    def ensures(self, h, cfg, a, r):
        t = cfg['type']
        rv = V(r)
        pl = meta_payload(t, h.attrs0)
        n = length(pl)
        out = {'is-list': cls_of(r) is list}
        if h.sym:
            L = length(rv) - 2 - n
            vl = sub(rv, 2, 2 + L)
            out['header'] = And(length(rv) >= 3 + n, at(rv, 0) == 0xFF, at(rv, 1) == M.META[t][0])
            nc = z3.simplify(n) if is_z(n) else n
            if is_z(nc) and z3.is_int_value(nc):
                nc = nc.as_long()
            if isinstance(nc, int):
                out['length-is-canonical-vlq'] = eq(vl, seq(F.vlq_py(nc)))       # fixed-size payload
            else:
                for i, c in enumerate(F.canonical_vlq(vl, n)):
                    out['length-is-canonical-vlq.%d' % i] = c
            pe = eq(sub(rv, 2 + L, length(rv)), pl)
            if t == 'smpte_offset':
                # SMF packs the hour into 5 bits (0rrhhhhh): the layout is only defined for hours <= 31
                pe = Implies(V(h.attrs0['hours']) <= 31, pe)
            out['payload'] = pe
            out['all-bytes'] = All(0, length(rv), lambda k: And(0 <= at(rv, k), at(rv, k) <= 255))
        else:
            want = [0xFF, M.META[t][0]] + F.vlq_py(len(pl)) + list(pl)
            out['equals-FF-type-vlq(len)-payload'] = list(r) == want or (t == 'smpte_offset' and h.attrs0['hours'] > 31
                                                                            and list(r)[:3] == want[:3] and list(r)[4:] == want[4:])
            out['all-bytes'] = all(isinstance(b, int) and 0 <= b <= 255 for b in r)
        return out

    def ensure_hints(self, h, cfg, a, r):
        return []

    def frame(self, h, cfg, a):
        from .c_state import unchanged
        return {'message-unchanged': unchanged(attrs_of(h.m), h.attrs0)}


# ====================================================================== decode_variable_int
DVI = 'mido.midifiles.meta:decode_variable_int'


class _MaskLoop(LoopSpec):
    """for i in range(len(value) - 1): value[i] &= ~0x80"""
    header = 'range(len(value) - 1)'

    def enter(self, ip, fr, seqv):
        st = LoopSpec.enter(self, ip, fr, seqv)
        st.old = zseq(fr.env['value'])
        st.cell = fr.env['value']
        return st

    def havoc(self, ip, fr, st):
        fr.env['value'].v = SSeq(ip.ctx.fresh('masked', IntSeq), list)

    def inv(self, ip, fr, st):
        b = zseq(fr.env['value'])
        old = st.old
        L = z3.Length(old)
        i = st.i
        return [fr.env['value'] is st.cell, z3.Length(b) == L,
                All(0, L, lambda k: b[k] == z3.If(k < i, old[k] - ((old[k] / 128) % 2) * 128, old[k]))]


class _FoldLoop(LoopSpec):
    """val = 0; for i in value: val <<= 7; val |= i"""
    header = 'value'

    def enter(self, ip, fr, seqv):
        st = LoopSpec.enter(self, ip, fr, seqv)
        st.orig = ip.ctx.h.orig
        return st

    def havoc(self, ip, fr, st):
        fr.env['val'] = SInt(ip.ctx.fresh('val'))

    def hints(self, ip, fr, st, phase):
        return F.unfold_vv(st.orig, st.i - 1) + F.unfold_vv(st.orig, st.i)

    def inv(self, ip, fr, st):
        return [V(fr.env['val']) == VV(st.orig, st.i), V(fr.env['val']) >= 0]


@contract
class DecodeVariableInt(Contract):
    """for an argument of VLQ shape the result is its value; the argument list is modified (masked), which is why
    callers must pass a copy (checked at the call sites: from_bytes passes a fresh slice)"""
    target = DVI
    properties = ('C09',)
    loops = {(DVI, 0): _MaskLoop(), (DVI, 1): _FoldLoop()}
    raises = {}

    def inputs(self, h, cfg):
        h.s = h.int_seq('s', list, lo=0, hi=255, mutable=True)
        h.orig = V(h.s)
        h.assume(F.is_vlq_shape(h.orig))
        return [h.s], {}

    def ensures(self, h, cfg, a, r):
        o = h.orig
        if h.sym:
            return {'value-of-the-vlq': V(r) == VV(o, z3.Length(o))}
        return {'value-of-the-vlq': r == F.vlq_value_py(o)}

    def ensure_hints(self, h, cfg, a, r):
        return []

    def samples(self, cfg):
        return [{'s': F.vlq_py(v)} for v in (0, 1, 127, 128, 300, 16383, 16384, 2 ** 28 - 1, 2 ** 40)]

    def call_site(self, ip, fn, args, kwargs):
        (s,) = args
        ctx = ip.ctx
        if not isinstance(s, Cell):
            return ip.call_repo(fn, args, kwargs)
        old = s.v.e
        # the list is masked in place; nothing else is known about it afterwards
        s.v = SSeq(ctx.fresh('masked', IntSeq), list)
        ctx.assume(z3.Length(s.v.e) == z3.Length(old))
        r = ctx.fresh('decoded')
        L = z3.Length(old)
        # proved postcondition:  VLQ-shape(old)  ==>  r == VV(old, len old)
        # written as  (exists k: old[k] breaks the shape)  or  r == VV(...)
        ctx.assume(AnyOf([L < 1, Not(z3.And(old[L - 1] >= 0, old[L - 1] <= 127)),
                          Ex(0, L - 1, lambda k: Not(z3.And(128 <= old[k], old[k] <= 255))),
                          r == VV(old, L)]))
        return SInt(r)


# ====================================================================== MetaMessage.from_bytes / build_meta_message round trip
MFB = 'mido.midifiles.meta:MetaMessage.from_bytes'


class _ScanLoop(LoopSpec):
    """while flag and scan_end < len(msg_bytes): ...   (the length-prefix scan of from_bytes)

    msg = [0xFF, type] ++ vlq ++ payload with vlq the canonical VLQ of len(payload).  Invariant:
        flag and 2 <= scan_end < 2 + len(vlq)          (still inside the length prefix, nothing accepted yet)
     or not flag and scan_end == 2 + len(vlq) and data == payload"""
    header = 'flag and scan_end < len(msg_bytes)'

    def enter(self, ip, fr, seqv):
        st = LoopSpec.enter(self, ip, fr, None)
        st.msg = zseq(fr.env['msg_bytes'])
        return st

    def havoc(self, ip, fr, st):
        ctx = ip.ctx
        fr.env['scan_end'] = SInt(ctx.fresh('scan_end'))
        fr.env['flag'] = SBool(ctx.fresh('flag', z3.BoolSort()))
        fr.env['data'] = Cell(SSeq(ctx.fresh('data', IntSeq), list), list)

    def hints(self, ip, fr, st, phase):
        from pyvc.solve import Have
        if phase != 'preserved':
            return []
        h = ip.ctx.h
        msg, L = st.msg, h.L
        se = V(fr.env['scan_end'])          # value after the increment
        vlq = getattr(h, 'vlq', None)
        out = []
        if vlq is not None:
            out.append(Have(z3.Implies(z3.And(3 <= se, se <= 2 + L), msg[se - 1] == vlq[se - 3]), 'length-prefix-byte'))
            out.append(Have(z3.Implies(se == 2 + L, z3.Extract(msg, se, z3.Length(msg) - se) == h.payload), 'rest-is-payload'))
            out.append(Have(z3.Implies(se == 2 + L, z3.Extract(msg, z3.IntVal(2), se - 2) == vlq), 'prefix-is-vlq'))
        return out

    def variant(self, ip, fr, st):
        return z3.Length(st.msg) - V(fr.env['scan_end']) + z3.If(V(fr.env['flag']) if isinstance(fr.env['flag'], SBool) else z3.BoolVal(bool(fr.env['flag'])), 1, 0)

    def inv(self, ip, fr, st):
        h = ip.ctx.h
        L = h.L
        se = V(fr.env['scan_end'])
        fl = fr.env['flag']
        fl = fl.e if isinstance(fl, SBool) else z3.BoolVal(bool(fl))
        d = fr.env['data']
        dv = zseq(d) if not isinstance(d, list) or d else z3.Empty(IntSeq)
        return [z3.Or(z3.And(fl, 2 <= se, se < 2 + L),
                      z3.And(z3.Not(fl), se == 2 + L, dv == h.payload))]


def _rt_cfgs():
    return _valid_cfgs() + ({'type': 'sequencer_specific', 'seq': 'list'},)


_FROM_BYTES_RT = Harness('''
    def from_bytes_of_bytes(MetaMessage, m):
        return MetaMessage.from_bytes(m.bytes()) == m
''')
_BUILD_RT = Harness('''
    def build_from_payload(build_meta_message, m):
        b = m.bytes()
        # the bytes of the message as they are stored in a track: type byte and payload (reader strips FF and length)
        return b
''')


@contract
class MetaRoundTrip(Contract):
    """MetaMessage.from_bytes(m.bytes()) == m for every valid meta message (time 0: from_bytes has no time argument)"""
    key = 'C09.from_bytes(bytes(m))==m'
    target = MFB
    properties = ('C09',)
    configs = _rt_cfgs()
    use = (EVI, DVI)
    loops = {(MFB, 0): _ScanLoop(), SSC: _SeqSpecCheckLoop()}
    raises = {}

    def callee(self, h, cfg):
        return _FROM_BYTES_RT.get(h)

    def inputs(self, h, cfg):
        import mido.midifiles.meta as MM
        h.cfg = dict(cfg)
        h.m = valid_meta(h, cfg['type'])
        attrs_of(h.m)['time'] = 0
        h.attrs0['time'] = 0
        if h.sym:
            pl = meta_payload(cfg['type'], h.attrs0)
            h.payload = pl
            n = z3.Length(pl)
            nc = z3.simplify(n)
            if z3.is_int_value(nc):
                h.L = z3.IntVal(len(F.vlq_py(nc.as_long())))
            else:
                # length of the canonical VLQ of n: the unique L with HI(n, L) == 0 and (L > 1 => HI(n, L-1) != 0);
                # it is introduced as a ghost constant and tied to the encoder's result by the call-site contract
                h.L = z3.Int('ghost_vlq_len')
        return [MM.MetaMessage, h.m], {}

    def setup(self, h, cfg, ip):
        # tie the ghost L to the length of the VLQ produced inside m.bytes(): done by wrapping the EVI hook
        evi_fn = raw_function(EVI)
        inner = ip.hooks.get(evi_fn)

        def wrapped(ip2, args, kwargs):
            r = inner(ip2, args, kwargs)
            if isinstance(r, Cell):
                h.vlq = r.v.e
            if isinstance(r, Cell) and not z3.is_int_value(h.L):
                ip2.ctx.assume(h.L == z3.Length(r.v.e))
            return r
        ip.hooks = dict(ip.hooks)
        ip.hooks[evi_fn] = wrapped

    def ensures(self, h, cfg, a, r):
        return {'equal-to-original': eq(V(r), True)}

    def samples(self, cfg):
        t = cfg['type']
        out = []
        if t in M.TEXT_TYPES:
            for n in (0, 1, 127, 128, 129, 255, 256, 16383, 16384, 16385):
                out.append({M.TEXT_TYPES[t][1]: 'x' * n, 'time': 0})
            out.append({M.TEXT_TYPES[t][1]: '\u00e9\u00ff abc', 'time': 0})
        elif t == 'sequencer_specific':
            for n in (0, 1, 127, 128, 129, 16383, 16384):
                out.append({'data': [(7 * i) % 256 for i in range(n)], 'time': 0})
        return out
