"""Lemmas over the track spec functions PS / FO / FA of c_tracks.py (C12, C07): proved by induction, Dafny-style
(the induction hypothesis is an explicit instance at the predecessor, definitions are unfolded explicitly)."""
import z3
from pyvc.contract import Lemma, lemma
from .c_tracks import spec_fns, unfold_ps, unfold_fix, eot


@lemma
class PrefixSumIgnoresLaterElements(Lemma):
    """PFX:  0 <= j <= len(a)  ==>  PS(a ++ [m], j) == PS(a, j)        (induction on j)"""
    name = 'tracks.PFX'
    properties = ('C12', 'C07')

    def vcs(self, ctx):
        ek = spec_fns()
        a = z3.Const('a', ek.seqsort)
        m = z3.Const('m', ek.D)
        j = z3.Int('j')
        am = z3.Concat(a, z3.Unit(m))
        claim = lambda x: ek.PS(am, x) == ek.PS(a, x)
        yield ('base', unfold_ps(ek, am, z3.IntVal(0)) + unfold_ps(ek, a, z3.IntVal(0)), claim(z3.IntVal(0)))
        yield ('step', [0 <= j, j < z3.Length(a), claim(j)] + unfold_ps(ek, am, j) + unfold_ps(ek, a, j), claim(j + 1))
        yield ('append', [claim(z3.Length(a))] + unfold_ps(ek, am, z3.Length(a)),
               ek.PS(am, z3.Length(a) + 1) == ek.PS(a, z3.Length(a)) + ek.time(m))


@lemma
class FixKeepsAbsoluteTimes(Lemma):
    """L2:  0 <= i <= len(s)  ==>  PS(FO(s,i), len FO(s,i)) + FA(s,i) == PS(s,i)   and   FA(s,i) >= 0 (for non-negative deltas).
    Consequences: the message yielded for s[i] (not an end_of_track) sits at absolute time PS(s, i+1), and the total
    duration PS(FO ++ [eot(FA)]) equals PS(s, len s)."""
    name = 'tracks.fix-keeps-absolute-times'
    properties = ('C12', 'C07')

    def vcs(self, ctx):
        ek = spec_fns()
        s = z3.Const('s', ek.seqsort)
        i = z3.Int('i')
        fo = lambda x: ek.FO(s, x)
        tot = lambda x: ek.PS(fo(x), z3.Length(fo(x))) + ek.FA(s, x)
        claim = lambda x: tot(x) == ek.PS(s, x)
        yield ('base', unfold_fix(ek, s, z3.IntVal(0)) + unfold_ps(ek, s, z3.IntVal(0)) + unfold_ps(ek, fo(z3.IntVal(0)), z3.IntVal(0)),
               claim(z3.IntVal(0)))
        m = s[i]
        m2 = ek.retime(m, ek.FA(s, i) + ek.time(m))
        a = fo(i)
        am = z3.Concat(a, z3.Unit(m2))
        pfx = ek.PS(am, z3.Length(a) + 1) == ek.PS(a, z3.Length(a)) + ek.time(m2)      # lemma PFX.append, instance
        yield ('step', [0 <= i, i < z3.Length(s), claim(i), pfx] + unfold_fix(ek, s, i) + unfold_ps(ek, s, i), claim(i + 1))
        # the final output FO ++ [eot(FA)] has the same total as the input
        n = z3.Length(s)
        fin = z3.Concat(fo(n), z3.Unit(eot(ek, ek.FA(s, n))))
        pfx2 = ek.PS(fin, z3.Length(fo(n)) + 1) == ek.PS(fo(n), z3.Length(fo(n))) + ek.time(eot(ek, ek.FA(s, n)))
        yield ('total-duration-preserved', [claim(n), pfx2], ek.PS(fin, z3.Length(fin)) == ek.PS(s, n))


@lemma
class FixOutputHasNoInnerEndOfTrack(Lemma):
    """L1:  0 <= i <= len(s), 0 <= k < len FO(s,i)  ==>  FO(s,i)[k] is not an end_of_track      (induction on i)"""
    name = 'tracks.no-end_of_track-before-the-last'
    properties = ('C12', 'C07')

    def vcs(self, ctx):
        ek = spec_fns()
        s = z3.Const('s', ek.seqsort)
        i, k = z3.Ints('i k')
        fo = lambda x: ek.FO(s, x)
        ctx.add_pool(k)
        yield ('base', unfold_fix(ek, s, z3.IntVal(0)) + [0 <= k, k < z3.Length(fo(z3.IntVal(0)))], z3.BoolVal(False))
        ih = z3.Implies(z3.And(0 <= k, k < z3.Length(fo(i))), z3.Not(ek.is_eot(fo(i)[k])))
        yield ('step', [0 <= i, i < z3.Length(s), ih, 0 <= k, k < z3.Length(fo(i + 1))] + unfold_fix(ek, s, i),
               z3.Not(ek.is_eot(fo(i + 1)[k])))


@lemma
class ReltimeTelescopes(Lemma):
    """L3: for r with r[k] = b[k] re-timed to time(b[k]) - time(b[k-1]) (time(b[-1]) := 0):
           1 <= j <= len(b)  ==>  PS(r, j) == time(b[j-1])                                     (induction on j)"""
    name = 'tracks.reltime-telescopes'
    properties = ('C12',)

    def vcs(self, ctx):
        ek = spec_fns()
        b, r = z3.Consts('b r', ek.seqsort)
        j = z3.Int('j')
        prev = lambda k: z3.If(k == 0, z3.IntVal(0), ek.time(b[k - 1]))
        defn = lambda k: z3.Implies(z3.And(0 <= k, k < z3.Length(b)), r[k] == ek.retime(b[k], ek.time(b[k]) - prev(k)))
        hyp = [z3.Length(r) == z3.Length(b)]
        yield ('base', hyp + [z3.Length(b) >= 1, defn(z3.IntVal(0))] + unfold_ps(ek, r, z3.IntVal(0)), ek.PS(r, z3.IntVal(1)) == ek.time(b[0]))
        yield ('step', hyp + [1 <= j, j < z3.Length(b), ek.PS(r, j) == ek.time(b[j - 1]), defn(j)] + unfold_ps(ek, r, j),
               ek.PS(r, j + 1) == ek.time(b[j]))


@lemma
class AbstimeIsMonotone(Lemma):
    """for non-negative deltas the absolute times PS(s, k+1) are non-decreasing, so the last message of a track carries
    the track's total duration"""
    name = 'tracks.abstime-monotone'
    properties = ('C12',)

    def vcs(self, ctx):
        ek = spec_fns()
        s = z3.Const('s', ek.seqsort)
        k = z3.Int('k')
        yield ('step', [0 <= k, k < z3.Length(s), ek.time(s[k]) >= 0] + unfold_ps(ek, s, k), ek.PS(s, k + 1) >= ek.PS(s, k))
