"""Bounded stand-ins for C04-C06: the parser must not care which Integral type the bytes have, nor how a stream is cut into chunks."""
import enum
import random

from pyvc.contract import bounded


class _Int(int):
    """an int subclass (what numpy-like scalar types and user wrappers look like to the parser)"""


_Byte = enum.IntEnum('_Byte', {'B%d' % i: i for i in range(256)})


@bounded('integral-types-of-bytes', ('C04', 'C05', 'C06'), 'streams of 1..40 bytes (300 random, 3000 thorough, plus hand-written ones with sysex, real-time inside sysex, running '
         'data, undefined and stray bytes) fed as ints, bools where 0/1, an int subclass, IntEnum members, via feed / feed_byte / Parser(data): same messages as for plain ints')
def integral_types(tier, seed, only=None):
    import mido
    rng = random.Random(seed)
    fails, n, seen = [], 0, set()
    streams = [[0xF0, 1, 2, 0xF7], [0xF0, 0xF7], [0xF0, 1, 0xF8, 2, 0xFE, 0xF7, 0x90, 1, 2], [0x90, 0xF8, 0x90, 60, 100], [0xF0, 1, 0x90, 2, 3, 0xF7],
               [0, 1, 0xF7, 0xF4, 0xC0, 1, 0xF5, 0xF2, 0, 1], [0xF6, 0xF0, 0xF6, 0xF7], [1, 0, 0xF8, 1, 0]]
    for _ in range(300 if tier == 'quick' else 3000):
        streams.append([rng.choice([rng.randrange(256), rng.choice([0xF0, 0xF7, 0xF8, 0x90, 0, 1, 0x7F, 0x80])]) for _ in range(rng.randrange(1, 41))])
    for st in streams:
        want = mido.parse_all(list(st))
        for conv_name, conv in (('int subclass', _Int), ('IntEnum', _Byte), ('bool where possible', lambda b: bool(b) if b in (0, 1) else b)):
            data = [conv(b) for b in st]
            for how in ('feed', 'feed_byte', 'constructor'):
                n += 1
                seen.add((tuple(st), conv_name, how))
                try:
                    p = mido.Parser(data) if how == 'constructor' else mido.Parser()
                    if how == 'feed':
                        p.feed(data)
                    elif how == 'feed_byte':
                        for b in data:
                            p.feed_byte(b)
                    got = list(p)          # compared with == (True == 1: a bool is a perfectly good 0/1 byte)
                    ok, detail = got == want, '%r instead of %r' % (got[:4], want[:4])
                except Exception as ex:      # noqa
                    ok, detail = False, repr(ex)
                if not ok:
                    fails.append(dict(clause='the messages parsed do not depend on the Integral type of the bytes', inputs=dict(stream=list(st), items_as=conv_name, via=how), detail=detail[:300]))
    return dict(evaluations=n, distinct_nontrivial=len(seen), failures=fails[:20])


@bounded('chunking-of-streams', ('C05',), 'hand-written streams (real-time bytes inside fixed-length messages and inside sysex, undefined status bytes, stray data, '
         'truncated messages) plus 150 (1500 thorough) random streams of 1..24 bytes; EVERY cut of a stream of <= 9 bytes into consecutive chunks, 40 random cuts otherwise; '
         'chunks given as bytes / bytearray / list / tuple / generator, a one-byte chunk also through feed_byte; compared with the whole stream fed at once')
def chunking(tier, seed, only=None):
    import itertools
    import mido
    rng = random.Random(seed)
    fails, n, seen = [], 0, set()
    streams = [[0x90, 0x3C, 0xF8, 0x40], [0x90, 0xF8, 0x3C, 0x40], [0xF0, 1, 0xF8, 2, 0xF7], [0xF0, 0xFA, 0xF7], [0xE0, 1, 0xFF, 2, 0xE0, 3, 4],
               [0xF2, 1, 0xF9, 2], [0xF2, 1, 0xFD, 2, 3], [0xC0, 0xFE, 5, 6], [0x80, 1, 0xF4, 2, 3], [0xF0, 1, 0xF4, 2, 0xF7], [0xF1, 0xF8, 0x10],
               [0xB0, 7, 0xFB, 0xFC, 100, 8, 9], [0xF8], [0xFF, 0xFE], [0x90, 1, 2, 3, 4], [0xF7, 0xF0, 0xF7], [0xF6, 0xF3, 0xF6, 1]]
    for _ in range(150 if tier == 'quick' else 1500):
        streams.append([rng.choice([rng.randrange(256), rng.choice([0xF0, 0xF7, 0xF8, 0xFE, 0x90, 0xC0, 0xF2, 0, 1, 0x7F])]) for _ in range(rng.randrange(1, 25))])
    kinds = (('bytes', bytes), ('bytearray', bytearray), ('list', list), ('tuple', tuple), ('generator', lambda c: (b for b in c)))
    for st in streams:
        want = mido.parse_all(list(st))
        L = len(st)
        if L <= 9:
            cuts = [c for r in range(L) for c in itertools.combinations(range(1, L), r)]
        else:
            cuts = [tuple(sorted(rng.sample(range(1, L), rng.randrange(1, min(L, 8))))) for _ in range(40)] + [tuple(range(1, L))]
        for cut in cuts:
            bounds = [0] + list(cut) + [L]
            chunks = [st[a:b] for a, b in zip(bounds, bounds[1:])]
            for kname, conv in kinds:
                for single_via_feed_byte in (False, True):
                    if single_via_feed_byte and not any(len(c) == 1 for c in chunks):
                        continue
                    n += 1
                    seen.add((tuple(st), cut))
                    try:
                        p = mido.Parser()
                        got = []
                        for i, c in enumerate(chunks):
                            if single_via_feed_byte and len(c) == 1:
                                p.feed_byte(c[0])
                            else:
                                p.feed(conv(c))
                            if i % 2:
                                got.extend(p)          # retrieval interleaved with feeding
                        got.extend(p)
                        ok, detail = got == want, '%r instead of %r' % (got[:4], want[:4])
                    except Exception as ex:      # noqa
                        ok, detail = False, repr(ex)
                    if not ok:
                        fails.append(dict(clause='the messages parsed do not depend on how the stream is cut into chunks',
                                          inputs=dict(stream=list(st), chunks=[list(c) for c in chunks], chunks_as=kname, one_byte_chunks_via_feed_byte=single_via_feed_byte),
                                          detail=detail[:300]))
    return dict(evaluations=n, distinct_nontrivial=len(seen), failures=fails[:20])
