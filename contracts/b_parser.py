"""Bounded stand-in for C04-C06: the parser must not care which Integral type the bytes have."""
import enum
import random

from pyvc.contract import bounded


class _Int(int):
    """an int subclass (what numpy-like scalar types and user wrappers look like to the parser)"""


_Byte = enum.IntEnum('_Byte', {'B%d' % i: i for i in range(256)})


@bounded('integral-types-of-bytes', ('C04', 'C05', 'C06'), 'streams of 1..40 bytes (300 random, 3000 thorough, plus hand-written ones with sysex, real-time inside sysex, running '
         'data, undefined and stray bytes) fed as ints, bools where 0/1, an int subclass, IntEnum members, via feed / feed_byte / Parser(data): same messages as for plain ints')
def integral_types(tier, seed, only=None):
    import mido
    rng = random.Random(seed)
    fails, n, seen = [], 0, set()
    streams = [[0xF0, 1, 2, 0xF7], [0xF0, 0xF7], [0xF0, 1, 0xF8, 2, 0xFE, 0xF7, 0x90, 1, 2], [0x90, 0xF8, 0x90, 60, 100], [0xF0, 1, 0x90, 2, 3, 0xF7],
               [0, 1, 0xF7, 0xF4, 0xC0, 1, 0xF5, 0xF2, 0, 1], [0xF6, 0xF0, 0xF6, 0xF7], [1, 0, 0xF8, 1, 0]]
    for _ in range(300 if tier == 'quick' else 3000):
        streams.append([rng.choice([rng.randrange(256), rng.choice([0xF0, 0xF7, 0xF8, 0x90, 0, 1, 0x7F, 0x80])]) for _ in range(rng.randrange(1, 41))])
    for st in streams:
        want = mido.parse_all(list(st))
        for conv_name, conv in (('int subclass', _Int), ('IntEnum', _Byte), ('bool where possible', lambda b: bool(b) if b in (0, 1) else b)):
            data = [conv(b) for b in st]
            for how in ('feed', 'feed_byte', 'constructor'):
                n += 1
                seen.add((tuple(st), conv_name, how))
                try:
                    p = mido.Parser(data) if how == 'constructor' else mido.Parser()
                    if how == 'feed':
                        p.feed(data)
                    elif how == 'feed_byte':
                        for b in data:
                            p.feed_byte(b)
                    got = list(p)          # compared with == (True == 1: a bool is a perfectly good 0/1 byte)
                    ok, detail = got == want, '%r instead of %r' % (got[:4], want[:4])
                except Exception as ex:      # noqa
                    ok, detail = False, repr(ex)
                if not ok:
                    fails.append(dict(clause='the messages parsed do not depend on the Integral type of the bytes', inputs=dict(stream=list(st), items_as=conv_name, via=how), detail=detail[:300]))
    return dict(evaluations=n, distinct_nontrivial=len(seen), failures=fails[:20])
