"""Contracts for the MidiFile observers (C13 playback timing, C16 a file reflects its current contents).

A = (type, ticks_per_beat, charset, tracks and their messages) is the abstract state of a MidiFile.  Every observer is
verified from a state whose hidden field `_merged_track` holds ARBITRARY junk (any history of earlier observations and
edits can only have produced some value there): its result must be the contract result for the CURRENT A, and it may
read no attribute outside A.
"""
import time as _time

from pyvc.contract import Contract, contract, LoopSpec, V, attrs_of, cls_of, Harness, raw_function
from pyvc.dsl import And, Or, Not, Implies, All, Ex, eq, length, is_z

try:
    import z3
    from pyvc.values import SInt, SBool, SReal, SSeq, Cell, Obj, PyRaise, Unsupported, Opaque, REAL_EK, seq_sum_fn, unfold_sum, zr, real_val
    from pyvc.msgs import MSG_R, MSG_I, SMsg
except ImportError:
    z3 = None

MF = 'mido.midifiles.midifiles:'
CONTENT_ATTRS = {'type', 'ticks_per_beat', 'charset', 'tracks', 'debug', 'clip', 'filename'}
DEFAULT_TEMPO = 500000


class Junk:
    """arbitrary stale value of the hidden cache field"""
    def __repr__(self):
        return '<stale merged track>'


def midifile(h, type_, tracks, cache='junk', tpb=None):
    import mido.midifiles.midifiles as M
    attrs = {'filename': None, 'type': type_, 'ticks_per_beat': tpb if tpb is not None else h.int('ticks_per_beat', 1, 32767),
             'charset': 'latin1', 'debug': False, 'clip': False, 'tracks': tracks,
             '_merged_track': Junk() if cache == 'junk' else None}
    h.mf = h.obj(M.MidiFile, attrs)
    return h.mf


def reads_only_contents(h):
    """frame clause: every attribute of the MidiFile read during the call belongs to the abstract state A"""
    bad = sorted({e[2] for e in h.ctx.log if e[0] == 'read' and e[1] == id(h.mf) and e[2] not in CONTENT_ATTRS})
    return {'reads-only-current-contents%s' % (' (also read: %s)' % ', '.join(bad) if bad else ''): not bad}


class _MergeToken:
    """call-site contract of merge_tracks for the observers: the result of merging exactly these tracks"""
    def __init__(self, result=None):
        self.result = result

    def __call__(self, ip, args, kwargs):
        ip.ctx.__dict__.setdefault('merge_calls', []).append((args, kwargs))
        if self.result is not None:
            return self.result(ip)
        return Opaque('merge_tracks(current tracks)')


# ====================================================================== merged_track (C16)
_MT = Harness('''
    def merged_track_of(mf):
        return mf.merged_track
''')


@contract
class MergedTrack(Contract):
    key = 'C16.merged_track'
    target = MF + 'MidiFile.merged_track'
    properties = ('C16', 'C13')
    configs = tuple({'type': t, 'cache': c} for t in (0, 1, 2) for c in ('junk', 'none'))
    raises = {TypeError: 'type2'}
    symbolic_only = True

    def callee(self, h, cfg):
        return _MT.get(h)

    def hooks(self, cfg):
        return {raw_function(MF + 'merge_tracks'): _MergeToken()}

    def inputs(self, h, cfg):
        h.tracks = [Opaque('track0'), Opaque('track1')]
        return [midifile(h, cfg['type'], h.tracks, cfg['cache'])], {}

    def type2(self, h, cfg, a, pr):
        return cfg['type'] == 2

    def ensures(self, h, cfg, a, r):
        calls = h.ctx.__dict__.get('merge_calls', [])
        out = {'asynchronous-files-refused': cfg['type'] != 2,
               'merges-the-current-tracks': len(calls) == 1 and calls[0][0][0] is h.tracks and isinstance(r, Opaque),
               'not-the-stale-value': not isinstance(r, Junk)}
        if len(calls) == 1:
            kw = calls[0][1]
            out['skip_checks'] = kw.get('skip_checks', calls[0][0][1] if len(calls[0][0]) > 1 else False) is True
        out.update(reads_only_contents(h))
        return out


# ====================================================================== __iter__: ticks -> seconds with the running tempo (C13)
def tempo_fns():
    ek = MSG_R()
    if not hasattr(ek, 'TP'):
        ek.TP = z3.Function('TP', ek.seqsort, z3.IntSort(), z3.IntSort())     # tempo in force before message i
        ek.tempo = ek.attr('tempo')
    return ek


def unfold_tp(ek, s, i):
    return [ek.TP(s, z3.IntVal(0)) == DEFAULT_TEMPO,
            z3.Implies(z3.And(i >= 0, i < z3.Length(s)),
                       ek.TP(s, i + 1) == z3.If(ek.type(s[i]) == z3.StringVal('set_tempo'), ek.tempo(ek.type(s[i]), ek.pay(s[i])), ek.TP(s, i)))]


def seconds(ek, s, k, tpb):
    """the specification: delta ticks x (tempo in force x 10^-6 / ticks per beat); 0 for a zero delta"""
    t = ek.time(s[k])
    return z3.If(t > 0, t * (z3.ToReal(ek.TP(s, k)) * real_val(1e-6) / z3.ToReal(tpb)), z3.RealVal(0))


def msg_attr_hook(ip, m, name):
    if name == 'tempo':
        ek = tempo_fns()
        return SInt(ek.tempo(m.ek.type(m.e), m.ek.pay(m.e)))
    return NotImplemented


class _IterLoop(LoopSpec):
    header = 'self.merged_track'

    def enter(self, ip, fr, seqv):
        st = LoopSpec.enter(self, ip, fr, seqv)
        st.ek = seqv.ek
        st.out = z3.Empty(seqv.ek.seqsort)
        ip.ctx.__dict__['ghost_out'] = st
        return st

    def havoc(self, ip, fr, st):
        st.out = ip.ctx.fresh('yielded', st.ek.seqsort)
        fr.env['tempo'] = SInt(ip.ctx.fresh('tempo'))

    def step(self, ip, fr, st):
        for y in st.yields:
            st.out = z3.Concat(st.out, z3.Unit(st.ek.unwrap(y)))

    def hints(self, ip, fr, st, phase):
        ek = tempo_fns()
        return unfold_tp(ek, st.seq, st.i - 1) + unfold_tp(ek, st.seq, st.i)

    def inv(self, ip, fr, st):
        ek = tempo_fns()
        s, i, out = st.seq, st.i, st.out
        tpb = V(ip.ctx.h.tpb)
        return [V(fr.env['tempo']) == ek.TP(s, i), z3.Length(out) == i,
                All(0, i, lambda k: out[k] == ek.retime(s[k], seconds(ek, s, k, tpb)))]


def ref_iter(msgs, tpb):
    from .c_tracks import key_of
    tempo, out = DEFAULT_TEMPO, []
    for m in msgs:
        out.append((key_of(m), m.time * (tempo * 1e-6 / tpb) if m.time > 0 else 0))
        if m.type == 'set_tempo':
            tempo = m.tempo
    return out


@contract
class MidiFileIter(Contract):
    key = 'C13.__iter__'
    target = MF + 'MidiFile.__iter__'
    properties = ('C13', 'C16')
    configs = tuple({'type': t, 'cache': c} for t in (0, 1) for c in ('junk', 'none')) + ({'type': 2, 'cache': 'none'},)
    loops = {(MF + 'MidiFile.__iter__', 0): _IterLoop()}
    collect = True
    raises = {TypeError: 'type2'}

    def hooks(self, cfg):
        return {raw_function(MF + 'merge_tracks'): _MergeToken(lambda ip: ip.ctx.h.merged)}

    def setup(self, h, cfg, ip):
        ip.msg_attr_hook = msg_attr_hook

    def setup_concrete(self, h, cfg):
        import mido.midifiles.midifiles as M
        saved = M.merge_tracks
        M.merge_tracks = lambda tracks, skip_checks=False: h.merged

        def restore():
            M.merge_tracks = saved
        return restore

    def inputs(self, h, cfg):
        h.merged = h.msg_seq('merged', real_time=True)
        h.tpb = h.int('ticks_per_beat', 1, 32767)
        h.tracks = [Opaque('track0')] if h.sym else []
        return [midifile(h, cfg['type'], h.tracks, cfg['cache'], tpb=h.tpb)], {}

    def type2(self, h, cfg, a, pr):
        return cfg['type'] == 2

    def ensures(self, h, cfg, a, r):
        out = {'asynchronous-files-refused': cfg['type'] != 2}
        if not h.sym:
            from .c_tracks import view_msgs
            got, want = view_msgs(r), ref_iter(h.merged, h.tpb)
            out['seconds-follow-the-tempo-map'] = len(got) == len(want) and all(
                g[0] == w[0] and abs(g[1] - w[1]) <= 1e-9 * max(1.0, abs(w[1])) for g, w in zip(got, want))
            return out
        ek = tempo_fns()
        s = V(h.merged)
        st = h.ctx.__dict__.get('ghost_out')
        y = st.out if st is not None else z3.Empty(ek.seqsort)
        for extra in r:
            y = z3.Concat(y, z3.Unit(ek.unwrap(extra)))
        n = z3.Length(s)
        tpb = V(h.tpb)
        out['one-message-per-merged-message'] = z3.Length(y) == n
        out['seconds-follow-the-tempo-map'] = All(0, n, lambda k: y[k] == ek.retime(s[k], seconds(ek, s, k, tpb)))
        calls = h.ctx.__dict__.get('merge_calls', [])
        out['iterates-the-merge-of-the-current-tracks'] = len(calls) == 1 and calls[0][0][0] is h.tracks
        out.update(reads_only_contents(h))
        return out

    def samples(self, cfg):
        def m(kind, typ, time, pay):
            return dict(kind=kind, type=typ, time=time, pay=pay)
        T = lambda t, tempo: m(1, 'set_tempo', t, tempo)
        N = lambda t, p=1: m(0, 'note_on', t, p)
        E = lambda t: m(1, 'end_of_track', t, 0)
        out = []
        for tpb in (1, 96, 480, 32767):
            for tr in ([], [N(0), N(480), E(0)], [N(10), T(0, 250000), N(10), T(5, 1), N(1000), T(0, 16777215), N(3), E(2)],
                       [T(100, 1000000), T(100, 100000), N(100)]):
                out.append({'merged': tr, 'ticks_per_beat': tpb})
        return out

    def call_site(self, ip, fn, args, kwargs):
        """summary for consumers (length, play): the sequence specified above"""
        ek = tempo_fns()
        h = ip.ctx.h
        y = ip.ctx.fresh('iterated', ek.seqsort)
        ip.ctx.assume(All(0, z3.Length(y), lambda k: z3.And(ek.kind(y[k]) >= 0, ek.kind(y[k]) <= 2)))
        ip.ctx.__dict__.setdefault('iter_calls', []).append((args[0], y))
        h.Y = y
        return SSeq(y, tuple, ek)


# ====================================================================== length (C13)
_LEN = Harness('''
    def length_of(mf):
        return mf.length
''')


@contract
class MidiFileLength(Contract):
    key = 'C13.length'
    target = MF + 'MidiFile.length'
    properties = ('C13', 'C16')
    configs = tuple({'type': t, 'cache': c} for t in (0, 1, 2) for c in ('junk', 'none'))
    use = ('C13.__iter__',)
    raises = {ValueError: 'type2'}
    symbolic_only = True

    def callee(self, h, cfg):
        return _LEN.get(h)

    def inputs(self, h, cfg):
        h.tpb = h.int('ticks_per_beat', 1, 32767)
        return [midifile(h, cfg['type'], [Opaque('track0')], cfg['cache'], tpb=h.tpb)], {}

    def type2(self, h, cfg, a, pr):
        return cfg['type'] == 2

    def ensures(self, h, cfg, a, r):
        ek = tempo_fns()
        out = {'asynchronous-files-refused': cfg['type'] != 2}
        calls = h.ctx.__dict__.get('iter_calls', [])
        tr = [t for t in h.ctx.__dict__.get('trace', []) if t[0] == 'map']
        out['iterates-itself-once'] = len(calls) == 1 and calls[0][0] is h.mf
        out['sums-the-times-of-the-iterated-messages'] = len(tr) == 1 and tr[0][3] == 'msg.time'
        if len(calls) == 1 and len(tr) == 1:
            times = tr[0][2]
            out['length-is-the-cumulative-time-of-the-last-message'] = And(tr[0][1] == calls[0][1],
                                                                           V(r) == seq_sum_fn(REAL_EK)(times, z3.Length(times)))
        out.update(reads_only_contents(h))
        return out


# ====================================================================== play (C13)
class Clock:
    """ASSUMED contract of the clock and of time.sleep: now() never goes backwards; after sleep(d) it has advanced by >= d"""
    def __init__(self, ctx):
        self.ctx = ctx
        self.lower = None          # lower bound of the next reading
        self.readings = []

    def now(self, ip):
        c = ip.ctx.fresh('clock', z3.RealSort())
        if self.lower is not None:
            ip.ctx.assume(c >= self.lower)
        self.lower = c
        self.readings.append(c)
        return SReal(c)

    def sleep(self, ip, d):
        ip.ctx.event('sleep', zr(d))
        self.lower = self.lower + zr(d)


class _PlayLoop(LoopSpec):
    header = 'self'

    def enter(self, ip, fr, seqv):
        st = LoopSpec.enter(self, ip, fr, seqv)
        st.ek = seqv.ek
        st.times = ip.ctx.h.times_of(seqv.e)
        return st

    def havoc(self, ip, fr, st):
        fr.env['input_time'] = SReal(ip.ctx.fresh('input_time', z3.RealSort()))
        clk = ip.ctx.h.clock
        c = ip.ctx.fresh('clock_at_loop_head', z3.RealSort())
        ip.ctx.assume(c >= V(fr.env['start_time']))
        clk.lower = c
        st.nsleep0 = len([e for e in ip.ctx.log if e[0] == 'sleep'])
        st.nread0 = len(clk.readings)

    def hints(self, ip, fr, st, phase):
        return unfold_sum(REAL_EK, st.times, st.i - 1) + unfold_sum(REAL_EK, st.times, st.i)

    def step(self, ip, fr, st):
        ctx = ip.ctx
        h = ctx.h
        clk = h.clock
        i = st.i
        msg = st.seq[i]
        start = V(fr.env['start_time'])
        it1 = V(fr.env['input_time'])                      # after adding the time of this message
        sleeps = [e[1] for e in ctx.log if e[0] == 'sleep'][st.nsleep0:]
        reads = clk.readings[st.nread0:]
        hints = self.hints(ip, fr, _Shifted(st, i + 1), 'step')
        ctx.oblige('play.reads-the-clock-once-per-message', len(reads) == 1, hints=hints)
        if len(reads) == 1:
            remaining = it1 - (reads[0] - start)
            if len(sleeps) == 0:
                ctx.oblige('play.sleeps-unless-already-late', remaining <= 0, hints=hints)
            else:
                ctx.oblige('play.sleeps-exactly-the-remaining-time', And(len(sleeps) == 1, sleeps[0] == remaining, remaining > 0), hints=hints)
            ctx.oblige('play.never-before-the-scheduled-time', clk.lower >= start + it1, hints=hints)
        ys = st.yields
        is_meta = st.ek.kind(msg) != 0
        if len(ys) == 0:
            ctx.oblige('play.only-meta-messages-are-withheld', And(is_meta, not h.meta_messages), hints=hints)
        else:
            ctx.oblige('play.yields-the-message-itself', And(len(ys) == 1, st.ek.unwrap(ys[0]) == msg,
                                                             Or(Not(is_meta), bool(h.meta_messages))), hints=hints)

    def inv(self, ip, fr, st):
        f = seq_sum_fn(REAL_EK)
        return [V(fr.env['input_time']) == f(st.times, st.i)]


class _Shifted:
    def __init__(self, st, i):
        self.__dict__.update(st.__dict__)
        self.i = i


@contract
class MidiFilePlay(Contract):
    """drift-free scheduling: input_time is the cumulative time of the messages so far whatever the consumer does (loop
    invariant); in every iteration the clock is read once, sleep is called with exactly input_time - elapsed when that is
    positive and not otherwise, and the message is yielded when the clock has reached start + input_time."""
    key = 'C13.play'
    target = MF + 'MidiFile.play'
    properties = ('C13', 'C16')
    configs = ({'meta_messages': False}, {'meta_messages': True})
    use = ('C13.__iter__',)
    loops = {(MF + 'MidiFile.play', 0): _PlayLoop()}
    collect = True
    raises = {}
    symbolic_only = True

    def setup(self, h, cfg, ip):
        h.clock = Clock(ip.ctx)
        ip.models.table[_time.sleep] = lambda ipx, d: h.clock.sleep(ipx, d)
        h.meta_messages = cfg['meta_messages']
        ek = tempo_fns()
        cache = {}

        def times_of(y):
            key = y.get_id()
            if key not in cache:
                t = ip.ctx.fresh('times', REAL_EK.seqsort)
                ip.ctx.assume(z3.Length(t) == z3.Length(y))
                ip.ctx.assume(All(0, z3.Length(y), lambda k: t[k] == ek.time(y[k])))
                cache[key] = t
            return cache[key]
        h.times_of = times_of

    def inputs(self, h, cfg):
        h.tpb = h.int('ticks_per_beat', 1, 32767)

        def now(ip):
            return h.clock.now(ip)
        now._pyvc_native = True
        return [midifile(h, 1, [Opaque('track0')], 'junk', tpb=h.tpb)], {'meta_messages': cfg['meta_messages'], 'now': now}

    def ensures(self, h, cfg, a, r):
        out = {}
        calls = h.ctx.__dict__.get('iter_calls', [])
        out['plays-the-iteration-of-the-file'] = len(calls) == 1 and calls[0][0] is h.mf
        out.update(reads_only_contents(h))
        return out


# ====================================================================== unit conversions (C13)
if z3 is not None:
    from pyvc.contract import lemma, Lemma

    @lemma
    class TickSecondInverseOverReals(Lemma):
        """second2tick(tick2second(t, tpb, tempo), tpb, tempo) == t for integer t and positive tempo/tpb, over the REALS
        (floats as reals: (t*s)/s == t and round(t) == t for an integer t); IEEE rounding is covered by a bounded grid only"""
        name = 'C13.tick-second-inverse-over-reals'
        properties = ('C13',)

        def vcs(self, ctx):
            t = z3.Int('t')
            tempo, tpb = z3.Ints('tempo tpb')
            scale = z3.ToReal(tempo) * real_val(1e-6) / z3.ToReal(tpb)
            sec = z3.ToReal(t) * scale
            back = sec / scale
            yield ('exact-over-reals', [tempo > 0, tpb > 0], back == z3.ToReal(t))


# ====================================================================== construction and add_track (C16, C07)
_NEWMF = Harness('''
    def do(MidiFile, kwargs, add):
        mf = MidiFile(**kwargs)
        if add is None:
            return (mf, None)
        if add == '':
            return (mf, mf.add_track())
        return (mf, mf.add_track(add))
''')


def _newmf_cfgs():
    out = []
    for src in ('nothing', 'tracks', 'file', 'filename'):
        for typ in (None, 0, 1, 2, 3, -1):
            out.append({'src': src, 'type': typ, 'add': None})
    for add in ('', 'Lead'):
        for src in ('nothing', 'tracks'):
            out.append({'src': src, 'type': 1, 'add': add})
    return tuple(out)


@contract
class MidiFileConstruction(Contract):
    """a 'freshly built MidiFile with the same contents' is what C16 compares with, and what save/load of C07 build: the
    constructor stores type / ticks_per_beat / charset / clip as given (defaults 1 / 480 / latin1 / False), uses the given
    tracks list itself, loads from a file object or (opened 'rb') a file name exactly when no tracks are given, refuses a type
    outside 0..2; add_track appends one new MidiTrack (with a track_name at time 0 when named) to the tracks and returns it"""
    key = 'C16.construction'
    target = MF + 'MidiFile.__init__'
    properties = ('C16', 'C07')
    configs = _newmf_cfgs()
    raises = {ValueError: 'bad_type'}
    symbolic_only = True

    def callee(self, h, cfg):
        return _NEWMF.get(h)

    def hooks(self, cfg):
        def _load(ip, args, kwargs):
            ip.ctx.event('_load', id(args[0]), args[1], dict(args[0].attrs))
            return None
        return {raw_function(MF + 'MidiFile._load'): _load}

    def setup(self, h, cfg, ip):
        import builtins
        h.opened = []

        class _F:
            _pyvc_model = True

            def __enter__(ipx, self):
                return self
            __enter__._pyvc_native = True

            def __exit__(ipx, self, *exc):
                self.attrs['closed'] = True
                return False
            __exit__._pyvc_native = True

        def open_model(ipx, name, mode='r', *a, **k):
            f = Obj(_F, {'name': name, 'mode': mode, 'closed': False})
            h.opened.append(f)
            return f
        ip.models.table[builtins.open] = open_model

    def inputs(self, h, cfg):
        import mido.midifiles.midifiles as M
        kw = {}
        if cfg['type'] is not None:
            kw['type'] = cfg['type']
            h.tpb = h.int('ticks_per_beat', 1, 32767)
            kw['ticks_per_beat'] = h.tpb
            kw['charset'] = 'utf-8'
            kw['clip'] = True
        h.given_tracks = [M.MidiTrack()] if False else None
        if cfg['src'] == 'tracks':
            h.given_tracks = []
            kw['tracks'] = h.given_tracks
        elif cfg['src'] == 'file':
            h.fileobj = Opaque('file object')
            kw['file'] = h.fileobj
        elif cfg['src'] == 'filename':
            kw['filename'] = 'song.mid'
        return [M.MidiFile, kw, cfg['add']], {}

    def bad_type(self, h, cfg, a, pr):
        return cfg['type'] not in (None, 0, 1, 2) and not [e for e in h.ctx.log if e[0] == '_load'] and not h.opened

    def ensures(self, h, cfg, a, r):
        import mido.midifiles.tracks as TR
        mf, added = r
        ma = attrs_of(mf)
        loads = [e for e in h.ctx.log if e[0] == '_load']
        given = cfg['type'] is not None
        out = {'type-in-0..2': cfg['type'] in (None, 0, 1, 2),
               'type-stored (default 1)': ma['type'] == (cfg['type'] if given else 1),
               'ticks_per_beat-stored (default 480)': eq(V(ma['ticks_per_beat']), V(h.tpb)) if given else ma['ticks_per_beat'] == 480,
               'charset-and-clip-stored (defaults latin1, False)': (ma['charset'], ma['clip']) == (('utf-8', True) if given else ('latin1', False))}
        src = cfg['src']
        if src == 'tracks':
            out['uses-the-given-tracks-list-itself'] = ma['tracks'] is h.given_tracks and not loads and not h.opened
        elif src == 'nothing':
            out['starts-without-tracks-and-loads-nothing'] = isinstance(ma['tracks'], list) and (len(ma['tracks']) == (0 if cfg['add'] is None else 1)) and not loads and not h.opened
        elif src == 'file':
            out['loads-from-the-given-file-object-once-after-the-settings-are-stored'] = len(loads) == 1 and loads[0][2] is h.fileobj and not h.opened \
                and loads[0][3].get('type') == ma['type'] and loads[0][3].get('charset') == ma['charset'] and loads[0][3].get('clip') == ma['clip']
        else:
            out['opens-the-file-name-for-binary-reading-loads-once-and-closes'] = len(h.opened) == 1 and h.opened[0].attrs['name'] == 'song.mid' \
                and h.opened[0].attrs['mode'] == 'rb' and h.opened[0].attrs['closed'] is True and len(loads) == 1 and loads[0][2] is h.opened[0]
        if cfg['add'] is not None:
            tr = ma['tracks']
            items = list(tr.items) if hasattr(tr, 'items') and not isinstance(tr, dict) else list(tr)
            out['add_track-appends-one-new-MidiTrack-and-returns-it'] = len(items) == 1 and items[0] is added and cls_of(added) is TR.MidiTrack
            msgs = list(added.items) if hasattr(added, 'items') else list(added)
            if cfg['add'] == '':
                out['unnamed-track-is-empty'] = len(msgs) == 0
            else:
                out['named-track-starts-with-its-track_name-at-time-0'] = len(msgs) == 1 and attrs_of(msgs[0]).get('type') == 'track_name' \
                    and attrs_of(msgs[0]).get('name') == cfg['add'] and attrs_of(msgs[0]).get('time') == 0
        return out
