"""Bounded stand-ins for clauses of C01/C02/C03 that are outside the verifier's reach (string formatting,
non-integer item kinds).  They run the REAL code under /venv/bin/python and are never counted as proved."""
import random
from pyvc.contract import bounded
from . import spec_midi as S


def _boundary_messages(rng, n_random):
    import mido
    out = []
    for t, info in S.TYPES.items():
        names = [n for n in info['names']]
        grids = []
        for nm in names:
            if nm == 'data':
                grids.append([(), (0,), (127,), (1, 2, 3), tuple(range(128)), tuple([127] * 300)])
            else:
                lo, hi = S.RANGES[nm]
                grids.append(sorted({lo, lo + 1, (lo + hi) // 2, hi - 1, hi, 0 if lo <= 0 <= hi else lo}))
        def rec(i, cur):
            if i == len(names):
                out.append((t, dict(cur)))
                return
            for v in grids[i]:
                cur[names[i]] = v
                rec(i + 1, cur)
        rec(0, {})
        for _ in range(n_random):
            cur = {}
            for nm in names:
                if nm == 'data':
                    cur[nm] = tuple(rng.randrange(128) for _ in range(rng.randrange(0, 40)))
                else:
                    lo, hi = S.RANGES[nm]
                    cur[nm] = rng.randint(lo, hi)
            out.append((t, cur))
    return out


@bounded('hex-roundtrip', ('C01',), 'all 18 types x boundary grid of every attribute (+ random values), separators " ", "", ":", "\\n", "--"; times 0, 1.5')
def hex_roundtrip(tier, seed, only=None):
    import mido
    rng = random.Random(seed)
    cases = _boundary_messages(rng, 20 if tier == 'quick' else 400)
    fails = []
    n = 0
    seen = set()
    for t, attrs in cases:
        for sep in (' ', '', ':', '\n', '--'):
            for tm in (0, 1.5):
                m = mido.Message(t, time=tm, **attrs)
                n += 1
                seen.add((t, tuple(sorted(attrs.items())), sep))
                try:
                    text = m.hex(sep)
                    want = sep.join('%02X' % b for b in S.spec_encode(t, attrs))
                    back = mido.Message.from_hex(text, time=tm, sep=sep if sep.strip() or sep == '' else None)
                    ok = text == want and back == m and len(m) == len(m.bytes())
                except Exception as ex:
                    ok = False
                    text = repr(ex)
                if not ok:
                    fails.append(dict(clause='from_hex(hex(m)) == m', inputs=dict(type=t, attrs={k: list(v) if isinstance(v, tuple) else v for k, v in attrs.items()}, sep=sep, time=tm), detail=str(text)[:200]))
    return dict(evaluations=n, distinct_nontrivial=len(seen), failures=fails[:20])


NON_INT_ITEMS = [None, 1.5, 144.0, 'a', '1', b'a', (1,), [1], 2 + 0j, float('nan'), float('inf'), object]


@bounded('non-integer-items', ('C02',), 'each representative non-integer value (None, floats incl. 144.0/nan/inf, str, bytes, tuple, list, complex, a class) at positions 0, 1, 2, last of messages of every status family; numerically equal float/Fraction/Decimal items right after the integer sequence was decoded')
def non_integer_items(tier, seed, only=None):
    import mido
    fails = []
    n = 0
    seen = set()
    bases = [[0x90, 1, 2], [0xC0, 5], [0xE0, 1, 2], [0xF0, 1, 2, 0xF7], [0xF1, 3], [0xF2, 1, 2], [0xF3, 1], [0xF6], [0xF8], [1], []]
    for base in bases:
        for pos in range(len(base) + 1):
            for item in NON_INT_ITEMS:
                for mode in ('replace', 'insert'):
                    b = list(base)
                    if mode == 'replace':
                        if pos >= len(b):
                            continue
                        b[pos] = item
                    else:
                        b.insert(pos, item)
                    n += 1
                    seen.add((tuple(map(repr, b))))
                    try:
                        r = mido.Message.from_bytes(b)
                        # a message was returned: only acceptable if its bytes() reproduce the input exactly
                        ok = r.bytes() == b and all(isinstance(x, int) for x in b)
                        detail = 'returned %r' % (r,)
                    except (ValueError, TypeError) as ex:
                        ok = True
                        detail = ''
                    except Exception as ex:
                        ok = False
                        detail = 'raised %s: %s' % (type(ex).__name__, ex)
                    if not ok:
                        fails.append(dict(clause='from_bytes with a non-integer item returns a message or raises an exception other than ValueError/TypeError',
                                          inputs=dict(bytes=[repr(x) for x in b]), detail=detail[:200]))
    # history: the same call must not start to succeed after the numerically EQUAL integer sequence was decoded (memoisation
    # keyed by ==/hash would do that: 60 == 60.0 == Fraction(60) == Decimal(60))
    import fractions
    import decimal
    for base in bases:
        if not base or base == [1]:
            continue
        try:
            mido.Message.from_bytes(list(base))
        except Exception:
            pass
        for pos in range(len(base)):
            for conv in (float, fractions.Fraction, decimal.Decimal):
                b = list(base)
                b[pos] = conv(b[pos])
                n += 1
                seen.add(('after-equal-ints', tuple(map(repr, b))))
                try:
                    r = mido.Message.from_bytes(b)
                    fails.append(dict(clause='from_bytes with a non-integer item returns a message or raises an exception other than ValueError/TypeError',
                                      inputs=dict(first=[repr(x) for x in base], then=[repr(x) for x in b]), detail='after decoding the equal integer sequence: returned %r' % (r,)))
                except (ValueError, TypeError):
                    pass
                except Exception as ex:
                    fails.append(dict(clause='from_bytes with a non-integer item returns a message or raises an exception other than ValueError/TypeError',
                                      inputs=dict(first=[repr(x) for x in base], then=[repr(x) for x in b]), detail='raised %s: %s' % (type(ex).__name__, ex)))
    return dict(evaluations=n, distinct_nontrivial=len(seen), failures=fails[:20])
