"""Bounded stand-ins for clauses of C01/C02/C03 that are outside the verifier's reach (string formatting,
non-integer item kinds).  They run the REAL code under /venv/bin/python and are never counted as proved."""
import random
from pyvc.contract import bounded
from . import spec_midi as S


def _boundary_messages(rng, n_random):
    import mido
    out = []
    for t, info in S.TYPES.items():
        names = [n for n in info['names']]
        grids = []
        for nm in names:
            if nm == 'data':
                grids.append([(), (0,), (127,), (1, 2, 3), tuple(range(128)), tuple([127] * 300)])
            else:
                lo, hi = S.RANGES[nm]
                grids.append(sorted({lo, lo + 1, (lo + hi) // 2, hi - 1, hi, 0 if lo <= 0 <= hi else lo}))
        def rec(i, cur):
            if i == len(names):
                out.append((t, dict(cur)))
                return
            for v in grids[i]:
                cur[names[i]] = v
                rec(i + 1, cur)
        rec(0, {})
        for _ in range(n_random):
            cur = {}
            for nm in names:
                if nm == 'data':
                    cur[nm] = tuple(rng.randrange(128) for _ in range(rng.randrange(0, 40)))
                else:
                    lo, hi = S.RANGES[nm]
                    cur[nm] = rng.randint(lo, hi)
            out.append((t, cur))
    return out


@bounded('hex-roundtrip', ('C01',), 'all 18 types x boundary grid of every attribute (+ random values), separators " ", "", ":", "\\n", "--"; times 0, 1.5')
def hex_roundtrip(tier, seed, only=None):
    import mido
    rng = random.Random(seed)
    cases = _boundary_messages(rng, 20 if tier == 'quick' else 400)
    fails = []
    n = 0
    seen = set()
    for t, attrs in cases:
        for sep in (' ', '', ':', '\n', '--'):
            for tm in (0, 1.5):
                m = mido.Message(t, time=tm, **attrs)
                n += 1
                seen.add((t, tuple(sorted(attrs.items())), sep))
                try:
                    text = m.hex(sep)
                    want = sep.join('%02X' % b for b in S.spec_encode(t, attrs))
                    back = mido.Message.from_hex(text, time=tm, sep=sep if sep.strip() or sep == '' else None)
                    ok = text == want and back == m and len(m) == len(m.bytes())
                except Exception as ex:
                    ok = False
                    text = repr(ex)
                if not ok:
                    fails.append(dict(clause='from_hex(hex(m)) == m', inputs=dict(type=t, attrs={k: list(v) if isinstance(v, tuple) else v for k, v in attrs.items()}, sep=sep, time=tm), detail=str(text)[:200]))
    return dict(evaluations=n, distinct_nontrivial=len(seen), failures=fails[:20])


NON_INT_ITEMS = [None, 1.5, 144.0, 'a', '1', b'a', (1,), [1], 2 + 0j, float('nan'), float('inf'), object]


@bounded('non-integer-items', ('C02',), 'each representative non-integer value (None, floats incl. 144.0/nan/inf, str, bytes, tuple, list, complex, a class) at positions 0, 1, 2, last of messages of every status family; numerically equal float/Fraction/Decimal items right after the integer sequence was decoded')
def non_integer_items(tier, seed, only=None):
    import mido
    fails = []
    n = 0
    seen = set()
    bases = [[0x90, 1, 2], [0xC0, 5], [0xE0, 1, 2], [0xF0, 1, 2, 0xF7], [0xF1, 3], [0xF2, 1, 2], [0xF3, 1], [0xF6], [0xF8], [1], []]
    for base in bases:
        for pos in range(len(base) + 1):
            for item in NON_INT_ITEMS:
                for mode in ('replace', 'insert'):
                    b = list(base)
                    if mode == 'replace':
                        if pos >= len(b):
                            continue
                        b[pos] = item
                    else:
                        b.insert(pos, item)
                    n += 1
                    seen.add((tuple(map(repr, b))))
                    try:
                        r = mido.Message.from_bytes(b)
                        # a message was returned: only acceptable if its bytes() reproduce the input exactly
                        ok = r.bytes() == b and all(isinstance(x, int) for x in b)
                        detail = 'returned %r' % (r,)
                    except (ValueError, TypeError) as ex:
                        ok = True
                        detail = ''
                    except Exception as ex:
                        ok = False
                        detail = 'raised %s: %s' % (type(ex).__name__, ex)
                    if not ok:
                        fails.append(dict(clause='from_bytes with a non-integer item returns a message or raises an exception other than ValueError/TypeError',
                                          inputs=dict(bytes=[repr(x) for x in b]), detail=detail[:200]))
    # history: the same call must not start to succeed after the numerically EQUAL integer sequence was decoded (memoisation
    # keyed by ==/hash would do that: 60 == 60.0 == Fraction(60) == Decimal(60))
    import fractions
    import decimal
    for base in bases:
        if not base or base == [1]:
            continue
        try:
            mido.Message.from_bytes(list(base))
        except Exception:
            pass
        for pos in range(len(base)):
            for conv in (float, fractions.Fraction, decimal.Decimal):
                b = list(base)
                b[pos] = conv(b[pos])
                n += 1
                seen.add(('after-equal-ints', tuple(map(repr, b))))
                try:
                    r = mido.Message.from_bytes(b)
                    fails.append(dict(clause='from_bytes with a non-integer item returns a message or raises an exception other than ValueError/TypeError',
                                      inputs=dict(first=[repr(x) for x in base], then=[repr(x) for x in b]), detail='after decoding the equal integer sequence: returned %r' % (r,)))
                except (ValueError, TypeError):
                    pass
                except Exception as ex:
                    fails.append(dict(clause='from_bytes with a non-integer item returns a message or raises an exception other than ValueError/TypeError',
                                      inputs=dict(first=[repr(x) for x in base], then=[repr(x) for x in b]), detail='raised %s: %s' % (type(ex).__name__, ex)))
    return dict(evaluations=n, distinct_nontrivial=len(seen), failures=fails[:20])


@bounded('decoded-messages-are-independent', ('C01', 'C02'), 'all 18 types (boundary values + 3 random value sets each) x 5 decode routes (from_bytes of list / bytes / tuple, from_hex, '
         'parse) x times {default, 0, 2.5}: decode, change EVERY attribute and the time of the result, decode the same encoding again (twice): the later results equal the original '
         'and are new objects; the encoding side likewise (bytes() of an equal message after the first list was edited)')
def decoded_independent(tier, seed, only=None):
    import mido
    rng = random.Random(seed)
    fails, n, seen = [], 0, set()
    cases = []
    for t, info in S.TYPES.items():
        vals = [{}]
        for _ in range(3):
            cur = {}
            for nm in info['names']:
                cur[nm] = tuple(rng.randrange(128) for _ in range(rng.randrange(0, 6))) if nm == 'data' else rng.randint(*S.RANGES[nm])
            vals.append(cur)
        lo, hi = {}, {}
        for nm in info['names']:
            lo[nm] = () if nm == 'data' else S.RANGES[nm][0]
            hi[nm] = (127, 0, 127) if nm == 'data' else S.RANGES[nm][1]
        vals += [lo, hi]
        cases += [(t, v) for v in vals]
    routes = (('from_bytes(list)', lambda m, kw: mido.Message.from_bytes(m.bytes(), **kw)),
              ('from_bytes(bytes)', lambda m, kw: mido.Message.from_bytes(bytes(m.bytes()), **kw)),
              ('from_bytes(tuple)', lambda m, kw: mido.Message.from_bytes(tuple(m.bytes()), **kw)),
              ('from_hex', lambda m, kw: mido.Message.from_hex(m.hex(), **kw)),
              ('parse', lambda m, kw: mido.parse(m.bytes())))
    for t, v in cases:
        for tname, kw in (('default', {}), ('0', {'time': 0}), ('2.5', {'time': 2.5})):
            for rname, dec in routes:
                if rname == 'parse' and kw:
                    continue
                n += 1
                seen.add((t, tuple(sorted(v.items())), tname, rname))
                try:
                    orig = mido.Message(t, time=kw.get('time', 0), **v)
                    first = dec(orig, kw)
                    ok, detail = first == orig, 'first decode %r != %r' % (first, orig)
                    if ok:
                        # the caller owns what it got: stamp it, change every value
                        first.time = 123.5
                        for nm in S.TYPES[t]['names']:
                            if nm == 'data':
                                first.data = tuple(first.data) + (99,)
                            else:
                                lo_, hi_ = S.RANGES[nm]
                                cur = getattr(first, nm)
                                setattr(first, nm, cur + 1 if cur < hi_ else lo_)
                        for k in range(2):
                            again = dec(orig, kw)
                            if again != orig or again is first:
                                ok, detail = False, 'decode no. %d after the first result was edited gave %r, expected %r' % (k + 2, again, orig)
                                break
                    if ok:
                        b1 = orig.bytes()
                        want = list(b1)
                        b1.append(0x55)
                        if b1 and len(b1) > 1:
                            b1[0] = 0
                        if mido.Message(t, **v).bytes() != want or orig.bytes() != want:
                            ok, detail = False, 'bytes() after an earlier result list was edited: %r, expected %r' % (orig.bytes(), want)
                except Exception as ex:      # noqa
                    ok, detail = False, repr(ex)
                if not ok:
                    fails.append(dict(clause='a decoded message does not depend on what callers did with earlier results', inputs=dict(type=t, values={k: list(x) if isinstance(x, tuple) else x for k, x in v.items()}, time=tname, via=rname), detail=detail[:300]))
    return dict(evaluations=n, distinct_nontrivial=len(seen), failures=fails[:20])
