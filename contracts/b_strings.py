"""Bounded stand-ins for C14 (string formatting / parsing and eval(repr()) are outside the verifier's encoding).
Run on the real code under /venv/bin/python; never counted as proved."""
import math
import random
from pyvc.contract import bounded
from . import spec_midi as S
from . import spec_meta as M

TIMES = [0, 1, 480, 10 ** 12, 0.0, 0.5, 1e-7, 1.5e300, 123456.789, 1e22, 2 ** 70]


def _messages(rng, n_random):
    import mido
    from .b_messages import _boundary_messages
    out = []
    for (t, attrs) in _boundary_messages(rng, n_random):
        if t == 'sysex' and len(attrs['data']) > 200:
            attrs = dict(attrs, data=attrs['data'][:200])
        out.append((t, attrs))
    return out


@bounded('str-roundtrip', ('C14',), 'all 18 types x boundary grid of every attribute (+random) x 11 times (ints, floats, very large, very small)')
def str_roundtrip(tier, seed, only=None):
    import mido
    rng = random.Random(seed)
    fails, n, seen = [], 0, set()
    for t, attrs in _messages(rng, 10 if tier == 'quick' else 200):
        for tm in (TIMES if t in ('note_on', 'sysex', 'pitchwheel') else TIMES[:4]):
            m = mido.Message(t, time=tm, **attrs)
            n += 1
            seen.add((t, tuple(sorted(attrs.items())), repr(tm)))
            try:
                back = mido.Message.from_str(str(m))
                ok = back == m and type(back.time) is type(m.time) and mido.parse_string(mido.format_as_string(m)) == m
            except Exception as ex:
                ok, back = False, ex
            if ok and tm == TIMES[0]:
                # history: the result is a fresh message every time - editing one result must not show up in a later parse of
                # the same text (a memoised parser would hand out the edited object again)
                try:
                    back.time = 12345
                    for again in (mido.Message.from_str(str(m)), mido.parse_string(str(m)), list(mido.parse_string_stream([str(m), str(m)]))[1][0]):
                        if again != m or again is back:
                            ok, back = False, 'a second parse of the same text gave %r after the first result was edited' % (again,)
                            break
                except Exception as ex:
                    ok, back = False, ex
            if not ok:
                fails.append(dict(clause='from_str(str(m)) == m', inputs=dict(type=t, attrs={k: list(v) if isinstance(v, tuple) else v for k, v in attrs.items()}, time=repr(tm)), detail=repr(back)[:200]))
    return dict(evaluations=n, distinct_nontrivial=len(seen), failures=fails[:20])


# texts that are special to some formatting / parsing mechanism a repr may go through (str.format, %-formatting, quoting, eval)
TRICKY_TEXTS = ['{}', '{0}', 'open { brace', 'close } brace', '{{chorus}}', '%s and %d', '100%', "'", '"', '\\', ')]', 'MidiTrack([', '\x00', 'a\rb', '\u2028']


def _meta_messages():
    import mido
    out = []
    for t in M.ALL_META:
        tb, attrs = M.META[t]
        grids = []
        for (nm, kind, lo, hi, dflt) in attrs:
            if kind == 'int':
                grids.append((nm, sorted({lo, hi, (lo + hi) // 2})))
            elif kind == 'text':
                grids.append((nm, ['', 'abc', "it's \"q\" \\ \n\t", 'é' * 3] + TRICKY_TEXTS))
            elif kind == 'rate':
                grids.append((nm, [24, 25, 29.97, 30]))
            elif kind == 'key':
                grids.append((nm, sorted(M.KEYS)))
            elif kind == 'pow2':
                grids.append((nm, [1, 2, 4, 2 ** 29, 2 ** 255]))
            elif kind == 'bytes':
                grids.append((nm, [(), (0,), (1, 2, 255)]))
        def rec(i, cur):
            if i == len(grids):
                out.append(mido.MetaMessage(t, time=len(out) % 3, **cur))
                return
            for v in grids[i][1]:
                rec(i + 1, dict(cur, **{grids[i][0]: v}))
        rec(0, {})
    out.append(mido.UnknownMetaMessage(0x60, [1, 2, 3], time=4))
    out.append(mido.UnknownMetaMessage(0x0A, b'', time=0.5))
    return out


@bounded('eval-repr', ('C14',), 'messages: 18 types x boundary grid x 4 finite times; all meta types x boundary grids; UnknownMetaMessage; tracks of length 0..4; files of 0..3 tracks; text-like meta messages (alone, in tracks and in files) with braces, percent signs, quotes, backslashes, brackets, NUL and line separators')
def eval_repr(tier, seed, only=None):
    import mido
    from mido import Message, MetaMessage, UnknownMetaMessage, MidiTrack, MidiFile   # noqa: F401 (eval namespace)
    from mido.frozen import freeze_message
    rng = random.Random(seed)
    fails, n, seen = [], 0, set()
    ns = dict(Message=Message, MetaMessage=MetaMessage, UnknownMetaMessage=UnknownMetaMessage, MidiTrack=MidiTrack, MidiFile=MidiFile)
    objs = []
    for t, attrs in _messages(rng, 3 if tier == 'quick' else 50):
        for tm in (0, 3, 0.25, 1e-7):
            objs.append(mido.Message(t, time=tm, **attrs))
    metas = _meta_messages()
    objs += metas
    some = [mido.Message('note_on', note=1, time=2), metas[0], metas[-1], mido.Message('sysex', data=(1, 2)), metas[5]]
    tracks = [MidiTrack(some[:k]) for k in range(5)]
    tricky = MidiTrack([mido.MetaMessage(tp, time=i, **{('name' if 'name' in tp else 'text'): tx})
                        for i, (tp, tx) in enumerate(zip(['text', 'lyrics', 'marker', 'track_name', 'cue_marker', 'copyright', 'instrument_name', 'device_name'] * 2, TRICKY_TEXTS))])
    tracks.append(tricky)
    objs += tracks
    objs.append(MidiFile(type=1, ticks_per_beat=480, tracks=[MidiTrack(tricky), MidiTrack(some[:2])]))
    objs += [MidiFile(type=0, ticks_per_beat=96, tracks=[MidiTrack([m])]) for m in tricky]
    for k in range(4):
        objs.append(MidiFile(type=1 if k != 1 else 0, ticks_per_beat=96 * (k + 1), tracks=[MidiTrack(tr) for tr in tracks[1:1 + k]]))
    for o in objs:
        n += 1
        r = '<repr failed>'
        try:
            r = repr(o)
            seen.add(r)
            back = eval(r, dict(ns))
            if isinstance(o, MidiFile):
                ok = (back.type, back.ticks_per_beat, back.tracks) == (o.type, o.ticks_per_beat, o.tracks)
            else:
                ok = back == o and type(back) is type(o)
        except Exception as ex:
            ok, back = False, ex
        if not ok:
            try:
                shown = repr(back)[:200]
            except Exception as ex2:      # noqa  (the value that came back cannot even be shown)
                shown = 'repr of the result raised %r' % ex2
            fails.append(dict(clause='eval(repr(x)) == x', inputs=dict(repr=r[:300], kind=type(o).__name__), detail=shown))
    return dict(evaluations=n, distinct_nontrivial=len(seen), failures=fails[:20])


@bounded('meta-codec-through-bytes-and-files', ('C09',), 'every meta type x boundary grid of its attributes (texts incl. the tricky ones; smpte_offset hours < 32 and tuple data only: the '
         'rest is known findings K1/K4): from_bytes(bytes()) and a save/load round trip of a one-track file, loaded with clip=False and with clip=True')
def meta_codec_files(tier, seed, only=None):
    import io
    import mido
    fails, n, seen = [], 0, set()
    for m in _meta_messages():
        if m.type == 'smpte_offset' and m.hours >= 32:
            continue
        if isinstance(m, mido.UnknownMetaMessage) or m.type == 'end_of_track':
            continue                # (an end_of_track inside a track is folded away by the writer: C07/C08)
        txt = getattr(m, 'text', getattr(m, 'name', ''))
        try:
            txt.encode('latin1')
        except UnicodeError:
            continue                # not storable in the default charset (that refusal is C17's business)
        m = m.copy(time=int(m.time))
        n += 1
        seen.add(repr(m))
        problems = []
        try:
            back = mido.MetaMessage.from_bytes(m.bytes())
            if back != m.copy(time=0) and back != m:
                problems.append('from_bytes(bytes()) gave %r' % (back,))
        except Exception as ex:     # noqa
            problems.append('from_bytes(bytes()) raised %r' % ex)
        try:
            mf = mido.MidiFile(type=0, ticks_per_beat=96, tracks=[mido.MidiTrack([m, mido.Message('note_on', note=1, time=2)])])
            buf = io.BytesIO()
            mf.save(file=buf)
            for clip in (False, True):
                got = mido.MidiFile(file=io.BytesIO(buf.getvalue()), clip=clip).tracks[0][0]
                if got != m:
                    problems.append('save/load with clip=%s gave %r' % (clip, got))
        except Exception as ex:     # noqa
            problems.append('save/load raised %r' % ex)
        if problems:
            fails.append(dict(clause='a valid meta message survives bytes() / from_bytes and save / load (any clip setting)', inputs=dict(message=repr(m)), detail='; '.join(problems)[:300]))
    return dict(evaluations=n, distinct_nontrivial=len(seen), failures=fails[:20])


WORDS = ['note_on', 'sysex', 'pitchwheel', 'clock', 'foo', '5', 'type', '', 'NOTE_ON', 'note_on=1']
NAMES = ['note', 'channel', 'velocity', 'time', 'data', 'pitch', 'type', 'skip_checks', 'bogus', '', 'Note', 'msg', 'self', 'args']
VALUES = ['0', '127', '128', '-1', '1.5', 'abc', '', '1e3', 'nan', 'inf', '1_0', '(1,2)', '()', '(1,2', '1,2)', '12,34', '(a)', '(1,,2)',
          '(128)', '(-1)', '0x10', '٣', 'None', 'True', '1=2', '=']


def _spells(text, m):
    """independent reading of the text format: `type name=value ...`; every word after the first names an attribute of the
    message once... and its value is the attribute's value - an integer literal, for data a parenthesised comma-separated list in
    which EVERY item is an integer literal, for time an int or float literal.  True iff the text spells the message m."""
    words = text.split()
    if not words or words[0] != m.type:
        return False
    for w in words[1:]:
        if '=' not in w:
            return False
        name, value = w.split('=', 1)
        if not hasattr(m, name) or name == 'type':
            return False
        try:
            if name == 'data':
                if not (value.startswith('(') and value.endswith(')')):
                    return False
                items = [] if value == '()' else value[1:-1].split(',')
                if [int(x) for x in items] != list(m.data):
                    return False
            elif name == 'time':
                try:
                    v = int(value)
                except ValueError:
                    v = float(value)
                if not (v == m.time or (v != v and m.time != m.time)):
                    return False
            elif int(value) != getattr(m, name):
                return False
        except ValueError:
            return False
    return True


@bounded('parse-string-exceptions', ('C14',), 'lines built from 10 type words x up to 2 arguments (14 names x 26 values, with/without "="), plus 2000 random printable strings (20000 thorough); parse_string_stream on mixed line lists')
def parse_string_exceptions(tier, seed, only=None):
    import mido
    rng = random.Random(seed)
    fails, n, seen = [], 0, set()
    lines = []
    for w in WORDS:
        lines.append(w)
        for nm in NAMES:
            for v in VALUES:
                lines.append('%s %s=%s' % (w, nm, v))
            lines.append('%s %s' % (w, nm))
        for _ in range(30):
            a = '%s=%s' % (rng.choice(NAMES), rng.choice(VALUES))
            b = '%s=%s' % (rng.choice(NAMES), rng.choice(VALUES))
            lines.append('%s %s %s' % (w, a, b))
    alphabet = 'note_onsysexdata=(),.- \t0123456789timechannelx#\n'
    for _ in range(2000 if tier == 'quick' else 20000):
        lines.append(''.join(rng.choice(alphabet) for _ in range(rng.randrange(0, 30))))
    valid = lambda m: isinstance(m, mido.Message) and _is_valid(m)
    for ln in lines:
        n += 1
        seen.add(ln)
        try:
            m = mido.parse_string(ln)
            ok = valid(m)
            detail = 'returned %r' % (m,)
            if ok and not _spells(ln, m):
                ok, detail = False, 'accepted a text that is not a spelling of the message it returned: %r' % (m,)
        except ValueError:
            ok, detail = True, ''
        except Exception as ex:
            ok, detail = False, 'raised %s: %s' % (type(ex).__name__, ex)
        if not ok:
            fails.append(dict(clause='parse_string returns a valid message or raises ValueError', inputs=dict(text=ln), detail=detail[:200]))
    # the stream parser: blank lines and comments yield nothing, bad lines yield (None, 'line N: ...') and iteration goes on
    for trial in range(50 if tier == 'quick' else 500):
        chosen = [rng.choice(lines + ['', '   ', '# comment', 'note_on note=5 # trailing']) for _ in range(rng.randrange(0, 8))]
        chosen = [c.replace('\n', ' ') for c in chosen]
        n += 1
        try:
            got = list(mido.parse_string_stream(chosen))
        except Exception as ex:
            fails.append(dict(clause='parse_string_stream never raises', inputs=dict(lines=chosen), detail=repr(ex)))
            continue
        want = []
        for i, c in enumerate(chosen):
            body = c.split('#')[0].strip()
            if not body:
                continue
            try:
                want.append(('msg', mido.parse_string(body)))
            except ValueError:
                want.append(('err', i + 1))
        ok = len(got) == len(want)
        if ok:
            for (m, e), (k, w) in zip(got, want):
                if k == 'msg':
                    ok = ok and e is None and (m == w or str(m) == str(w))    # nan times never compare equal
                else:
                    ok = ok and m is None and isinstance(e, str) and e.startswith('line %d:' % w)
        if not ok:
            fails.append(dict(clause='parse_string_stream reports bad lines with their number and carries on', inputs=dict(lines=chosen), detail=repr(got)[:300]))
    return dict(evaluations=n, distinct_nontrivial=len(seen), failures=fails[:20])


def _is_valid(m):
    from numbers import Integral, Real
    a = vars(m)
    t = a.get('type')
    if t not in S.TYPES or set(a) != set(S.TYPES[t]['names']) | {'type', 'time'}:
        return False
    if not isinstance(a['time'], Real):
        return False
    for nm in S.TYPES[t]['names']:
        if nm == 'data':
            if not all(isinstance(b, Integral) and 0 <= b <= 127 for b in a['data']):
                return False
        else:
            lo, hi = S.RANGES[nm]
            if not (isinstance(a[nm], Integral) and lo <= a[nm] <= hi):
                return False
    return True
