"""Contracts for mido/ports.py  (C11 lifecycle; the lock discipline of C10 is checked by the same units).

The device behind a port is abstract: _open/_close/_send/_receive of the base classes are replaced by the DEVICE CONTRACT
    _send(msg)      may return or raise OSError (configuration), and is logged
    _close()        returns, and is logged
    _receive(block) one of: nothing happens / returns a message / queues a message / the device closes the port itself
Every call is logged together with the set of locks held at that moment (pyvc tracks `with lock:` blocks), so the same
runs give the ownership discipline of C10: the queue and the device are only touched while the port's lock is held.
"""
import collections
import time as _time

from pyvc.contract import Contract, contract, LoopSpec, V, attrs_of, cls_of, Harness, raw_function
from pyvc.dsl import And, Or, Not, Implies, eq

try:
    import z3
    from pyvc.values import SInt, SBool, SSeq, Cell, Obj, PyRaise, Unsupported, Opaque
    from .c_parser import LockModel
except ImportError:
    z3 = None

P = 'mido.ports:'


class Pending:
    def __init__(self, i):
        self.i = i

    def __repr__(self):
        return '<pending message %d>' % self.i


def port(h, clsname, closed=False, pending=0, autoreset=None, extra=None):
    import mido.ports as MP
    cls = getattr(MP, clsname) if isinstance(clsname, str) else clsname
    h.pending = [Pending(i) for i in range(pending)]
    h.lock = Obj(LockModel, {})
    attrs = {'name': 'port', '_lock': h.lock, 'closed': closed, '_messages': collections.deque(h.pending), '_parser': Opaque('parser')}
    if autoreset is not None:
        attrs['autoreset'] = autoreset
    if extra:
        attrs.update(extra)
    h.port = Obj(cls, attrs)
    return h.port


def log_of(h, kind):
    return [e for e in h.ctx.log if e[0] == kind]


def device_hooks(h_send_fail_at=None, receive_script=None):
    """hooks for the abstract device methods"""
    def _close(ip, args, kwargs):
        ip.ctx.event('_close', id(args[0]), tuple(id(l) for l in ip.ctx.held))
        return None

    def _send(ip, args, kwargs):
        n = len([e for e in ip.ctx.log if e[0] == '_send'])
        ip.ctx.event('_send', id(args[0]), args[1], tuple(id(l) for l in ip.ctx.held))
        if h_send_fail_at is not None and n == h_send_fail_at:
            raise PyRaise(OSError, ('device error',))
        return None

    def _receive(ip, args, kwargs):
        slf = args[0]
        ip.ctx.event('_receive', id(slf), kwargs.get('block', args[1] if len(args) > 1 else True), tuple(id(l) for l in ip.ctx.held))
        if slf.attrs.get('script') is not None:
            # per-port scripted device: its first poll takes in `script` messages and the device then closes the port itself
            if len([e for e in ip.ctx.log if e[0] == '_receive' and e[1] == id(slf)]) == 1:
                for k in range(slf.attrs['script']):
                    slf.attrs['_messages'].append(Pending(1000 * slf.attrs['tag'] + k))
                ip.call(ip.getattr(slf, 'close'), [], {})
            return None
        if str(slf.attrs.get('name', '')).startswith('sub'):
            return None              # the sub-ports of a MultiPort are quiet devices in these units
        if receive_script is not None:
            # scripted device: the first poll takes in `receive_script` messages and then the device closes the port itself
            # (what a socket port does when data and end-of-stream are seen in one poll); later polls do nothing
            if len([e for e in ip.ctx.log if e[0] == '_receive']) == 1:
                for k in range(receive_script):
                    slf.attrs['_messages'].append(Pending(100 + k))
                ip.call(ip.getattr(slf, 'close'), [], {})
            return None
        which = ip.ctx.fork(5)
        if which == 0:
            return None
        if which == 1:
            return Obj(_msg_cls(), {'type': 'clock', 'time': 0})
        if which == 2:
            slf.attrs['_messages'].append(Pending(100))
            return None
        if which == 4:
            # takes a message in AND closes itself in the same poll
            slf.attrs['_messages'].append(Pending(100))
        ip.call(ip.getattr(slf, 'close'), [], {})
        return None
    return {raw_function(P + 'BasePort._close'): _close, raw_function(P + 'BaseOutput._send'): _send,
            raw_function(P + 'BaseInput._receive'): _receive}


def _msg_cls():
    import mido.messages.messages as MS
    return MS.Message


_SEND_OVERRIDING = []


def send_overriding_port_class():
    """a device port in the style of mido's own rtmidi and amidi backends: output is implemented by overriding the public
    send(), and the inherited _send() stays the do-nothing default.  Whatever the library wants the device to receive
    (the reset messages of an autoreset port, panic) has to go through send()."""
    if not _SEND_OVERRIDING:
        import mido.ports as MP

        class SendOverridingPort(MP.BaseIOPort):
            def send(self, msg):
                raise NotImplementedError('device double: replaced by a hook')
        _SEND_OVERRIDING.append(SendOverridingPort)
    return _SEND_OVERRIDING[0]


def send_overriding_hooks(hooks, fail_at=None):
    """the double's send() is the device (logged as '_send'); the inherited BaseOutput._send reaches no device at all"""
    cls = send_overriding_port_class()
    dev = hooks[raw_function(P + 'BaseOutput._send')]

    def base_send(ip, args, kwargs):
        ip.ctx.event('base-_send-reaches-no-device', id(args[0]))
        return None
    hooks = dict(hooks)
    hooks[raw_function(P + 'BaseOutput._send')] = base_send
    hooks[cls.__dict__['send']] = dev
    return hooks


def sleep_model(ip, d):
    ip.ctx.event('sleep', tuple(id(l) for l in ip.ctx.held))
    return None


def reset_sequence():
    return [(ch, ctl) for ch in range(16) for ctl in (123, 121)]


# ====================================================================== close
_CLOSE = {
    'close': Harness('''
        def do(p):
            p.close()
    '''),
    'close-twice': Harness('''
        def do(p):
            p.close()
            p.close()
            p.close()
    '''),
    'with': Harness('''
        def do(p):
            with p as q:
                pass
            p.close()
    '''),
    'del': Harness('''
        def do(p):
            p.__del__()
            p.__del__()
    '''),
}


@contract
class PortClose(Contract):
    key = 'C11.close'
    target = P + 'BasePort.close'
    properties = ('C11', 'C10')
    # dev: how the device double implements output - by overriding _send() (portmidi, pygame, sockets, ...) or by overriding
    # the public send() (mido's rtmidi and amidi backends)
    configs = tuple({'how': how, 'closed': c, 'autoreset': a, 'fail': f, 'dev': d}
                    for how in ('close', 'close-twice', 'with', 'del') for c in (False, True)
                    for a in (None, False, True) for f in (None, 0, 5, 31) if (f is None or a is True)
                    for d in ('_send', 'send') if (d == '_send' or a is True))
    raises = {}
    symbolic_only = True

    def callee(self, h, cfg):
        return _CLOSE[cfg['how']].get(h)

    def hooks(self, cfg):
        hk = device_hooks(h_send_fail_at=cfg['fail'])
        return send_overriding_hooks(hk) if cfg['dev'] == 'send' else hk

    def inputs(self, h, cfg):
        cls = send_overriding_port_class() if cfg['dev'] == 'send' else 'BaseIOPort'
        return [port(h, cls, closed=cfg['closed'], autoreset=cfg['autoreset'])], {}

    def ensures(self, h, cfg, a, r):
        closes = log_of(h, '_close')
        sends = log_of(h, '_send')
        was_open = not cfg['closed']
        out = {'closed-afterwards': attrs_of(h.port)['closed'] is True,
               'device-released-exactly-once-iff-it-was-open': len(closes) == (1 if was_open else 0),
               'released-under-the-lock': all(id(h.lock) in e[2] for e in closes)}
        want = reset_sequence() if (was_open and cfg['autoreset'] is True) else []
        if cfg['fail'] is not None and want:
            want = want[:cfg['fail'] + 1]          # the failing send is the last one attempted; the error is swallowed
        got = []
        for e in sends:
            m = attrs_of(e[2])
            got.append((V(m.get('channel')), V(m.get('control'))) if m.get('type') == 'control_change' else ('?', '?'))
        out['reset-messages-sent-once-before-release'] = got == want
        if closes and sends:
            idx = h.ctx.log.index(closes[0])
            out['reset-precedes-release'] = all(h.ctx.log.index(s) < idx for s in sends)
        return out


# ====================================================================== reset / panic
_RESET = {
    'reset': Harness('''
        def do(p):
            p.reset()
    '''),
    'panic': Harness('''
        def do(p):
            p.panic()
    '''),
}


@contract
class PortResetPanic(Contract):
    """reset() / panic() on an open port hand the device exactly the documented control changes, in order, once, each
    value 0 - whichever way the port class implements output (_send() or the public send() overridden) - and do
    nothing on a closed port"""
    key = 'C11.reset-panic'
    target = P + 'BaseOutput.reset'
    properties = ('C11',)
    configs = tuple({'what': w, 'closed': c, 'dev': d} for w in ('reset', 'panic') for c in (False, True) for d in ('_send', 'send'))
    raises = {}
    symbolic_only = True

    def callee(self, h, cfg):
        return _RESET[cfg['what']].get(h)

    def hooks(self, cfg):
        hk = device_hooks()
        return send_overriding_hooks(hk) if cfg['dev'] == 'send' else hk

    def inputs(self, h, cfg):
        cls = send_overriding_port_class() if cfg['dev'] == 'send' else 'BaseIOPort'
        return [port(h, cls, closed=cfg['closed'], autoreset=False)], {}

    def ensures(self, h, cfg, a, r):
        sends = log_of(h, '_send')
        if cfg['closed']:
            want = []
        elif cfg['what'] == 'reset':
            want = [(ch, ctl, 0) for (ch, ctl) in reset_sequence()]
        else:
            want = [(ch, 120, 0) for ch in range(16)]
        got = []
        for e in sends:
            m = attrs_of(e[2])
            got.append((V(m.get('channel')), V(m.get('control')), V(m.get('value'))) if m.get('type') == 'control_change' else ('?', '?', '?'))
        return {'device-receives-exactly-the-documented-messages-in-order': got == want,
                'port-stays-as-it-was': attrs_of(h.port)['closed'] is cfg['closed'],
                'device-not-released': len(log_of(h, '_close')) == 0}


# ====================================================================== send
_SEND = Harness('''
    def do(p, msg):
        p.send(msg)
''')


@contract
class PortSend(Contract):
    key = 'C11.send'
    target = P + 'BaseOutput.send'
    properties = ('C11', 'C10')
    # every kind of message is copied: channel messages, sysex (mutable-looking data), and the data-less real-time and system
    # common messages, whose only changeable attribute is the time
    configs = tuple({'closed': c, 'what': w} for c in (False, True)
                    for w in ('message', 'message:sysex', 'message:clock', 'message:active_sensing', 'message:tune_request', 'message:songpos', 'other'))
    raises = {ValueError: 'closed_port', TypeError: 'not_a_message'}
    symbolic_only = True

    def callee(self, h, cfg):
        return _SEND.get(h)

    def hooks(self, cfg):
        return device_hooks()

    def inputs(self, h, cfg):
        from .c_messages import msg_obj
        p = port(h, 'BaseIOPort', closed=cfg['closed'])
        w = cfg['what']
        h.msg = msg_obj(h, w.split(':')[1] if ':' in w else 'note_on', time='real') if w.startswith('message') else 5
        return [p, h.msg], {}

    def closed_port(self, h, cfg, a, pr):
        return cfg['closed'] and len(log_of(h, '_send')) == 0

    def not_a_message(self, h, cfg, a, pr):
        return cfg['what'] == 'other' and len(log_of(h, '_send')) == 0

    def ensures(self, h, cfg, a, r):
        from .c_state import unchanged
        from .c_frozen import equal_state
        sends = log_of(h, '_send')
        out = {'open-port-and-message': (not cfg['closed']) and cfg['what'].startswith('message'), 'exactly-one-device-send': len(sends) == 1}
        if len(sends) == 1 and cfg['what'].startswith('message'):
            sent = sends[0][2]
            out['a-copy-is-sent'] = sent is not h.msg and attrs_of(sent) is not attrs_of(h.msg)
            out['the-copy-equals-the-message'] = equal_state(attrs_of(sent), h.attrs0)
            out['original-unchanged'] = unchanged(attrs_of(h.msg), h.attrs0)
            out['device-used-under-the-lock'] = id(h.lock) in sends[0][3]
        return out


# ====================================================================== receive
class _ReceiveLoop(LoopSpec):
    """while True: one poll of the device per iteration.  Checked for one arbitrary iteration (`step`):
       the device and the queue are touched under the lock; the loop only continues (after exactly one sleep, outside the
       lock) when nothing was delivered, the call is blocking and the port is still open"""
    header = 'True'

    def havoc(self, ip, fr, st):
        st.n0 = len(ip.ctx.log)

    def step(self, ip, fr, st):
        ctx = ip.ctx
        h = ctx.h
        ev = ctx.log[st.n0:]
        recv = [e for e in ev if e[0] == '_receive']
        sleeps = [e for e in ev if e[0] == 'sleep']
        ctx.oblige('receive.one-poll-per-iteration', len(recv) == 1)
        ctx.oblige('receive.device-polled-under-the-lock', all(id(h.lock) in e[3] for e in recv))
        ctx.oblige('receive.sleeps-once-outside-the-lock-before-polling-again', len(sleeps) == 1 and all(id(h.lock) not in e[1] for e in sleeps))
        ctx.oblige('receive.only-a-blocking-call-waits', h.block is True)
        ctx.oblige('receive.keeps-waiting-only-while-open-and-nothing-pending',
                   attrs_of(h.port)['closed'] is False and len(attrs_of(h.port)['_messages']) == 0)

    def inv(self, ip, fr, st):
        return []


_RECV = Harness('''
    def do(p, block):
        return p.receive(block=block)
''')


@contract
class PortReceive(Contract):
    key = 'C11.receive'
    target = P + 'BaseInput.receive'
    properties = ('C11', 'C10')
    configs = tuple({'closed': c, 'pending': n, 'block': b} for c in (False, True) for n in (0, 1, 2) for b in (False, True))
    loops = {(P + 'BaseInput.receive', 0): _ReceiveLoop()}
    raises = {ValueError: 'closed_and_empty_blocking', OSError: 'closed_while_waiting'}
    symbolic_only = True

    def callee(self, h, cfg):
        return _RECV.get(h)

    def hooks(self, cfg):
        return device_hooks()

    def setup(self, h, cfg, ip):
        ip.models.table[_time.sleep] = sleep_model

    def inputs(self, h, cfg):
        h.block = cfg['block']
        return [port(h, 'BaseIOPort', closed=cfg['closed'], pending=cfg['pending']), cfg['block']], {}

    def closed_and_empty_blocking(self, h, cfg, a, pr):
        return cfg['closed'] and cfg['pending'] == 0 and cfg['block'] and len(log_of(h, '_receive')) == 0

    def closed_while_waiting(self, h, cfg, a, pr):
        return cfg['block'] and attrs_of(h.port)['closed'] is True and len(attrs_of(h.port)['_messages']) == 0

    def ensures(self, h, cfg, a, r):
        q = list(attrs_of(h.port)['_messages'])
        recv = log_of(h, '_receive')
        out = {}
        if cfg['pending'] > 0:
            out['pending-message-handed-out-first'] = r is h.pending[0]
            out['without-polling-the-device'] = len(recv) == 0
            out['rest-stays-queued-in-order'] = q == h.pending[1:]
        elif cfg['closed']:
            out['closed-and-empty-nonblocking-gives-None'] = r is None and not cfg['block'] and len(recv) == 0
        else:
            # one (arbitrary) poll happened on this path
            out['never-None-when-blocking'] = not (cfg['block'] and r is None)
            out['a-message-the-device-took-in-is-handed-out-even-if-the-device-closed-in-the-same-poll'] = \
                not any(isinstance(x, Pending) and x.i == 100 for x in q) and (r is None or cls_of(r) is _msg_cls() or (isinstance(r, Pending) and r.i == 100))
        out['non-blocking-never-sleeps'] = cfg['block'] or len(log_of(h, 'sleep')) == 0
        out['device-polled-under-the-lock'] = all(id(h.lock) in e[3] for e in recv)
        return out


# ====================================================================== iteration over a closed port: drain, then stop
_ITER = Harness('''
    def do(p, how):
        out = []
        if how == 'iter':
            for m in p:
                out.append(m)
        else:
            for m in p.iter_pending():
                out.append(m)
        return out
''')


_ITER2 = Harness('''
    def do(p, how):
        out = []
        if how == 'iter':
            for m in p:
                out.append(m)
        else:
            while True:
                try:
                    out.append(p.receive())
                except (OSError, ValueError):
                    break
        return out
''')


class _AnyIterationLater(LoopSpec):
    """the polling loop of receive(): executed as one arbitrary iteration from the current state (the scripted device
    closes the port in the first poll, so no path goes round)"""
    header = 'True'

    def step(self, ip, fr, st):
        ip.ctx.oblige('receive.does-not-keep-polling-a-closed-port', False)

    def inv(self, ip, fr, st):
        return []


@contract
class PortIterClosed(Contract):
    key = 'C11.iteration-over-a-closed-port'
    target = P + 'BaseInput.__iter__'
    properties = ('C11',)
    configs = tuple({'pending': n, 'how': how} for n in (0, 1, 2, 3) for how in ('iter', 'iter_pending'))
    raises = {}
    symbolic_only = True

    def callee(self, h, cfg):
        return _ITER.get(h)

    def hooks(self, cfg):
        return device_hooks()

    def inputs(self, h, cfg):
        return [port(h, 'BaseIOPort', closed=True, pending=cfg['pending']), cfg['how']], {}

    def ensures(self, h, cfg, a, r):
        return {'hands-out-every-pending-message-in-order-then-stops': list(r) == h.pending,
                'device-not-polled': len(log_of(h, '_receive')) == 0}


@contract
class PortIterClosing(Contract):
    """the device closes the port INSIDE a receive call, in the same poll in which it took messages in"""
    key = 'C11.iteration-device-closes-inside-receive'
    target = P + 'BaseInput.__iter__'
    properties = ('C11', 'C18')
    configs = tuple({'pending': n, 'taken': k, 'how': how} for n in (0, 1, 2) for k in (0, 1, 2, 3) for how in ('iter', 'receive-loop'))
    loops = {(P + 'BaseInput.receive', 0): _AnyIterationLater()}
    raises = {}
    symbolic_only = True

    def callee(self, h, cfg):
        return _ITER2.get(h)

    def hooks(self, cfg):
        return device_hooks(receive_script=cfg['taken'])

    def setup(self, h, cfg, ip):
        ip.models.table[_time.sleep] = sleep_model

    def inputs(self, h, cfg):
        return [port(h, 'BaseIOPort', closed=False, pending=cfg['pending']), cfg['how']], {}

    def ensures(self, h, cfg, a, r):
        got = list(r)
        want = cfg['pending'] + cfg['taken']
        return {'every-message-taken-in-before-the-close-is-handed-out-in-order': len(got) == want and got[:cfg['pending']] == h.pending
                and [x.i for x in got[cfg['pending']:]] == [100 + k for k in range(cfg['taken'])],
                'ends-without-exception-and-closed': attrs_of(h.port)['closed'] is True,
                'device-polled-once': len(log_of(h, '_receive')) == 1}


# ====================================================================== MultiPort._receive terminates for both values of block
class _OnePass(LoopSpec):
    """multi_receive as used by MultiPort._receive must make exactly one pass over the ports and stop: reaching the end
    of a pass without leaving the loop means that MultiPort.receive() never returns"""
    header = 'True'

    def step(self, ip, fr, st):
        ip.ctx.oblige('MultiPort._receive.returns-after-one-pass-over-the-ports', False)

    def inv(self, ip, fr, st):
        return []


_MPR = Harness('''
    def do(mp, block):
        return mp._receive(block=block)
''')


@contract
class MultiPortReceive(Contract):
    key = 'C11.MultiPort._receive'
    target = P + 'MultiPort._receive'
    properties = ('C11', 'C10')      # C10: everything polled goes to the END of the port's queue (nothing overtakes queued messages)
    configs = tuple({'block': b, 'pend': pq, 'closed1': c} for b in (False, True) for pq in ((0, 0), (2, 1), (0, 3)) for c in (False, True))
    loops = {(P + 'multi_receive', 0): _OnePass()}
    raises = {}
    symbolic_only = True

    def callee(self, h, cfg):
        return _MPR.get(h)

    def hooks(self, cfg):
        return device_hooks()

    def setup(self, h, cfg, ip):
        import random
        ip.models.table[_time.sleep] = sleep_model

        def shuffle(ipx, rng, lst):
            # random.shuffle: some permutation (two ports: both orders)
            if ipx.ctx.fork(2) == 1:
                lst.reverse()
            return None
        ip.models.table[random.Random.shuffle] = shuffle

    def inputs(self, h, cfg):
        import mido.ports as MP
        subs = []
        h.sub_pending = []
        for i, n in enumerate(cfg['pend']):
            pend = [Pending(10 * i + j) for j in range(n)]
            h.sub_pending.append(pend)
            subs.append(Obj(MP.BaseIOPort, {'name': 'sub%d' % i, '_lock': Obj(LockModel, {}), 'closed': (cfg['closed1'] and i == 1),
                                            '_messages': collections.deque(pend), '_parser': Opaque('parser')}))
        h.subs = subs
        mp = port(h, 'MultiPort', extra={'ports': list(subs), 'yield_ports': False})
        return [mp, cfg['block']], {}

    def ensures(self, h, cfg, a, r):
        q = list(attrs_of(h.port)['_messages'])
        want_sets = [p for i, p in enumerate(h.sub_pending) if not (cfg['closed1'] and i == 1)]
        flat1 = [m for p in want_sets for m in p]
        flat2 = [m for p in reversed(want_sets) for m in p]
        return {'returns': True, 'never-sleeps': len(log_of(h, 'sleep')) == 0,
                # receive() hands a message returned by _receive() out BEFORE the queued ones: a fan-in port must queue everything
                'returns-None-so-nothing-overtakes-the-queue': r is None,
                'every-pending-message-of-every-open-port-collected-per-port-in-order': q == flat1 or q == flat2}


# ====================================================================== multi_receive over ports that close themselves
_MULTI = Harness('''
    def do(mp, how, multi_receive):
        if how == 'multi_receive':
            return list(multi_receive(mp.ports, block=False))
        if how == 'MultiPort._receive':
            mp._receive(block=False)
            return list(mp._messages)
        out = []
        while True:
            m = mp.poll()
            if m is None:
                break
            out.append(m)
        return out
''')


@contract
class MultiReceiveSelfClosing(Contract):
    """sub-ports that take messages in and close themselves in the same poll (socket ports whose peer wrote and left): every
    message taken in is handed out, in per-port order; ports that were closed before are not polled"""
    key = 'C11.multi_receive-drains-self-closing-ports'
    target = P + 'multi_receive'
    properties = ('C11', 'C18', 'C10')
    configs = tuple({'how': how, 'taken': t, 'pending': pq} for how in ('multi_receive', 'MultiPort._receive', 'MultiPort.poll')
                    for t in ((0, 2), (3, 1), (2, 0), (1, 1)) for pq in (0, 2))
    raises = {}
    symbolic_only = True

    def callee(self, h, cfg):
        return _MULTI.get(h)

    def hooks(self, cfg):
        return device_hooks()

    def setup(self, h, cfg, ip):
        import random
        ip.models.table[_time.sleep] = sleep_model
        ip.models.table[random.Random.shuffle] = lambda ipx, rng, lst: None

    def inputs(self, h, cfg):
        import mido.ports as MP
        h.subs = []
        for i, t in enumerate(cfg['taken']):
            pend = [Pending(1000 * (i + 1) + 500 + k) for k in range(cfg['pending'])] if i == 0 else []
            h.subs.append(Obj(MP.BaseIOPort, {'name': 'self-closing%d' % i, '_lock': Obj(LockModel, {}), 'closed': False, 'script': t, 'tag': i + 1,
                                              '_messages': collections.deque(pend), '_parser': Opaque('parser'), 'autoreset': False}))
        h.already_closed = Obj(MP.BaseIOPort, {'name': 'closed-before', '_lock': Obj(LockModel, {}), 'closed': True, 'script': 5, 'tag': 9,
                                               '_messages': collections.deque(), '_parser': Opaque('parser'), 'autoreset': False})
        p = port(h, 'MultiPort', pending=0, extra={'ports': [h.subs[0], h.already_closed, h.subs[1]], 'yield_ports': False})
        import mido.ports as MP2
        return [p, cfg['how'], MP2.multi_receive], {}

    def ensures(self, h, cfg, a, r):
        got = [x.i for x in r if isinstance(x, Pending)]
        want = []
        for i, t in enumerate(cfg['taken']):
            if i == 0:
                want += [1000 + 500 + k for k in range(cfg['pending'])]
            want += [1000 * (i + 1) + k for k in range(t)]
        polled = [e[1] for e in log_of(h, '_receive')]
        return {'every-message-taken-in-is-handed-out-in-per-port-order': len(r) == len(got) and got == want,
                'each-open-port-polled-once-closed-port-not-polled': sorted(polled) == sorted(id(s_) for s_ in h.subs),
                'self-closed-ports-are-closed': all(attrs_of(s_)['closed'] is True for s_ in h.subs)}


# ====================================================================== C10: ownership discipline
def queue_events(h, q):
    return [e for e in h.ctx.log if e[0] in ('deque.read', 'deque.append', 'deque.popleft') and e[1] == id(q)]


class _AnyIteration(LoopSpec):
    """one arbitrary iteration of a polling loop (no state of its own)"""
    header = 'True'

    def inv(self, ip, fr, st):
        return []


def _discipline_cfgs():
    out = []
    for cls in ('BaseIOPort', 'EchoPort', 'IOPort', 'MultiPort'):
        for op in ('receive-nonblocking', 'receive-blocking', 'poll', 'iter_pending', 'send'):
            for pending in (0, 1, 2):
                out.append({'cls': cls, 'op': op, 'pending': pending})
    return tuple(out)


_OPS = Harness('''
    def do(p, op, msg):
        if op == 'receive-nonblocking':
            return p.receive(block=False)
        if op == 'receive-blocking':
            return p.receive()
        if op == 'poll':
            return p.poll()
        if op == 'iter_pending':
            return list(p.iter_pending())
        if op == 'send':
            return p.send(msg)
''')


@contract
class LockDiscipline(Contract):
    """every access to a port's message queue, and every use of the device behind it, happens while the lock that OWNS the
    queue is held (the lock of the port that created the queue), on every path of every public operation.  Together with
    the atomic-section contracts of C11 (one device send of a fresh equal copy; pop returns the head; append at the tail)
    and the ASSUMED serialisability of critical sections of one lock this gives exactly-once, intact, per-sender FIFO
    delivery under every interleaving."""
    key = 'C10.lock-discipline'
    target = P + 'BaseInput.receive'
    properties = ('C10',)
    configs = _discipline_cfgs()
    loops = {(P + 'BaseInput.receive', 0): _ReceiveLoop(), (P + 'multi_receive', 0): _OnePass(),
             (P + 'BaseInput.iter_pending', 0): _AnyIteration()}
    raises = {OSError: 'closed_while_waiting'}
    symbolic_only = True

    def callee(self, h, cfg):
        return _OPS.get(h)

    def hooks(self, cfg):
        return device_hooks()

    def setup(self, h, cfg, ip):
        import random
        ip.models.table[_time.sleep] = sleep_model
        ip.models.table[random.Random.shuffle] = lambda ipx, rng, lst: None

    def inputs(self, h, cfg):
        import mido.ports as MP
        from .c_messages import msg_obj
        h.block = cfg['op'] == 'receive-blocking'
        msg = msg_obj(h, 'note_on', time='real')
        cls = cfg['cls']
        if cls == 'IOPort':
            inp = port(h, 'BaseIOPort', pending=cfg['pending'])
            h.owner_lock = h.lock
            h.queue = attrs_of(inp)['_messages']
            out_lock = Obj(LockModel, {})
            outp = Obj(MP.BaseIOPort, {'name': 'out', '_lock': out_lock, 'closed': False, '_messages': collections.deque(), '_parser': Opaque('parser')})
            h.port = Obj(MP.IOPort, {'input': inp, 'output': outp, 'name': 'io', '_messages': h.queue, 'closed': False,
                                     '_lock': Obj(MP.DummyLock, {})})
            h.lock = h.owner_lock
        elif cls == 'MultiPort':
            sub = Obj(MP.BaseIOPort, {'name': 'sub0', '_lock': Obj(LockModel, {}), 'closed': False,
                                      '_messages': collections.deque([Pending(50)]), '_parser': Opaque('parser')})
            p = port(h, 'MultiPort', pending=cfg['pending'], extra={'ports': [sub], 'yield_ports': False})
            h.owner_lock = h.lock
            h.queue = attrs_of(p)['_messages']
        else:
            p = port(h, cls, pending=cfg['pending'])
            h.owner_lock = h.lock
            h.queue = attrs_of(p)['_messages']
        h.subports = {}
        if cls == 'IOPort':
            h.subports = {id(inp): inp, id(outp): outp}
        elif cls == 'MultiPort':
            h.subports = {id(sub): sub}
        return [h.port, cfg['op'], msg], {}

    def closed_while_waiting(self, h, cfg, a, pr):
        return True

    def ensures(self, h, cfg, a, r):
        ev = queue_events(h, h.queue)
        bad = [e for e in ev if id(h.owner_lock) not in e[2]]
        dev = [e for e in h.ctx.log if e[0] in ('_send', '_receive') and e[1] == id(h.port)]
        bad_dev = [e for e in dev if id(h.owner_lock) not in e[-1]]
        # every device (also the ones wrapped by IOPort / MultiPort) is only used while ITS OWN port lock is held: a wrapper
        # that calls the wrapped port's _send/_receive directly lets two threads into one device
        bad_sub = []
        for e in h.ctx.log:
            if e[0] in ('_send', '_receive') and e[1] != id(h.port):
                po = h.subports.get(e[1])
                if po is not None and attrs_of(po)['_lock'].cls is LockModel and id(attrs_of(po)['_lock']) not in e[-1]:
                    bad_sub.append(e)
        return {'queue-touched-only-under-its-owning-lock': not bad,
                'device-used-only-under-the-port-lock': not bad_dev,
                'wrapped-devices-used-only-under-their-own-port-lock': not bad_sub}


# ====================================================================== construction establishes what the other contracts start from
_CONSTRUCT = Harness('''
    def do(cls, args, kwargs):
        return cls(*args, **kwargs)
''')


class _RLockToken:
    """threading.RLock() as seen by the constructor contract: a fresh re-entrant lock object"""
    _pyvc_model = True


@contract
class PortConstruction(Contract):
    """the port contracts of C10/C11 start from harness-built ports; this one proves that the real constructors build exactly
    such ports: open, a fresh RE-ENTRANT lock of their own (DummyLock only for the IOPort wrapper), the receive queue IS the
    parser's queue (what the parser completes is what receive() hands out) and is an unbounded deque, autoreset stored, _open
    called exactly once, while the port still reports closed, with the keyword arguments given"""
    key = 'C11.construction'
    target = P + 'BasePort.__init__'
    properties = ('C11', 'C10')
    configs = tuple({'cls': c, 'autoreset': a} for c in ('BaseInput', 'BaseOutput', 'BaseIOPort', 'EchoPort', 'MultiPort', 'IOPort')
                    for a in ((None,) if c in ('BaseInput', 'MultiPort', 'IOPort') else (None, False, True)))
    raises = {}
    symbolic_only = True

    def callee(self, h, cfg):
        return _CONSTRUCT.get(h)

    def hooks(self, cfg):
        def _open(ip, args, kwargs):
            slf = args[0]
            ip.ctx.event('_open', id(slf), slf.attrs.get('closed'), dict(kwargs))
            return None
        return {raw_function(P + 'BasePort._open'): _open}

    def setup(self, h, cfg, ip):
        import threading
        h.locks = []

        def rlock(ipx, *a, **k):
            o = Obj(_RLockToken, {})
            h.locks.append(o)
            return o
        ip.models.table[threading.RLock] = rlock

    def inputs(self, h, cfg):
        import mido.ports as MP
        cls = getattr(MP, cfg['cls'])
        kw = {}
        if cfg['autoreset'] is not None:
            kw['autoreset'] = cfg['autoreset']
        if cfg['cls'] == 'MultiPort':
            h.subs = [Obj(MP.BaseIOPort, {'name': 's%d' % i, 'closed': False}) for i in range(2)]
            return [cls, [tuple(h.subs)], {}], {}
        if cfg['cls'] == 'IOPort':
            h.q = collections.deque()
            h.inp = Obj(MP.BaseInput, {'name': 'in', 'closed': False, '_messages': h.q})
            h.outp = Obj(MP.BaseOutput, {'name': None, 'closed': False})
            return [cls, [h.inp, h.outp], {}], {}
        kw['extra_device_option'] = 7
        return [cls, ['the name'], kw], {}

    def ensures(self, h, cfg, a, r):
        import mido.ports as MP
        import mido.parser as PP
        ra = attrs_of(r)
        opens = [e for e in h.ctx.log if e[0] == '_open']
        out = {'open': ra.get('closed') is False}
        c = cfg['cls']
        if c == 'IOPort':
            out['wrapper-shares-the-input-queue'] = ra.get('_messages') is h.q
            out['wrapper-has-no-lock-of-its-own (the wrapped ports lock themselves)'] = cls_of(ra.get('_lock')) is MP.DummyLock
            out['wraps-the-given-ports'] = ra.get('input') is h.inp and ra.get('output') is h.outp
            out['name'] = ra.get('name') == 'in + None'
            return out
        out['own-fresh-re-entrant-lock'] = len(h.locks) == 1 and ra.get('_lock') is h.locks[0]
        want_kw = {} if c == 'MultiPort' else {'extra_device_option': 7}
        if c in ('BaseIOPort', 'EchoPort') and cfg['autoreset'] is not None:
            want_kw['autoreset'] = cfg['autoreset']      # the input half does not consume it: it reaches _open (as the code is)
        out['_open-called-exactly-once-while-still-closed-with-the-device-options'] = \
            len(opens) == 1 and opens[0][1] == id(r) and opens[0][2] is True and opens[0][3] == want_kw
        out['name'] = ra.get('name') == ('multi' if c == 'MultiPort' else 'the name')
        if c != 'BaseOutput':
            q = ra.get('_messages')
            par = ra.get('_parser')
            out['receive-queue-is-the-parser-queue-and-unbounded'] = cls_of(par) is PP.Parser and q is attrs_of(par)['messages'] \
                and isinstance(q, collections.deque) and q.maxlen is None and len(q) == 0
        if c != 'BaseInput':
            out['autoreset-stored'] = ra.get('autoreset') is (cfg['autoreset'] if cfg['autoreset'] is not None else False)
        if c == 'MultiPort':
            out['ports-copied-into-a-list'] = isinstance(ra.get('ports'), list) and len(ra['ports']) == 2 and all(x is y for x, y in zip(ra['ports'], h.subs)) \
                and ra.get('yield_ports') is False
        return out
