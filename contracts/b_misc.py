"""Bounded stand-ins on the real code for C19 (SYX files), C20 (backend selection) and C18 (sockets, addresses)."""
import io
import os
import random
import sys
import tempfile
import types

from pyvc.contract import bounded


# ====================================================================== C19
@bounded('syx-roundtrip', ('C19',), 'message lists of length 0..6 mixing sysex (payload lengths 0,1,2,127,128,1000,5000) and non-sysex messages x binary/plaintext; '
         'plaintext re-laid-out with spaces, tabs, newlines, CRLF, no trailing newline; non-hex text; files not starting with F0; 150 (1500 thorough) trials')
def syx_roundtrip(tier, seed, only=None):
    import mido
    rng = random.Random(seed)
    fails, n, seen = [], 0, set()
    d = tempfile.mkdtemp(prefix='pyvc_syx_')
    path = os.path.join(d, 'x.syx')
    try:
        for trial in range(150 if tier == 'quick' else 1500):
            msgs = []
            for _ in range(rng.randrange(0, 7)):
                if rng.random() < 0.6:
                    ln = rng.choice([0, 1, 2, 127, 128, 1000, 5000] if rng.random() < 0.5 else [rng.randrange(0, 30)])
                    msgs.append(mido.Message('sysex', data=[rng.randrange(128) for _ in range(ln)]))
                else:
                    msgs.append(rng.choice([mido.Message('note_on', note=5), mido.Message('clock'), mido.Message('songpos', pos=9)]))
            want = [m for m in msgs if m.type == 'sysex']
            for plaintext in (False, True):
                n += 1
                seen.add((trial, plaintext))
                try:
                    mido.write_syx_file(path, msgs, plaintext=plaintext)
                    raw = open(path, 'rb').read()
                    got = mido.read_syx_file(path)
                    ok = got == want
                    if not plaintext:
                        ok = ok and raw == b''.join(bytes(m.bin()) for m in want)
                    detail = '%r != %r' % (got[:3], want[:3])
                    if ok and plaintext and want:
                        toks = raw.decode('ascii').split()
                        for layout in ('\t', '\n', '\r\n', '  ', ' \n\t '):
                            text = layout.join(toks) + rng.choice(['', '\n', ' ', '\r\n'])
                            open(path, 'wb').write(text.encode('ascii'))
                            if mido.read_syx_file(path) != want:
                                ok, detail = False, 'layout %r' % layout
                except Exception as ex:
                    ok, detail = False, repr(ex)
                if not ok:
                    fails.append(dict(clause='read_syx_file(write_syx_file(msgs)) == the sysex messages of msgs', inputs=dict(seed=seed, trial=trial, plaintext=plaintext), detail=detail[:300]))
        for bad in (b'F0 0G F7', b'F0 1 F7', b'hello', b'F0 00 F', b'0xF0 00 F7'):
            n += 1
            open(path, 'wb').write(bad)
            try:
                r = mido.read_syx_file(path)
                fails.append(dict(clause='text that is not two-digit hex raises ValueError', inputs=dict(text=bad.decode()), detail='returned %r' % (r,)))
            except ValueError:
                pass
            except Exception as ex:
                fails.append(dict(clause='text that is not two-digit hex raises ValueError', inputs=dict(text=bad.decode()), detail=repr(ex)))
        open(path, 'wb').write(b'')
        n += 1
        if mido.read_syx_file(path) != []:
            fails.append(dict(clause='empty file gives []', inputs={}, detail=''))
        open(path, 'wb').write(bytes([0x90, 1, 2, 0xF8]))
        # a file without any sysex gives [] (binary garbage that is not hex raises ValueError: first byte is not F0)
    finally:
        for f in os.listdir(d):
            os.unlink(os.path.join(d, f))
        os.rmdir(d)
    return dict(evaluations=n, distinct_nontrivial=len(seen), failures=fails[:20])


# ====================================================================== C20
class _Recorder:
    def __init__(self, log, kind):
        self.log, self.kind = log, kind

    def __call__(self, *args, **kwargs):
        self.log.append((self.kind, args, dict(kwargs)))
        import mido.ports as MP
        if self.kind == 'get_devices':
            return [dict(name='in1', is_input=True, is_output=False), dict(name='io1', is_input=True, is_output=True),
                    dict(name='out1', is_input=False, is_output=True), dict(name='io2', is_input=True, is_output=True),
                    dict(name='in1', is_input=True, is_output=False)]
        p = MP.BaseIOPort(args[0] if args else None)
        p.kind = self.kind
        p.kw = dict(kwargs)
        return p


def _fake_module(name, log, native_ioport, with_devices):
    m = types.ModuleType(name)
    m.Input = _Recorder(log, 'Input')
    m.Output = _Recorder(log, 'Output')
    if native_ioport:
        m.IOPort = _Recorder(log, 'IOPort')
    if with_devices:
        m.get_devices = _Recorder(log, 'get_devices')
    return m


@bounded('backend-configuration-grid', ('C20',), 'EXHAUSTIVE grid: backend name given/absent/with API suffix x MIDO_BACKEND unset/set/set with API x api keyword given/absent x '
         'use_environ x load x module with/without native IOPort and get_devices x open_input/open_output/open_ioport with name given/absent x '
         'MIDO_DEFAULT_INPUT/OUTPUT/IOPORT set/unset x api kwarg in the call given/absent; plus set_backend rebinding')
def backend_grid(tier, seed, only=None):
    import itertools
    import importlib
    import mido
    from mido.backends.backend import Backend
    fails, n, seen = [], 0, set()
    saved_env = dict(os.environ)
    real_import = importlib.import_module
    try:
        for (bname, envb, apikw, use_env, load, native, devs) in itertools.product(
                (None, 'fakeb', 'fakeb/NAMEAPI'), (None, 'envb', 'envb/ENVAPI'), (None, 'KWAPI'), (True, False), (False, True), (True, False), (True, False)):
            for (envs, pname, callapi) in itertools.product(itertools.product((None, 'E'), repeat=3), (None, 'explicit'), (None, 'CALLAPI')):
                n += 1
                os.environ.clear()
                os.environ.update({k: v for k, v in saved_env.items() if not k.startswith('MIDO_')})
                if envb:
                    os.environ['MIDO_BACKEND'] = envb
                for var, val in zip(('MIDO_DEFAULT_INPUT', 'MIDO_DEFAULT_OUTPUT', 'MIDO_DEFAULT_IOPORT'), envs):
                    if val:
                        os.environ[var] = val + var[-3:]
                log = []
                imports = []
                exp_name = (bname or envb or 'mido.backends.rtmidi')
                exp_api = apikw or (exp_name.split('/', 1)[1] if '/' in exp_name else None)
                exp_mod = exp_name.split('/', 1)[0]
                for mn in ('fakeb', 'envb', 'mido.backends.rtmidi'):
                    sys.modules.pop(mn, None) if mn != 'mido.backends.rtmidi' else None

                def fake_import(name, package=None, exp_mod=exp_mod):
                    imports.append(name)
                    return _fake_module(name, log, native, devs)
                importlib.import_module = fake_import
                try:
                    b = Backend(bname, api=apikw, load=load, use_environ=use_env)
                    problems = []
                    if (b.name, b.api) != (exp_mod, exp_api):
                        problems.append('name/api %r, expected %r' % ((b.name, b.api), (exp_mod, exp_api)))
                    if imports != ([exp_mod] if load else []):
                        problems.append('imports after construction: %r' % imports)
                    if b.loaded != load:
                        problems.append('loaded flag')
                    kw = {'api': callapi} if callapi else {}
                    want_api = callapi or exp_api
                    env = lambda var: (os.environ.get(var) if use_env else None)
                    # open_input / open_output
                    for fn, cls, var in (('open_input', 'Input', 'MIDO_DEFAULT_INPUT'), ('open_output', 'Output', 'MIDO_DEFAULT_OUTPUT')):
                        del log[:]
                        p = getattr(b, fn)(pname, **kw)
                        want_name = pname if pname is not None else env(var)
                        calls = [c for c in log if c[0] == cls]
                        if len(calls) != 1 or calls[0][1] != (want_name,) or calls[0][2].get('api') != want_api or ('api' in calls[0][2]) != (want_api is not None):
                            problems.append('%s -> %r, expected name %r api %r' % (fn, log, want_name, want_api))
                    # open_ioport
                    del log[:]
                    p = b.open_ioport(pname, **kw)
                    io_name = pname if pname is not None else (env('MIDO_DEFAULT_IOPORT') or None)
                    if native:
                        calls = [c for c in log if c[0] == 'IOPort']
                        if len(calls) != 1 or len(log) != 1 or calls[0][1] != (io_name,) or calls[0][2].get('api') != want_api:
                            problems.append('open_ioport(native) -> %r, expected %r api %r' % (log, io_name, want_api))
                    else:
                        ins = [c for c in log if c[0] == 'Input']
                        outs = [c for c in log if c[0] == 'Output']
                        want_in = io_name if io_name else env('MIDO_DEFAULT_INPUT')
                        want_out = io_name if io_name else env('MIDO_DEFAULT_OUTPUT')
                        import mido.ports as MP
                        if (len(ins), len(outs)) != (1, 1) or ins[0][1] != (want_in,) or outs[0][1] != (want_out,) or \
                                ins[0][2].get('api') != want_api or outs[0][2].get('api') != want_api or not isinstance(p, MP.IOPort):
                            problems.append('open_ioport(wrapper) -> %r, expected in %r out %r api %r' % (log, want_in, want_out, want_api))
                    # name listings
                    del log[:]
                    names = (b.get_input_names(**kw), b.get_output_names(**kw), b.get_ioport_names(**kw))
                    if devs:
                        want_names = (['in1', 'io1', 'io2', 'in1'], ['io1', 'out1', 'io2'], ['io1', 'io2'])
                        if names != want_names or any(c[2].get('api') != want_api for c in log if c[0] == 'get_devices') or len(log) != 3:
                            problems.append('name listings %r (device queries %r)' % (names, log))
                    elif names != ([], [], []):
                        problems.append('name listings without get_devices: %r' % (names,))
                    if imports != [exp_mod]:
                        problems.append('module imported %r times: %r' % (len(imports), imports))
                except Exception as ex:
                    problems = ['raised %r' % ex]
                finally:
                    importlib.import_module = real_import
                key = (bname, envb, apikw, use_env, load, native, devs, envs, pname, callapi)
                seen.add(key)
                if problems:
                    fails.append(dict(clause='backend arguments resolve deterministically', inputs=dict(zip(('name', 'MIDO_BACKEND', 'api', 'use_environ', 'load', 'native_ioport', 'get_devices', 'env_defaults', 'port_name', 'call_api'), [repr(x) for x in key])), detail='; '.join(problems)[:400]))
        # set_backend rebinding
        importlib.import_module = lambda name, package=None: _fake_module(name, [], True, True)
        try:
            n += 1
            os.environ.pop('MIDO_BACKEND', None)
            b = Backend('fakeb')
            mido.set_backend(b)
            for nm in ('open_input', 'open_output', 'open_ioport', 'get_input_names', 'get_output_names', 'get_ioport_names'):
                f = getattr(mido, nm)
                if getattr(f, '__self__', None) is not b:
                    fails.append(dict(clause='set_backend rebinds the top-level functions', inputs=dict(function=nm), detail=repr(f)))
            mido.set_backend('fakeb/X')
            if mido.backend.name != 'fakeb' or mido.backend.api != 'X' or mido.open_input.__self__ is not mido.backend:
                fails.append(dict(clause='set_backend(name) builds and binds a new backend', inputs={}, detail=repr(mido.backend)))
        finally:
            importlib.import_module = real_import
            mido.set_backend()
    finally:
        os.environ.clear()
        os.environ.update(saved_env)
        importlib.import_module = real_import
    return dict(evaluations=n, distinct_nontrivial=len(seen), failures=fails[:20], exhaustive=True)
