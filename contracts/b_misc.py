"""Bounded stand-ins on the real code for C19 (SYX files), C20 (backend selection) and C18 (sockets, addresses)."""
import io
import os
import random
import sys
import tempfile
import time
import types

from pyvc.contract import bounded


# ====================================================================== C19
@bounded('syx-roundtrip', ('C19',), 'message lists of length 0..6 mixing sysex (payload lengths 0,1,2,127,128,1000,5000) and non-sysex messages x binary/plaintext; '
         'single payloads of 1363..350000 bytes (files of 4 KiB .. 1 MiB) x binary/plaintext; '
         'plaintext re-laid-out with spaces, tabs, newlines, CRLF, no trailing newline; one file of 3000 messages per format; non-hex text; files not starting with F0; 150 (1500 thorough) trials')
def syx_roundtrip(tier, seed, only=None):
    import mido
    rng = random.Random(seed)
    fails, n, seen = [], 0, set()
    d = tempfile.mkdtemp(prefix='pyvc_syx_')
    path = os.path.join(d, 'x.syx')
    try:
        for trial in range(150 if tier == 'quick' else 1500):
            msgs = []
            for _ in range(rng.randrange(0, 7)):
                if rng.random() < 0.6:
                    ln = rng.choice([0, 1, 2, 127, 128, 1000, 5000] if rng.random() < 0.5 else [rng.randrange(0, 30)])
                    msgs.append(mido.Message('sysex', data=[rng.randrange(128) for _ in range(ln)]))
                else:
                    msgs.append(rng.choice([mido.Message('note_on', note=5), mido.Message('clock'), mido.Message('songpos', pos=9)]))
            want = [m for m in msgs if m.type == 'sysex']
            for plaintext in (False, True):
                n += 1
                seen.add((trial, plaintext))
                try:
                    mido.write_syx_file(path, msgs, plaintext=plaintext)
                    raw = open(path, 'rb').read()
                    got = mido.read_syx_file(path)
                    ok = got == want
                    if not plaintext:
                        ok = ok and raw == b''.join(bytes(m.bin()) for m in want)
                    detail = '%r != %r' % (got[:3], want[:3])
                    if ok and plaintext and want:
                        toks = raw.decode('ascii').split()
                        for layout in ('\t', '\n', '\r\n', '  ', ' \n\t '):
                            text = layout.join(toks) + rng.choice(['', '\n', ' ', '\r\n'])
                            open(path, 'wb').write(text.encode('ascii'))
                            if mido.read_syx_file(path) != want:
                                ok, detail = False, 'layout %r' % layout
                except Exception as ex:
                    ok, detail = False, repr(ex)
                if not ok:
                    fails.append(dict(clause='read_syx_file(write_syx_file(msgs)) == the sysex messages of msgs', inputs=dict(seed=seed, trial=trial, plaintext=plaintext), detail=detail[:300]))
        # many messages in one file (the reader parses the whole file before it hands anything out)
        many = [mido.Message('sysex', data=[i % 128, (i // 128) % 128]) for i in range(3000)]
        for plaintext in (False, True):
            n += 1
            mido.write_syx_file(path, many, plaintext=plaintext)
            got = mido.read_syx_file(path)
            if got != many:
                fails.append(dict(clause='read_syx_file(write_syx_file(msgs)) == the sysex messages of msgs', inputs=dict(messages=3000, plaintext=plaintext),
                                  detail='%d messages came back, first %r' % (len(got), got[:1])))
        # large dumps: files longer than the block sizes a chunked reader would plausibly use (4 KiB .. 1 MiB); a plain-text
        # file has 3 characters per byte, so these lengths put a block boundary inside a hex pair / right after one
        for ln in (1363, 2729, 21843, 21844, 21845, 43690, 70000, 350000):
            big = [mido.Message('sysex', data=[(i * 7) % 128 for i in range(ln)]), mido.Message('clock'), mido.Message('sysex', data=[1, 2, 3])]
            want = [big[0], big[2]]
            for plaintext in (False, True):
                n += 1
                try:
                    mido.write_syx_file(path, big, plaintext=plaintext)
                    got = mido.read_syx_file(path)
                    ok, detail = got == want, '%d messages came back, payload lengths %r' % (len(got), [len(m.data) for m in got[:3]])
                except Exception as ex:
                    ok, detail = False, repr(ex)
                if not ok:
                    fails.append(dict(clause='read_syx_file(write_syx_file(msgs)) == the sysex messages of msgs', inputs=dict(payload_length=ln, plaintext=plaintext),
                                      detail=detail[:300]))
        for bad in (b'F0 0G F7', b'F0 1 F7', b'hello', b'F0 00 F', b'0xF0 00 F7'):
            n += 1
            open(path, 'wb').write(bad)
            try:
                r = mido.read_syx_file(path)
                fails.append(dict(clause='text that is not two-digit hex raises ValueError', inputs=dict(text=bad.decode()), detail='returned %r' % (r,)))
            except ValueError:
                pass
            except Exception as ex:
                fails.append(dict(clause='text that is not two-digit hex raises ValueError', inputs=dict(text=bad.decode()), detail=repr(ex)))
        open(path, 'wb').write(b'')
        n += 1
        if mido.read_syx_file(path) != []:
            fails.append(dict(clause='empty file gives []', inputs={}, detail=''))
        open(path, 'wb').write(bytes([0x90, 1, 2, 0xF8]))
        # a file without any sysex gives [] (binary garbage that is not hex raises ValueError: first byte is not F0)
    finally:
        for f in os.listdir(d):
            os.unlink(os.path.join(d, f))
        os.rmdir(d)
    return dict(evaluations=n, distinct_nontrivial=len(seen), failures=fails[:20])


# ====================================================================== C20
class _Recorder:
    def __init__(self, log, kind):
        self.log, self.kind = log, kind

    def __call__(self, *args, **kwargs):
        self.log.append((self.kind, args, dict(kwargs)))
        import mido.ports as MP
        if self.kind == 'get_devices':
            return [dict(name='Late', is_input=False, is_output=True),      # the output side of a port whose input side comes last
                            dict(name='in1', is_input=True, is_output=False), dict(name='io1', is_input=True, is_output=True),
                    dict(name='out1', is_input=False, is_output=True), dict(name='io2', is_input=True, is_output=True),
                    dict(name='in1', is_input=True, is_output=False),
                    # one entry per direction, the outputs listed in another order than the inputs
                    dict(name='Synth', is_input=True, is_output=False), dict(name='Keys', is_input=True, is_output=False),
                    dict(name='Keys', is_input=False, is_output=True), dict(name='Synth', is_input=False, is_output=True),
                            dict(name='Late', is_input=True, is_output=False)]
        p = MP.BaseIOPort(args[0] if args else None)
        p.kind = self.kind
        p.kw = dict(kwargs)
        return p


def _fake_module(name, log, native_ioport, with_devices):
    m = types.ModuleType(name)
    m.Input = _Recorder(log, 'Input')
    m.Output = _Recorder(log, 'Output')
    if native_ioport:
        m.IOPort = _Recorder(log, 'IOPort')
    if with_devices:
        m.get_devices = _Recorder(log, 'get_devices')
    return m


@bounded('backend-configuration-grid', ('C20',), 'EXHAUSTIVE grid: backend name given/absent/with API suffix x MIDO_BACKEND unset/set/set with API x api keyword given/absent x '
         'use_environ x load x module with/without native IOPort and get_devices x open_input/open_output/open_ioport with name given/absent x '
         'MIDO_DEFAULT_INPUT/OUTPUT/IOPORT set/unset x api kwarg in the call given/absent; plus set_backend rebinding')
def backend_grid(tier, seed, only=None):
    import itertools
    import importlib
    import mido
    from mido.backends.backend import Backend
    fails, n, seen = [], 0, set()
    saved_env = dict(os.environ)
    real_import = importlib.import_module
    try:
        for (bname, envb, apikw, use_env, load, native, devs) in itertools.product(
                (None, 'fakeb', 'fakeb/NAMEAPI'), (None, 'envb', 'envb/ENVAPI'), (None, 'KWAPI'), (True, False), (False, True), (True, False), (True, False)):
            for (envs, pname, callapi) in itertools.product(itertools.product((None, 'E'), repeat=3), (None, 'explicit'), (None, 'CALLAPI')):
                n += 1
                os.environ.clear()
                os.environ.update({k: v for k, v in saved_env.items() if not k.startswith('MIDO_')})
                if envb:
                    os.environ['MIDO_BACKEND'] = envb
                for var, val in zip(('MIDO_DEFAULT_INPUT', 'MIDO_DEFAULT_OUTPUT', 'MIDO_DEFAULT_IOPORT'), envs):
                    if val:
                        os.environ[var] = val + var[-3:]
                log = []
                imports = []
                exp_name = (bname or envb or 'mido.backends.rtmidi')
                exp_api = apikw or (exp_name.split('/', 1)[1] if '/' in exp_name else None)
                exp_mod = exp_name.split('/', 1)[0]
                for mn in ('fakeb', 'envb', 'mido.backends.rtmidi'):
                    sys.modules.pop(mn, None) if mn != 'mido.backends.rtmidi' else None

                def fake_import(name, package=None, exp_mod=exp_mod):
                    imports.append(name)
                    return _fake_module(name, log, native, devs)
                importlib.import_module = fake_import
                try:
                    b = Backend(bname, api=apikw, load=load, use_environ=use_env)
                    problems = []
                    if (b.name, b.api) != (exp_mod, exp_api):
                        problems.append('name/api %r, expected %r' % ((b.name, b.api), (exp_mod, exp_api)))
                    if imports != ([exp_mod] if load else []):
                        problems.append('imports after construction: %r' % imports)
                    if b.loaded != load:
                        problems.append('loaded flag')
                    kw = {'api': callapi} if callapi else {}
                    want_api = callapi or exp_api
                    env = lambda var: (os.environ.get(var) if use_env else None)
                    # open_input / open_output
                    for fn, cls, var in (('open_input', 'Input', 'MIDO_DEFAULT_INPUT'), ('open_output', 'Output', 'MIDO_DEFAULT_OUTPUT')):
                        del log[:]
                        p = getattr(b, fn)(pname, **kw)
                        want_name = pname if pname is not None else env(var)
                        calls = [c for c in log if c[0] == cls]
                        if len(calls) != 1 or calls[0][1] != (want_name,) or calls[0][2].get('api') != want_api or ('api' in calls[0][2]) != (want_api is not None):
                            problems.append('%s -> %r, expected name %r api %r' % (fn, log, want_name, want_api))
                    # open_ioport
                    del log[:]
                    p = b.open_ioport(pname, **kw)
                    io_name = pname if pname is not None else (env('MIDO_DEFAULT_IOPORT') or None)
                    if native:
                        calls = [c for c in log if c[0] == 'IOPort']
                        if len(calls) != 1 or len(log) != 1 or calls[0][1] != (io_name,) or calls[0][2].get('api') != want_api:
                            problems.append('open_ioport(native) -> %r, expected %r api %r' % (log, io_name, want_api))
                    else:
                        ins = [c for c in log if c[0] == 'Input']
                        outs = [c for c in log if c[0] == 'Output']
                        want_in = io_name if io_name else env('MIDO_DEFAULT_INPUT')
                        want_out = io_name if io_name else env('MIDO_DEFAULT_OUTPUT')
                        import mido.ports as MP
                        if (len(ins), len(outs)) != (1, 1) or ins[0][1] != (want_in,) or outs[0][1] != (want_out,) or \
                                ins[0][2].get('api') != want_api or outs[0][2].get('api') != want_api or not isinstance(p, MP.IOPort):
                            problems.append('open_ioport(wrapper) -> %r, expected in %r out %r api %r' % (log, want_in, want_out, want_api))
                    # name listings
                    del log[:]
                    names = (b.get_input_names(**kw), b.get_output_names(**kw), b.get_ioport_names(**kw))
                    if devs:
                        want_names = (['in1', 'io1', 'io2', 'in1', 'Synth', 'Keys', 'Late'], ['Late', 'io1', 'out1', 'io2', 'Keys', 'Synth'], ['io1', 'io2', 'Synth', 'Keys', 'Late'])
                        if names != want_names or any(c[2].get('api') != want_api for c in log if c[0] == 'get_devices') or len(log) != 3:
                            problems.append('name listings %r (device queries %r)' % (names, log))
                    elif names != ([], [], []):
                        problems.append('name listings without get_devices: %r' % (names,))
                    if imports != [exp_mod]:
                        problems.append('module imported %r times: %r' % (len(imports), imports))
                except Exception as ex:
                    problems = ['raised %r' % ex]
                finally:
                    importlib.import_module = real_import
                key = (bname, envb, apikw, use_env, load, native, devs, envs, pname, callapi)
                seen.add(key)
                if problems:
                    fails.append(dict(clause='backend arguments resolve deterministically', inputs=dict(zip(('name', 'MIDO_BACKEND', 'api', 'use_environ', 'load', 'native_ioport', 'get_devices', 'env_defaults', 'port_name', 'call_api'), [repr(x) for x in key])), detail='; '.join(problems)[:400]))
        # set_backend rebinding
        importlib.import_module = lambda name, package=None: _fake_module(name, [], True, True)
        try:
            n += 1
            os.environ.pop('MIDO_BACKEND', None)
            b = Backend('fakeb')
            mido.set_backend(b)
            for nm in ('open_input', 'open_output', 'open_ioport', 'get_input_names', 'get_output_names', 'get_ioport_names'):
                f = getattr(mido, nm)
                if getattr(f, '__self__', None) is not b:
                    fails.append(dict(clause='set_backend rebinds the top-level functions', inputs=dict(function=nm), detail=repr(f)))
            mido.set_backend('fakeb/X')
            if mido.backend.name != 'fakeb' or mido.backend.api != 'X' or mido.open_input.__self__ is not mido.backend:
                fails.append(dict(clause='set_backend(name) builds and binds a new backend', inputs={}, detail=repr(mido.backend)))
        finally:
            importlib.import_module = real_import
            mido.set_backend()
    finally:
        os.environ.clear()
        os.environ.update(saved_env)
        importlib.import_module = real_import
    return dict(evaluations=n, distinct_nontrivial=len(seen), failures=fails[:20], exhaustive=True)


# ====================================================================== C18
def _encode_ref(kind, rng):
    """independent reference encoding (MIDI 1.0) of a random message: returns (Message, bytes)"""
    import mido
    if kind == 'note':
        ch, n, v = rng.randrange(16), rng.randrange(128), rng.randrange(128)
        return mido.Message('note_on', channel=ch, note=n, velocity=v), bytes([0x90 | ch, n, v])
    if kind == 'pc':
        ch, p = rng.randrange(16), rng.randrange(128)
        return mido.Message('program_change', channel=ch, program=p), bytes([0xC0 | ch, p])
    if kind == 'pitch':
        ch, p = rng.randrange(16), rng.randrange(-8192, 8192)
        return mido.Message('pitchwheel', channel=ch, pitch=p), bytes([0xE0 | ch, (p + 8192) & 0x7F, (p + 8192) >> 7])
    if kind == 'sysex':
        data = [rng.randrange(128) for _ in range(rng.choice([0, 1, 2, 5, 40]))]
        return mido.Message('sysex', data=data), bytes([0xF0] + data + [0xF7])
    if kind == 'songpos':
        p = rng.randrange(16384)
        return mido.Message('songpos', pos=p), bytes([0xF2, p & 0x7F, p >> 7])
    return mido.Message('clock'), bytes([0xF8])


@bounded('socket-stream-cuts', ('C18',), 'real SocketPort over a real socketpair: 60 (1000 thorough) random message sequences of length 1..6 (note_on, program_change, pitchwheel, '
         'sysex 0..40 bytes, songpos, clock) x EVERY cut offset 0..total length x 2 random segmentations of the bytes before the cut (receiver polled between '
         'segments); peer then closes; plus close-seen-by-peer, a real PortServer with 3 TCP clients on the loopback interface, and an address grid')
def socket_cuts(tier, seed, only=None):
    import socket
    import threading
    import mido
    from mido.sockets import SocketPort, PortServer, connect, format_address, parse_address
    rng = random.Random(seed)
    fails, n, seen = [], 0, set()

    def run_iteration(port, out):
        try:
            for m in port:
                out.append(m)
            out.append('END')
        except BaseException as ex:       # noqa
            out.append(('EXC', repr(ex)))

    for trial in range(60 if tier == 'quick' else 1000):
        if len(fails) >= 3:
            break                        # enough (a hanging iteration costs its whole time-out each time)
        pairs = [_encode_ref(rng.choice(['note', 'pc', 'pitch', 'sysex', 'songpos', 'clock']), rng) for _ in range(rng.randrange(1, 7))]
        data = b''.join(b for _, b in pairs)
        ends, acc = [], 0
        for _, b in pairs:
            acc += len(b)
            ends.append(acc)
        for cut in range(len(data) + 1):
            if len(fails) >= 3:
                break
            want = [m for (m, _), e in zip(pairs, ends) if e <= cut]
            for rep in range(2):
                n += 1
                seen.add((trial, cut, rep))
                a, b = socket.socketpair()
                port = SocketPort('peer', 1, conn=a)
                got = []
                try:
                    pos = 0
                    while pos < cut:
                        step = min(cut - pos, rng.choice([1, 1, 2, 3, 7, 1000]))
                        b.sendall(data[pos:pos + step])
                        pos += step
                        if rng.random() < 0.7:
                            try:
                                got.extend(port.iter_pending())
                            except Exception as ex:       # noqa
                                got.append(('EXC', repr(ex)))
                    b.close()
                    rest = []
                    t = threading.Thread(target=run_iteration, args=(port, rest), daemon=True)
                    t.start()
                    t.join(5)
                    problems = []
                    if t.is_alive():
                        problems.append('iteration did not end after the peer disconnected')
                    elif rest[-1:] != ['END']:
                        problems.append('iteration ended with %r' % (rest[-1:],))
                    got.extend(x for x in rest if isinstance(x, mido.Message))
                    if [str(x) for x in got] != [str(x) for x in want] or any(not isinstance(x, mido.Message) for x in got):
                        problems.append('delivered %r, complete before the cut were %r' % (got, want))
                    if not t.is_alive() and not port.closed:
                        problems.append('port does not report itself closed')
                    if problems:
                        fails.append(dict(clause='exactly the completely arrived messages, then a clean end', inputs=dict(seed=seed, trial=trial, cut=cut, stream=data.hex()), detail='; '.join(problems)[:400]))
                finally:
                    port.close()
                    b.close()
    # polling never blocks, whatever the number of bytes waiting (powers of two are where chunked readers go wrong) and even
    # though the peer stays connected
    for nbytes in (1, 3, 255, 256, 1023, 1024, 1025, 2048, 4096, 8192):
        n += 1
        seen.add(('burst', nbytes))
        a, b = socket.socketpair()
        port = SocketPort('peer', 1, conn=a)
        try:
            k3, rest = divmod(nbytes, 3)
            burst = [mido.Message('note_on', channel=i % 16, note=i % 128, velocity=(i // 7) % 128) for i in range(k3)] + [mido.Message('tune_request')] * rest
            b.sendall(b''.join(bytes(m.bin()) for m in burst))
            got = []
            t = threading.Thread(target=lambda: got.extend(port.iter_pending()), daemon=True)
            t.start()
            t.join(5)
            if t.is_alive():
                fails.append(dict(clause='polling a socket port does not block while the peer stays connected', inputs=dict(bytes_waiting=nbytes), detail='iter_pending() still running after 5 s'))
                b.close()
                t.join(5)
            elif [str(x) for x in got] != [str(x) for x in burst]:
                fails.append(dict(clause='exactly the completely arrived messages, then a clean end', inputs=dict(bytes_waiting=nbytes), detail='%d of %d messages' % (len(got), len(burst))))
        finally:
            port.close()
            b.close()
    # closing a socket port is seen by its peer as a disconnect
    for _ in range(3):
        n += 1
        a, b = socket.socketpair()
        port = SocketPort('peer', 1, conn=a)
        del a
        port.send(mido.Message('note_on'))
        port.close()
        b.settimeout(5)
        try:
            first = b.recv(10)
            eof = b.recv(10)
            if first != bytes([0x90, 0, 64]) or eof != b'':
                fails.append(dict(clause='close is seen by the peer as a disconnect', inputs={}, detail='peer read %r then %r' % (first, eof)))
        except OSError as ex:
            fails.append(dict(clause='close is seen by the peer as a disconnect', inputs={}, detail='peer sees no end of stream: %r' % ex))
        finally:
            b.close()
    # a server with several clients over TCP on the loopback interface
    try:
        s0 = socket.socket()
        s0.bind(('127.0.0.1', 0))
        portno = s0.getsockname()[1]
        s0.close()
        srv = PortServer('127.0.0.1', portno)
    except OSError as ex:
        srv = None
        loopback = 'loopback TCP not available here: %r' % ex
    if srv is not None:
        loopback = 'ok'
        n += 1
    def server_part():
        try:
            clients, sent, got = [], [], []
            for _ in range(3):
                clients.append(connect('127.0.0.1', portno))      # the listen backlog is 1: let the server accept each one
                t0 = time.time()
                while len(srv.ports) < len(clients) and time.time() - t0 < 5:
                    m = srv.poll()
                    if m is not None:
                        got.append(m)
            for i, c in enumerate(clients):
                for k in range(3):
                    m = mido.Message('note_on', channel=i, note=k)
                    c.send(m)
                    sent.append(m)
            clients[1].close()
            t0 = time.time()
            while len(got) < len(sent) and time.time() - t0 < 10:
                m = srv.poll()
                if m is not None:
                    got.append(m)
                else:
                    time.sleep(0.005)
            t1 = time.time()
            extra = srv.poll()
            if time.time() - t1 > 2:
                fails.append(dict(clause='server poll does not block', inputs={}, detail='poll took %.1fs' % (time.time() - t1)))
            if sorted(map(str, got)) != sorted(map(str, sent)) or extra is not None:
                fails.append(dict(clause='server hands out the messages of all its clients', inputs={}, detail='got %r extra %r' % (got, extra)))
            for ch in range(3):
                if [m for m in got if m.channel == ch] != [m for m in sent if m.channel == ch]:
                    fails.append(dict(clause='per-client order is kept by the server', inputs=dict(client=ch), detail=repr(got)))
            srv.poll()
            if any(p.closed for p in srv.ports) and len(srv.ports) == 3:
                srv.poll()
            if len([p for p in srv.ports if not p.closed]) != 2:
                fails.append(dict(clause='a disconnected client is dropped by the server', inputs={}, detail=repr(srv.ports)))
            for c in clients:
                c.close()
        except Exception as ex:     # noqa
            fails.append(dict(clause='server fan-in', inputs={}, detail=repr(ex)))
        finally:
            srv.close()
    if srv is not None:
        wt = threading.Thread(target=server_part, daemon=True)
        wt.start()
        wt.join(60)
        if wt.is_alive():
            fails.append(dict(clause='a server port hands out messages without blocking forever', inputs={}, detail='PortServer.poll() / connect did not return within 60 s'))
    # addresses
    for host in ('', 'localhost', '127.0.0.1', 'a.b-c_d', 'h' * 300, 'ü', ' ', 'LocalHost', 'StudioMac.local', 'ÄÖ', ' padded ', 'UPPER', 'fe80--1', '0x10'):
        for portno in (1, 2, 9, 10, 80, 8080, 65534, 65535):
            n += 1
            seen.add(('addr', host, portno))
            try:
                ok = parse_address(format_address(host, portno)) == (host, portno) and format_address(*parse_address('%s:%d' % (host, portno))) == '%s:%d' % (host, portno)
                detail = format_address(host, portno)
            except Exception as ex:   # noqa
                ok, detail = False, repr(ex)
            if not ok:
                fails.append(dict(clause='format_address and parse_address are mutually inverse', inputs=dict(host=host, port=portno), detail=detail))
    for bad in ('h:0', 'h:65536', 'h:-1', 'h', 'a:b:1', ':', 'h:x', 'h:1.5', ''):
        n += 1
        try:
            r = parse_address(bad)
            fails.append(dict(clause='malformed address raises ValueError', inputs=dict(address=bad), detail=repr(r)))
        except ValueError:
            pass
    return dict(evaluations=n, distinct_nontrivial=len(seen), failures=fails[:20], loopback=loopback)


# ====================================================================== C09 / C07: results of two calls are independent objects
@bounded('meta-and-file-results-are-independent', ('C09', 'C07'), 'every meta type (defaults, 2 value sets each) : bytes() / from_bytes twice with every attribute and the list of '
         'the first result edited in between; 40 (400 thorough) small random files: save, load, edit every message of the loaded file (times, values, appended '
         'messages), load the same bytes again and save the untouched original again: same events, same bytes')
def results_independent(tier, seed, only=None):
    import io
    import mido
    from mido.midifiles.meta import MetaMessage
    from . import spec_meta as M
    rng = random.Random(seed)
    fails, n, seen = [], 0, set()

    def value(kind, lo, hi, which):
        if kind == 'int':
            return [lo, hi, (lo + hi) // 2][which]
        if kind == 'text':
            return ['', 'abc', 'caf\xe9 \xfc'][which]
        if kind == 'rate':
            return [24, 25, 30][which]
        if kind == 'key':
            return ['C', 'F#m', 'Cb'][which]
        if kind == 'pow2':
            return [1, 4, 2 ** 20][which]
        if kind == 'bytes':
            return [(), (1, 2, 3), (255, 0)][which]
        raise KeyError(kind)

    for t in M.ALL_META:
        for which in range(3):
            n += 1
            seen.add((t, which))
            try:
                kw = {nm: value(kind, lo, hi, which) for (nm, kind, lo, hi, dflt) in M.META[t][1]}
                if t == 'smpte_offset':
                    kw['hours'] = min(kw.get('hours', 0), 23)          # known finding K1: hours >= 32 (outside this stand-in)
                m = MetaMessage(t, time=which, **kw)
                ref = repr(m)
                b1 = m.bytes()
                want = list(b1)
                a = MetaMessage.from_bytes(list(want))
                ok, detail = a == m.copy(time=0), 'first decode %r' % (a,)
                if ok:
                    b1.append(7)
                    b1[0] = 0
                    a.time = 99
                    for (nm, kind, lo, hi, dflt) in M.META[t][1]:
                        setattr(a, nm, value(kind, lo, hi, (which + 1) % 3) if not (t == 'smpte_offset' and nm == 'hours') else 1)
                    again = MetaMessage.from_bytes(list(want))
                    if again != m.copy(time=0) or again is a or m.bytes() != want or repr(m) != ref or MetaMessage(t, time=which, **kw).bytes() != want:
                        ok, detail = False, 'after the first results were edited: decode %r, bytes %r, message %r; expected %r / %r' % (again, m.bytes(), m, m.copy(time=0), want)
            except Exception as ex:      # noqa
                ok, detail = False, repr(ex)
            if not ok:
                fails.append(dict(clause='a meta message decoded / encoded again does not depend on what callers did with earlier results', inputs=dict(type=t, value_set=which), detail=detail[:300]))
    for trial in range(40 if tier == 'quick' else 400):
        n += 1
        seen.add(('file', trial))
        try:
            tracks = []
            for _ in range(rng.randrange(1, 4)):
                tr = mido.MidiTrack()
                for _ in range(rng.randrange(0, 6)):
                    r = rng.random()
                    if r < 0.4:
                        tr.append(mido.Message('note_on', note=rng.randrange(128), velocity=rng.randrange(128), time=rng.randrange(0, 500)))
                    elif r < 0.55:
                        tr.append(mido.Message('sysex', data=[rng.randrange(128) for _ in range(rng.randrange(0, 4))], time=rng.randrange(0, 50)))
                    elif r < 0.7:
                        tr.append(MetaMessage('track_name', name=rng.choice(['', 'x', 'Piano']), time=rng.randrange(0, 50)))
                    elif r < 0.85:
                        tr.append(MetaMessage('set_tempo', tempo=rng.randrange(1, 16777216), time=rng.randrange(0, 50)))
                    else:
                        tr.append(mido.UnknownMetaMessage(0x60, data=[rng.randrange(256)], time=rng.randrange(0, 50)))
                tracks.append(tr)
            mf = mido.MidiFile(type=1, ticks_per_beat=rng.choice([96, 480]), tracks=tracks)
            snapshot = repr(mf)
            buf = io.BytesIO()
            mf.save(file=buf)
            raw = buf.getvalue()
            one = mido.MidiFile(file=io.BytesIO(raw))
            first = repr(one)
            for tr in one.tracks:
                for msg in tr:
                    msg.time = msg.time + 17
                    if msg.type == 'note_on':
                        msg.note = (msg.note + 1) % 128
                    elif msg.type == 'track_name':
                        msg.name = msg.name + '!'
                tr.append(mido.Message('clock'))
            two = mido.MidiFile(file=io.BytesIO(raw))
            buf2 = io.BytesIO()
            mf.save(file=buf2)
            ok = repr(two) == first and buf2.getvalue() == raw and repr(mf) == snapshot
            detail = 'second load %r, first load had %r; second save equal: %r; original unchanged: %r' % (repr(two)[:120], first[:120], buf2.getvalue() == raw, repr(mf) == snapshot)
        except Exception as ex:      # noqa
            ok, detail = False, repr(ex)
        if not ok:
            fails.append(dict(clause='loading / saving again does not depend on what callers did with an earlier loaded file', inputs=dict(seed=seed, trial=trial), detail=detail[:400]))
    return dict(evaluations=n, distinct_nontrivial=len(seen), failures=fails[:20])
