"""C20 — backend selection and port-opening arguments (mido/backends/backend.py).

The real Backend methods are executed symbolically on the full configuration grid; port names, api strings and the values
of the MIDO_DEFAULT_* variables are SYMBOLIC strings (any non-empty string), the backend module is an abstract object that
records how it is used, importlib.import_module and os.environ.get are models (ASSUMED: they behave as documented).
"""
import collections.abc
import importlib
import itertools
import os

from pyvc.contract import Contract, contract, V, attrs_of, cls_of, Harness, raw_function
from pyvc.dsl import And, Or, Not, eq

try:
    import z3
    from pyvc.values import SStr, SInt, Obj, PyRaise, Opaque, Unsupported
except ImportError:
    z3 = None

B = 'mido.backends.backend:'


class PortToken:
    _pyvc_model = True


class FakeModule:
    _pyvc_model = True


def _grid():
    out = []
    for bname, envb, apikw, use_env, native, devs in itertools.product(
            (None, 'fakeb', 'fakeb/NAMEAPI'), (None, 'envb', 'envb/ENVAPI'), (False, True), (True, False), (True, False), (True, False)):
        for op, nvars in (('open_input', 1), ('open_output', 1), ('open_ioport', 3), ('names', 0)):
            for envset in itertools.product((False, True), repeat=nvars):
                for pname, callapi, load in itertools.product((False, True), (False, True), (False, True)):
                    if op == 'names' and pname:
                        continue
                    if load and op not in ('open_input', 'names'):
                        continue
                    for virt in ((False, True) if (op != 'names' and not load and not callapi) else (False,)):
                        out.append(dict(bname=bname, envb=envb, apikw=apikw, use_env=use_env, native=native, devs=devs, op=op,
                                        pname=pname, callapi=callapi, load=load, virt=virt, envset=''.join('01'[x] for x in envset)))
    # the port constructor itself fails (device problem, bad argument): the error reaches the caller, nothing else is opened
    for bname in (None, 'fakeb/NAMEAPI'):
        for op in ('open_input', 'open_output', 'open_ioport'):
            for native in (True, False):
                for exc in ('AttributeError', 'OSError'):
                    out.append(dict(bname=bname, envb=None, apikw=False, use_env=True, native=native, devs=False, op=op, pname=True, callapi=False,
                                    load=False, virt=False, envset='0' * len(_ENVVARS_N[op]), fails=exc))
    return tuple(out)


_ENVVARS_N = {'open_input': '0', 'open_output': '0', 'open_ioport': '000', 'names': ''}
_ENVVARS = {'open_input': ('MIDO_DEFAULT_INPUT',), 'open_output': ('MIDO_DEFAULT_OUTPUT',),
            'open_ioport': ('MIDO_DEFAULT_INPUT', 'MIDO_DEFAULT_OUTPUT', 'MIDO_DEFAULT_IOPORT'), 'names': ()}

_OP = Harness('''
    def do(Backend, bname, apikw, use_env, load, op, pname, kw):
        b = Backend(bname, api=apikw, load=load, use_environ=use_env)
        loaded_before = b.loaded
        if op == 'names':
            r = (b.get_input_names(**kw), b.get_output_names(**kw), b.get_ioport_names(**kw))
        else:
            r = getattr(b, op)(pname, **kw)
        return (b, loaded_before, r)
''')


@contract
class BackendGrid(Contract):
    key = 'C20.backend'
    target = B + 'Backend.__init__'
    properties = ('C20',)
    configs = _grid()
    raises = {AttributeError: 'constructor_failed', OSError: 'constructor_failed'}
    symbolic_only = True

    def callee(self, h, cfg):
        return _OP.get(h)

    def constructor_failed(self, h, cfg, a, pr):
        # only the first constructor call was made, and it is the one that failed
        return cfg.get('fails') == pr.cls.__name__ and len(h.log) == 1

    def setup(self, h, cfg, ip):
        h.imports, h.log = [], []
        env = {}
        if cfg['envb']:
            env['MIDO_BACKEND'] = cfg['envb']
        for var, on in zip(_ENVVARS[cfg['op']], cfg['envset']):
            if on == '1':
                s = h.str('env_' + var)
                h.assume(z3.Length(V(s)) > 0)
                env[var] = s
        h.env = env

        def env_get(ipx, slf, key, default=None):
            if slf is os.environ:
                return env.get(key, default)
            return ipx.native(collections.abc.Mapping.get, [slf, key, default], {})
        ip.models.table[collections.abc.Mapping.get] = env_get

        def rec(kind):
            def f(ipx, *args, **kwargs):
                h.log.append((kind, args, dict(kwargs)))
                if cfg.get('fails') and kind in ('Input', 'Output', 'IOPort'):
                    raise PyRaise({'AttributeError': AttributeError, 'OSError': OSError}[cfg['fails']], ('constructor of the backend port failed',))
                if kind == 'get_devices':
                    return [dict(name='Late', is_input=False, is_output=True),      # the output side of a port whose input side comes last
                            dict(name='in1', is_input=True, is_output=False), dict(name='io1', is_input=True, is_output=True),
                            dict(name='out1', is_input=False, is_output=True), dict(name='io2', is_input=True, is_output=True),
                            # one entry per direction, the outputs listed in another order than the inputs
                            dict(name='Synth', is_input=True, is_output=False), dict(name='Keys', is_input=True, is_output=False),
                            dict(name='Keys', is_input=False, is_output=True), dict(name='Synth', is_input=False, is_output=True),
                            dict(name='Late', is_input=True, is_output=False)]
                return Obj(PortToken, {'name': args[0] if args else None, '_messages': collections.deque(), 'kind': kind})
            f._pyvc_native = True
            return f

        def import_module(ipx, name, package=None):
            h.imports.append(name)
            attrs = {'Input': rec('Input'), 'Output': rec('Output')}
            if cfg['native']:
                attrs['IOPort'] = rec('IOPort')
            if cfg['devs']:
                attrs['get_devices'] = rec('get_devices')
            return Obj(FakeModule, attrs)
        ip.models.table[importlib.import_module] = import_module

    def inputs(self, h, cfg):
        import mido.backends.backend as MB
        h.apikw = h.str('api_kw') if cfg['apikw'] else None
        h.pname = h.str('port_name') if cfg['pname'] else None
        h.callapi = h.str('call_api') if cfg['callapi'] else None
        for s in (h.apikw, h.callapi, h.pname):   # ASSUMED: explicit names/apis are non-empty strings ('' is falsy and is treated as absent by the code)
            if s is not None and h.sym:
                h.assume(z3.Length(V(s)) > 0)
        kw = {'api': h.callapi} if cfg['callapi'] else {}
        if cfg['virt']:
            # further explicit arguments: a virtual port with a device option of the backend
            kw.update(virtual=True, client_name='my client')
        return [MB.Backend, cfg['bname'], h.apikw, cfg['use_env'], cfg['load'], cfg['op'], h.pname, kw], {}

    def ensures(self, h, cfg, a, r):
        import mido.ports as MP
        if cfg.get('fails'):
            return {'a-failing-port-constructor-is-not-swallowed': False}
        b, loaded_before, res = r
        exp_name = cfg['bname'] or cfg['envb'] or 'mido.backends.rtmidi'
        exp_mod = exp_name.split('/', 1)[0]
        name_api = exp_name.split('/', 1)[1] if '/' in exp_name else None
        ba = attrs_of(b)
        out = {'module-name-without-suffix': ba['name'] == exp_mod,
               'imported-at-construction-only-when-load-is-set': loaded_before is cfg['load'],
               'imported-exactly-once-on-first-use': h.imports == [exp_mod]}
        want_api = h.callapi if cfg['callapi'] else (h.apikw if cfg['apikw'] else name_api)
        out['backend-api'] = _same(ba['api'], h.apikw if cfg['apikw'] else name_api)

        def env(var):
            return h.env.get(var) if cfg['use_env'] else None

        def api_ok(call):
            if want_api is None:
                return 'api' not in call[2]
            return 'api' in call[2] and _same(call[2]['api'], want_api)
        op = cfg['op']
        log = h.log
        if op != 'names':
            ports = [c for c in log if c[0] in ('Input', 'Output', 'IOPort')]
            out['virtual-and-device-options-reach-every-constructor-unchanged'] = bool(ports) and all(
                c[2].get('virtual') is cfg['virt'] and (c[2].get('client_name') == 'my client') == cfg['virt'] for c in ports)
        if op in ('open_input', 'open_output'):
            cls, var = ('Input', 'MIDO_DEFAULT_INPUT') if op == 'open_input' else ('Output', 'MIDO_DEFAULT_OUTPUT')
            want_name = h.pname if cfg['pname'] else env(var)
            out['one-constructor-call'] = len(log) == 1 and log[0][0] == cls
            if len(log) == 1:
                out['port-name-explicit-beats-environment'] = len(log[0][1]) == 1 and _same(log[0][1][0], want_name)
                out['api-reaches-the-constructor'] = api_ok(log[0])
        elif op == 'open_ioport':
            io_name = h.pname if cfg['pname'] else env('MIDO_DEFAULT_IOPORT')
            if cfg['native']:
                out['native-IOPort-used'] = len(log) == 1 and log[0][0] == 'IOPort'
                if len(log) == 1:
                    out['port-name'] = _same(log[0][1][0], io_name)
                    out['api-reaches-the-constructor'] = api_ok(log[0])
            else:
                ins = [c for c in log if c[0] == 'Input']
                outs = [c for c in log if c[0] == 'Output']
                out['wrapper-around-one-input-and-one-output'] = len(ins) == 1 and len(outs) == 1 and len(log) == 2 and cls_of(res) is MP.IOPort
                if len(ins) == 1 and len(outs) == 1:
                    out['input-name'] = _same(ins[0][1][0], io_name if io_name is not None else env('MIDO_DEFAULT_INPUT'))
                    out['output-name'] = _same(outs[0][1][0], io_name if io_name is not None else env('MIDO_DEFAULT_OUTPUT'))
                    out['api-reaches-both-constructors'] = And(api_ok(ins[0]), api_ok(outs[0]))
        else:
            if cfg['devs']:
                out['three-device-queries-with-the-api'] = len(log) == 3 and all(c[0] == 'get_devices' for c in log) and And(*[api_ok(c) for c in log])
                out['name-listings-derive-from-the-device-list'] = (list(res[0]), list(res[1]), list(res[2])) == (['in1', 'io1', 'io2', 'Synth', 'Keys', 'Late'], ['Late', 'io1', 'out1', 'io2', 'Keys', 'Synth'], ['io1', 'io2', 'Synth', 'Keys', 'Late'])
            else:
                out['no-devices-without-get_devices'] = [list(x) for x in res] == [[], [], []] and not log
        return out


def _same(a, b):
    if a is None or b is None:
        return a is None and b is None
    if isinstance(a, str) and isinstance(b, str):
        return a == b
    return eq(V(a), V(b))
