"""Bounded stand-ins for C13/C16 on the real code (IEEE rounding and whole-file behaviour are outside the proofs)."""
import io
import random
from pyvc.contract import bounded


@bounded('tick-second-inverse-ieee', ('C13',), 'ticks 0..10^6 (dense near 0 and at powers of two, sampled otherwise) x tempos {1, 250000, 500000, 16777215} x ticks_per_beat {1, 96, 480, 32767}')
def tick_second_inverse(tier, seed, only=None):
    import mido
    rng = random.Random(seed)
    ticks = list(range(0, 2000)) + [2 ** k + d for k in range(11, 21) for d in (-1, 0, 1)] + [rng.randrange(10 ** 6) for _ in range(3000 if tier == 'quick' else 100000)]
    fails, n = [], 0
    for tempo in (1, 250000, 500000, 16777215):
        for tpb in (1, 96, 480, 32767):
            for t in ticks:
                n += 1
                s = mido.tick2second(t, tpb, tempo)
                if mido.second2tick(s, tpb, tempo) != t:
                    fails.append(dict(clause='second2tick(tick2second(t)) == t', inputs=dict(tick=t, ticks_per_beat=tpb, tempo=tempo), detail=repr(s)))
    return dict(evaluations=n, distinct_nontrivial=n, failures=fails[:20])


@bounded('file-reflects-edits', ('C16', 'C13'), '300 (3000 thorough) random edit/observe histories of length <= 12 over small files: append/insert/remove messages, add/remove tracks, change times/tempo/type/ticks_per_beat, interleaved with list(), length, merged_track, play(now=fake clock), save; each observation compared with a freshly built file of the same contents')
def file_reflects_edits(tier, seed, only=None):
    import mido
    rng = random.Random(seed)
    fails, n, seen = [], 0, set()

    def fresh_copy(mf):
        return mido.MidiFile(type=mf.type, ticks_per_beat=mf.ticks_per_beat, tracks=[mido.MidiTrack(m.copy() for m in tr) for tr in mf.tracks])

    def observe(mf, what):
        if what == 'list':
            return [(str(m) if not m.is_meta else repr(m)) for m in mf]
        if what == 'length':
            return mf.length
        if what == 'merged':
            return [repr(m) for m in mf.merged_track]
        if what == 'save':
            b = io.BytesIO()
            mf.save(file=b)
            return b.getvalue()
        if what == 'play':
            clock = [0.0]
            import time as _t
            real_sleep = _t.sleep
            slept = []
            _t.sleep = lambda d: (slept.append(round(d, 9)), clock.__setitem__(0, clock[0] + d))
            try:
                out = [str(m) for m in mf.play(now=lambda: clock[0])]
            finally:
                _t.sleep = real_sleep
            return (out, slept)
    for trial in range(300 if tier == 'quick' else 3000):
        mf = mido.MidiFile(type=1, ticks_per_beat=rng.choice([96, 480]))
        hist = []
        for step in range(rng.randrange(1, 13)):
            op = rng.choice(['add_track', 'append', 'insert', 'remove', 'retime', 'tempo', 'tpb', 'deltrack', 'observe', 'observe'])
            try:
                if op == 'add_track':
                    mf.add_track()
                elif op == 'append' and mf.tracks:
                    rng.choice(mf.tracks).append(mido.Message('note_on', note=rng.randrange(128), time=rng.randrange(0, 500)))
                elif op == 'insert' and mf.tracks:
                    tr = rng.choice(mf.tracks)
                    tr.insert(rng.randrange(len(tr) + 1), mido.Message('control_change', value=rng.randrange(128), time=rng.randrange(0, 300)))
                elif op == 'remove' and mf.tracks:
                    tr = rng.choice(mf.tracks)
                    if tr:
                        del tr[rng.randrange(len(tr))]
                elif op == 'retime' and mf.tracks:
                    tr = rng.choice(mf.tracks)
                    if tr:
                        tr[rng.randrange(len(tr))].time = rng.randrange(0, 1000)
                elif op == 'tempo' and mf.tracks:
                    mf.tracks[0].insert(0, mido.MetaMessage('set_tempo', tempo=rng.choice([250000, 500000, 1000000]), time=0))
                elif op == 'tpb':
                    mf.ticks_per_beat = rng.choice([48, 96, 480, 960])
                elif op == 'deltrack' and len(mf.tracks) > 1:
                    del mf.tracks[rng.randrange(len(mf.tracks))]
                elif op == 'observe':
                    what = rng.choice(['list', 'length', 'merged', 'save', 'play'])
                    n += 1
                    hist.append(what)
                    got = observe(mf, what)
                    want = observe(fresh_copy(mf), what)
                    seen.add((trial, step))
                    if got != want:
                        fails.append(dict(clause='observation equals that of a freshly built file with the same contents',
                                          inputs=dict(seed=seed, trial=trial, step=step, observation=what, history=hist), detail='%r != %r' % (got, want)))
                    continue
                hist.append(op)
            except Exception as ex:
                fails.append(dict(clause='edit/observe history raised', inputs=dict(seed=seed, trial=trial, step=step, history=hist + [op]), detail=repr(ex)))
                break
    return dict(evaluations=n, distinct_nontrivial=len(seen), failures=fails[:20])


@bounded('play-schedule-with-slow-consumers', ('C13',), '200 (2000 thorough) random files (tempo changes with zero / non-zero deltas, 1-3 tracks) x random consumer delay patterns (none, one long stall, stalls on every k-th message, delays larger than the gaps); fake clock, time.sleep replaced')
def play_schedule(tier, seed, only=None):
    import mido
    import time as _t
    rng = random.Random(seed)
    fails, n, seen = [], 0, set()
    for trial in range(200 if tier == 'quick' else 2000):
        tpb = rng.choice([96, 480])
        tracks = []
        for _ in range(rng.randrange(1, 4)):
            tr = mido.MidiTrack()
            for _ in range(rng.randrange(1, 8)):
                if rng.random() < 0.25:
                    tr.append(mido.MetaMessage('set_tempo', tempo=rng.choice([200000, 500000, 1000000]), time=rng.choice([0, 0, 240, 480])))
                else:
                    tr.append(mido.Message('note_on', note=rng.randrange(128), time=rng.choice([0, 1, 120, 480, 960])))
            tracks.append(tr)
        mf = mido.MidiFile(type=1, ticks_per_beat=tpb, tracks=tracks)
        want_meta = rng.random() < 0.5
        expected = list(mf)                               # seconds per message (proved under C13.__iter__)
        # independent reference: the tempo map applied to the merged track (500000 until a set_tempo, changing AFTER it)
        ref, cur = [], 500000
        for m in mf.merged_track:
            ref.append(m.time * cur * 1e-6 / tpb)
            if m.type == 'set_tempo':
                cur = m.tempo
        n += 1
        if len(ref) != len(expected) or any(abs(a - b.time) > 1e-9 for a, b in zip(ref, expected)) or abs(mf.length - sum(ref)) > 1e-6:
            fails.append(dict(clause='iteration times and length follow the tempo map', inputs=dict(seed=seed, trial=trial, ticks_per_beat=tpb, tracks=[[str(x) for x in tr] for tr in tracks]),
                              detail='iteration %r, length %r, tempo map %r' % ([round(x.time, 6) for x in expected], mf.length, [round(x, 6) for x in ref])))
            continue
        pattern = rng.choice(['none', 'one-stall', 'every-2nd', 'huge'])
        clock = [100.0]
        slept = []
        real_sleep = _t.sleep
        _t.sleep = lambda d: (slept.append(d), clock.__setitem__(0, clock[0] + d))
        got = []
        try:
            i = 0
            for m in mf.play(meta_messages=want_meta, now=lambda: clock[0]):
                got.append((m, clock[0]))
                i += 1
                if pattern == 'one-stall' and i == 1:
                    clock[0] += 0.8
                elif pattern == 'every-2nd' and i % 2 == 0:
                    clock[0] += 0.3
                elif pattern == 'huge':
                    clock[0] += 5.0
        except Exception as ex:
            fails.append(dict(clause='play raised', inputs=dict(seed=seed, trial=trial), detail=repr(ex)))
            continue
        finally:
            _t.sleep = real_sleep
        n += 1
        seen.add((trial, pattern))
        sched, t = [], 0.0
        for m in expected:
            t += m.time
            if want_meta or not m.is_meta:
                sched.append((m, 100.0 + t))
        ok = len(got) == len(sched)
        why = 'number of messages'
        if ok:
            for (gm, gt), (sm, stime) in zip(got, sched):
                if str(gm) != str(sm) and repr(gm) != repr(sm):
                    ok, why = False, 'message %r instead of %r' % (gm, sm)
                    break
                if gt < stime - 1e-9:
                    ok, why = False, 'yielded %r before its scheduled time %r' % (gt, stime)
                    break
            # no accumulated drift: when the consumer is idle again, messages are on schedule, i.e. never later than
            # max(scheduled, time the consumer asked for it)
        if ok:
            clock2 = [100.0]
            req = 100.0
            for k, ((gm, gt), (sm, stime)) in enumerate(zip(got, sched)):
                latest = max(stime, req)
                if gt > latest + 1e-6:
                    ok, why = False, 'message %d yielded at %r, later than max(scheduled %r, requested %r): drift' % (k, gt, stime, req)
                    break
                req = gt + (0.8 if (pattern == 'one-stall' and k == 0) else 0.3 if (pattern == 'every-2nd' and (k + 1) % 2 == 0) else 5.0 if pattern == 'huge' else 0.0)
        if not ok:
            fails.append(dict(clause='play follows the schedule without drift', inputs=dict(seed=seed, trial=trial, pattern=pattern, meta_messages=want_meta), detail=why))
    return dict(evaluations=n, distinct_nontrivial=len(seen), failures=fails[:20])


@bounded('iteration-is-reentrant', ('C13', 'C16'), '150 (1500 thorough) random files with tempo changes (1-3 tracks, <= 8 messages each): while one iteration or play() is suspended at '
         'EVERY position k, the file is measured (length), iterated completely, or a second iterator is advanced in lockstep; the outer times must still follow the tempo map')
def reentrant_iteration(tier, seed, only=None):
    import mido
    import time as _t
    rng = random.Random(seed)
    fails, n, seen = [], 0, set()
    for trial in range(150 if tier == 'quick' else 1500):
        tpb = rng.choice([96, 480])
        tracks = []
        for _ in range(rng.randrange(1, 4)):
            tr = mido.MidiTrack()
            for _ in range(rng.randrange(1, 9)):
                if rng.random() < 0.35:
                    tr.append(mido.MetaMessage('set_tempo', tempo=rng.choice([125000, 250000, 500000, 1000000]), time=rng.choice([0, 240, 480])))
                else:
                    tr.append(mido.Message('note_on', note=rng.randrange(128), time=rng.choice([0, 1, 120, 480, 960])))
            tracks.append(tr)
        mf = mido.MidiFile(type=rng.choice([0, 1]) if len(tracks) == 1 else 1, ticks_per_beat=tpb, tracks=tracks)
        ref, cur = [], 500000
        for m in mido.merge_tracks(tracks):
            ref.append(m.time * cur * 1e-6 / tpb)
            if m.type == 'set_tempo':
                cur = m.tempo
        for inner in ('length', 'full-iteration', 'lockstep', 'play+length'):
            for k in range(len(ref)):
                n += 1
                seen.add((trial, inner, k))
                real_sleep = _t.sleep
                try:
                    got = []
                    if inner == 'play+length':
                        clock = [0.0]
                        _t.sleep = lambda d: clock.__setitem__(0, clock[0] + d)
                        prev = 0.0
                        for i, m in enumerate(mf.play(meta_messages=True, now=lambda: clock[0])):
                            got.append(clock[0] - prev)
                            prev = clock[0]
                            if i == k:
                                mf.length
                    else:
                        other = iter(mf) if inner == 'lockstep' else None
                        for i, m in enumerate(mf):
                            got.append(m.time)
                            if inner == 'lockstep':
                                if i >= k:
                                    next(other, None)
                            elif i == k:
                                if inner == 'length':
                                    mf.length
                                else:
                                    list(mf)
                    ok = len(got) == len(ref) and all(abs(a - b) <= 1e-9 for a, b in zip(got, ref))
                    detail = 'times %r, tempo map %r' % ([round(x, 6) for x in got], [round(x, 6) for x in ref])
                except Exception as ex:      # noqa
                    ok, detail = False, repr(ex)
                finally:
                    _t.sleep = real_sleep
                if not ok:
                    fails.append(dict(clause='times of a suspended iteration do not depend on other uses of the file in between',
                                      inputs=dict(seed=seed, trial=trial, in_between=inner, at_message=k, ticks_per_beat=tpb, tracks=[[str(x) for x in tr] for tr in tracks]),
                                      detail=detail[:400]))
                    break
    return dict(evaluations=n, distinct_nontrivial=len(seen), failures=fails[:20])
