"""Contracts for the Standard MIDI File reader/writer primitives in mido/midifiles/midifiles.py  (C07, C08).

File objects are modelled by their byte content and a position (ASSUMED to behave like io.BytesIO):
    read(n)  -> the next min(n, remaining) bytes, position advanced by that many
    tell()   -> position
    write(b) -> content extended by b
"""
import io
import struct

from pyvc.contract import Contract, contract, LoopSpec, V, attrs_of, cls_of, Harness, raw_function
from pyvc.dsl import And, Or, Not, Implies, Ite, All, Ex, AnyOf, eq, at, cat, seq, length, sub, is_z, pointwise_eq, concat_eq
from . import spec_smf as F
from . import spec_midi as S

try:
    import z3
    from pyvc.values import SInt, SBool, SSeq, Cell, Obj, PyRaise, Unsupported, IntSeq, zi, zseq
    from .spec_smf import HI, VV
except ImportError:
    z3 = None

MFM = 'mido.midifiles.midifiles:'
MAXLEN = 1000000


class FileModel:
    """ASSUMED contract of a binary file object (io.BytesIO)"""
    _pyvc_model = True

    def read(ip, self, n=-1):
        c, p = self.attrs['content'], self.attrs['pos']
        L = z3.Length(c)
        nn = zi(n)
        if not ip.ctx.branch(nn >= 0):
            tk = L - p
        else:
            tk = z3.If(p + nn <= L, nn, L - p)
        take = ip.ctx.fresh('taken')          # named, so that later terms stay small
        ip.ctx.assume([take == tk, take >= 0, p + take <= L])
        ip.ctx.event('file.read')
        r = SSeq(z3.Extract(c, p, take), bytes)
        ip.ctx.assume(All(0, take, lambda k: z3.And(r.e[k] >= 0, r.e[k] <= 255)))
        np_ = ip.ctx.fresh('pos')
        ip.ctx.assume(np_ == p + take)
        self.attrs['pos'] = np_
        from pyvc.models import mark_bytes
        mark_bytes(ip.ctx, r)
        return r
    read._pyvc_native = True

    def tell(ip, self):
        return SInt(self.attrs['pos'])
    tell._pyvc_native = True

    def write(ip, self, b):
        e = zseq(b)
        self.attrs['content'] = z3.Concat(self.attrs['content'], e)
        ip.ctx.event('file.write')
        return SInt(z3.Length(e))
    write._pyvc_native = True


def infile(h, name='file', pos=None):
    """a readable file: arbitrary byte content, arbitrary position inside it"""
    if h.sym:
        c = h.int_seq(name, bytes, lo=0, hi=255, mutable=False)
        p = h.int(name + '_pos', 0)
        cv, pv = V(c), V(p)
        h.assume(pv <= z3.Length(cv))
        h.content, h.pos0 = cv, pv
        h.f = Obj(FileModel, {'content': cv, 'pos': pv})
        return h.f
    vals = list(h.values[name])
    if any(not (0 <= b <= 255) for b in vals):
        from pyvc.contract import PreconditionFailed
        raise PreconditionFailed()
    data = bytes(vals)
    p = int(h.values[name + '_pos'])
    if not 0 <= p <= len(data):
        from pyvc.contract import PreconditionFailed
        raise PreconditionFailed()
    h.content, h.pos0 = tuple(data), p
    h.f = io.BytesIO(data)
    h.f.seek(p)
    return h.f


def pos_now(h):
    return h.f.attrs['pos'] if h.sym else h.f.tell()


def outfile(h):
    if h.sym:
        h.f = Obj(FileModel, {'content': z3.Empty(IntSeq), 'pos': z3.IntVal(0)})
    else:
        h.f = io.BytesIO()
    return h.f


def written(h):
    return h.f.attrs['content'] if h.sym else tuple(h.f.getvalue())


def at_pos(h, k):
    return at(h.content, h.pos0 + k)


def remaining(h):
    return length(h.content) - h.pos0


# ====================================================================== read_byte
@contract
class ReadByte(Contract):
    target = MFM + 'read_byte'
    properties = ('C07', 'C08')
    raises = {EOFError: 'at_end'}

    def inputs(self, h, cfg):
        return [infile(h)], {}

    def at_end(self, h, cfg, a, pr):
        return remaining(h) <= 0

    def ensures(self, h, cfg, a, r):
        return {'not-at-end': remaining(h) >= 1, 'the-next-byte': eq(V(r), at_pos(h, 0)), 'advances-by-one': eq(pos_now(h), h.pos0 + 1)}

    def samples(self, cfg):
        return [{'file': [1, 2, 3], 'file_pos': p} for p in (0, 2, 3)] + [{'file': [], 'file_pos': 0}]


# ====================================================================== read_bytes
class _ReadBytesComp(LoopSpec):
    def inv(self, ip, fr, st):
        h = ip.ctx.h
        f = h.f
        i = st.i
        out = st.out
        return [f.attrs['pos'] == h.pos0 + i, h.pos0 + i <= z3.Length(h.content), z3.Length(out) == i,
                All(0, i, lambda k: out[k] == h.content[h.pos0 + k])]

    def havoc(self, ip, fr, st):
        ip.ctx.h.f.attrs['pos'] = ip.ctx.fresh('pos')


@contract
class ReadBytes(Contract):
    target = MFM + 'read_bytes'
    properties = ('C07', 'C08', 'C09')
    loops = {(MFM + 'read_bytes', 'comp0'): _ReadBytesComp()}
    raises = {EOFError: 'too_short', OSError: 'too_long'}

    def inputs(self, h, cfg):
        f = infile(h)
        h.size = h.int('size', 0)
        return [f, h.size], {}

    def too_short(self, h, cfg, a, pr):
        return remaining(h) < V(h.size)

    def too_long(self, h, cfg, a, pr):
        return V(h.size) > MAXLEN

    def ensures(self, h, cfg, a, r):
        n = V(h.size)
        out = {'within-limit': n <= MAXLEN, 'enough-bytes': remaining(h) >= n, 'is-list': cls_of(r) is list,
               'advances-by-size': eq(pos_now(h), h.pos0 + n)}
        if h.sym:
            rv = V(r)
            out['the-next-size-bytes.length'] = z3.Length(rv) == n
            out['the-next-size-bytes.items'] = All(0, n, lambda k: rv[k] == h.content[h.pos0 + k])
        else:
            out['the-next-size-bytes'] = list(r) == list(h.content[h.pos0:h.pos0 + n])
        return out

    def samples(self, cfg):
        return [{'file': list(range(10)), 'file_pos': p, 'size': s} for p in (0, 5, 10) for s in (0, 1, 5, 6, 11)] + \
               [{'file': [1], 'file_pos': 0, 'size': MAXLEN + 1}]

    def call_site(self, ip, fn, args, kwargs):
        f, size = args
        ctx = ip.ctx
        if not (isinstance(f, Obj) and f.cls is FileModel):
            return ip.call_repo(fn, args, kwargs)
        if isinstance(size, float):
            if size > MAXLEN:
                raise PyRaise(OSError, ('Message length exceeds maximum length',))
            raise Unsupported('non-integer size')
        n = zi(size)
        if not ctx.branch(n <= MAXLEN):
            raise PyRaise(OSError, ('Message length exceeds maximum length',))
        c, p = f.attrs['content'], f.attrs['pos']
        if not ctx.branch(z3.Length(c) - p >= n):
            f.attrs['pos'] = ctx.fresh('pos_after_eof')
            raise PyRaise(EOFError, ())
        nn = z3.If(n >= 0, n, z3.IntVal(0))
        r = z3.Extract(c, p, nn)
        ctx.assume(All(0, nn, lambda k: z3.And(r[k] >= 0, r[k] <= 255, r[k] == c[p + k])))      # bytes of the file
        f.attrs['pos'] = z3.simplify(p + nn)
        out = Cell(SSeq(r, list), list)
        from pyvc.models import mark_bytes
        mark_bytes(ctx, out.v)
        return out


# ====================================================================== read_variable_int
class _VlqReadLoop(LoopSpec):
    """while True: byte = read_byte(infile); delta = (delta << 7) | (byte & 0x7f); if byte < 0x80: return delta
    ghost j = number of bytes consumed; s = content from the start position"""
    header = 'True'

    def enter(self, ip, fr, seqv):
        st = LoopSpec.enter(self, ip, fr, None)
        h = ip.ctx.h
        st.s = z3.Extract(h.content, h.pos0, z3.Length(h.content) - h.pos0)
        st.j = z3.IntVal(0)
        ip.ctx.__dict__['vlq_loop'] = st
        return st

    def havoc(self, ip, fr, st):
        ctx = ip.ctx
        st.j = ctx.fresh_index('consumed')
        fr.env['delta'] = SInt(ctx.fresh('delta'))
        ctx.h.f.attrs['pos'] = ctx.fresh('pos')

    def step(self, ip, fr, st):
        st.j = st.j + 1

    def hints(self, ip, fr, st, phase):
        return F.unfold_vv(st.s, st.j - 1) + F.unfold_vv(st.s, st.j)

    def inv(self, ip, fr, st):
        h = ip.ctx.h
        j, s = st.j, st.s
        return [j >= 0, h.f.attrs['pos'] == h.pos0 + j, h.pos0 + j <= z3.Length(h.content),
                V(fr.env['delta']) == VV(s, j), V(fr.env['delta']) >= 0,
                All(0, j, lambda k: s[k] >= 128)]


@contract
class ReadVariableInt(Contract):
    """returns the value of the variable-length quantity that starts at the current position - all bytes with bit 7 set
    followed by one without (leading 0x80 padding included) - and leaves the position just behind it"""
    target = MFM + 'read_variable_int'
    properties = ('C07', 'C08', 'C09')
    use = (MFM + 'read_byte',) if False else ()
    loops = {(MFM + 'read_variable_int', 0): _VlqReadLoop()}
    raises = {EOFError: 'unterminated'}

    def inputs(self, h, cfg):
        return [infile(h)], {}

    def unterminated(self, h, cfg, a, pr):
        # every remaining byte has the continuation bit set
        return All(0, remaining(h), lambda k: at_pos(h, k) >= 128)

    def ensures(self, h, cfg, a, r):
        if not h.sym:
            rest = h.content[h.pos0:]
            L = next(i for i, b in enumerate(rest) if b < 128) + 1
            return {'value-of-the-vlq-at-the-position': r == F.vlq_value_py(rest[:L]), 'advances-behind-it': h.f.tell() == h.pos0 + L}
        st = h.ctx.__dict__['vlq_loop']
        L = st.j + 1        # the returning iteration consumed one more byte
        s = st.s
        return {'value-of-the-vlq-at-the-position': V(r) == VV(s, L),
                'terminated-by-a-byte-below-0x80': And(s[L - 1] < 128, s[L - 1] >= 0),
                'all-earlier-bytes-are-continuation-bytes': All(0, L - 1, lambda k: s[k] >= 128),
                'advances-behind-it': pos_now(h) == h.pos0 + L}

    def ensure_hints(self, h, cfg, a, r):
        if not h.sym:
            return []
        st = h.ctx.__dict__['vlq_loop']
        return F.unfold_vv(st.s, st.j)

    def samples(self, cfg):
        out = []
        for v in (0, 1, 127, 128, 16383, 16384, 2 ** 28 - 1):
            out.append({'file': [9] + F.vlq_py(v) + [7], 'file_pos': 1})
            out.append({'file': [0x80, 0x80] + F.vlq_py(v), 'file_pos': 0})
        out.append({'file': [0x81, 0x80], 'file_pos': 0})
        return out

    def call_site(self, ip, fn, args, kwargs):
        (f,) = args
        ctx = ip.ctx
        if not (isinstance(f, Obj) and f.cls is FileModel):
            return ip.call_repo(fn, args, kwargs)
        c, p = f.attrs['content'], f.attrs['pos']
        s = z3.Extract(c, p, z3.Length(c) - p)
        if ctx.fork(2) == 1:
            ctx.assume(All(0, z3.Length(s), lambda k: s[k] >= 128))
            f.attrs['pos'] = ctx.fresh('pos_after_eof')
            raise PyRaise(EOFError, ())
        L = ctx.fresh_index('vlq_len')
        ctx.assume([L >= 1, p + L <= z3.Length(c), s[L - 1] < 128, s[L - 1] >= 0, All(0, L - 1, lambda k: s[k] >= 128)])
        v = VV(s, L)
        ctx.assume(v >= 0)
        f.attrs['pos'] = p + L
        ctx.__dict__.setdefault('vlq_reads', []).append((p, L, v))
        return SInt(v)


# ====================================================================== chunk headers
@contract
class ReadChunkHeader(Contract):
    target = MFM + 'read_chunk_header'
    properties = ('C07', 'C08')
    raises = {EOFError: 'too_short'}

    def inputs(self, h, cfg):
        return [infile(h)], {}

    def too_short(self, h, cfg, a, pr):
        return remaining(h) < 8

    def ensures(self, h, cfg, a, r):
        name, size = r
        b = lambda k: at_pos(h, k)
        return {'name-is-the-next-4-bytes': eq(V(name), sub(h.content, h.pos0, h.pos0 + 4)), 'name-is-bytes': cls_of(name) is bytes,
                'size-is-big-endian-32-bit': eq(V(size), ((b(4) * 256 + b(5)) * 256 + b(6)) * 256 + b(7)),
                'advances-by-8': eq(pos_now(h), h.pos0 + 8)}

    def samples(self, cfg):
        return [{'file': list(b'MTrk') + [0, 0, 1, 2] + [5], 'file_pos': 0}, {'file': list(b'MThd') + [255, 255, 255, 255], 'file_pos': 0},
                {'file': [1, 2, 3], 'file_pos': 0}]


@contract
class ReadFileHeader(Contract):
    """any header chunk of length >= 6 is accepted; the first 6 bytes are format, track count, division (signed 16-bit
    big-endian, as the code reads them); the position ends behind the whole chunk"""
    target = MFM + 'read_file_header'
    properties = ('C07', 'C08')
    raises = {EOFError: 'too_short', OSError: 'not_a_midi_file'}

    def inputs(self, h, cfg):
        return [infile(h)], {}

    def _size(self, h):
        b = lambda k: at_pos(h, k)
        return ((b(4) * 256 + b(5)) * 256 + b(6)) * 256 + b(7)

    def too_short(self, h, cfg, a, pr):
        return Or(remaining(h) < 8, remaining(h) - 8 < 6, self._size(h) < 6)

    def not_a_midi_file(self, h, cfg, a, pr):
        return Not(eq(sub(h.content, h.pos0, h.pos0 + 4), seq(list(b'MThd'))))

    def ensures(self, h, cfg, a, r):
        size = self._size(h)
        b = lambda k: at_pos(h, 8 + k)

        def s16(hi, lo):
            u = hi * 256 + lo
            return Ite(u >= 32768, u - 65536, u)
        t, n, d = r
        avail = remaining(h) - 8
        return {'is-MThd': eq(sub(h.content, h.pos0, h.pos0 + 4), seq(list(b'MThd'))),
                'type': eq(V(t), s16(b(0), b(1))), 'number-of-tracks': eq(V(n), s16(b(2), b(3))), 'division': eq(V(d), s16(b(4), b(5))),
                'skips-the-whole-header-chunk': eq(pos_now(h), h.pos0 + 8 + Ite(size <= avail, size, avail))}

    def call_site(self, ip, fn, args, kwargs):
        (f,) = args
        ctx = ip.ctx
        if not (isinstance(f, Obj) and f.cls is FileModel):
            return ip.call_repo(fn, args, kwargs)
        which = ctx.fork(3)
        if which == 1:
            raise PyRaise(EOFError, ())
        if which == 2:
            raise PyRaise(OSError, ('MThd not found. Probably not a MIDI file',))
        c, p = f.attrs['content'], f.attrs['pos']

        def s16(hi, lo):
            u = hi * 256 + lo
            return z3.If(u >= 32768, u - 65536, u)
        t, n, d = ctx.fresh('hdr_type'), ctx.fresh('hdr_ntracks'), ctx.fresh('hdr_division')
        ctx.assume([p + 14 <= z3.Length(c), t == s16(c[p + 8], c[p + 9]), n == s16(c[p + 10], c[p + 11]), d == s16(c[p + 12], c[p + 13])])
        size = ((c[p + 4] * 256 + c[p + 5]) * 256 + c[p + 6]) * 256 + c[p + 7]
        np_ = ctx.fresh('pos_after_header')
        ctx.assume([size >= 6, np_ == p + 8 + z3.If(size <= z3.Length(c) - p - 8, size, z3.Length(c) - p - 8)])
        f.attrs['pos'] = np_
        ctx.__dict__.setdefault('header_reads', []).append((t, n, d))
        return (SInt(t), SInt(n), SInt(d))

    def samples(self, cfg):
        hd = lambda size, body: list(b'MThd') + [0, 0, 0, size] + body
        return [{'file': hd(6, [0, 1, 0, 2, 1, 224]) + [9], 'file_pos': 0}, {'file': hd(8, [0, 1, 0, 2, 1, 224, 7, 7]) + [9], 'file_pos': 0},
                {'file': hd(6, [0, 1, 0]), 'file_pos': 0}, {'file': list(b'RIFF') + [0] * 10, 'file_pos': 0},
                {'file': hd(5, [0, 1, 0, 2, 1]), 'file_pos': 0}, {'file': hd(6, [255, 255, 128, 0, 127, 255]), 'file_pos': 0}]


# ====================================================================== write_chunk
@contract
class WriteChunk(Contract):
    target = MFM + 'write_chunk'
    properties = ('C07', 'C08')
    raises = {}

    def inputs(self, h, cfg):
        h.data = h.int_seq('data', bytearray, lo=0, hi=255, mutable=True)
        if h.sym:
            h.assume(z3.Length(V(h.data)) < 2 ** 32)
        return [outfile(h), b'MTrk', h.data], {}

    def ensures(self, h, cfg, a, r):
        d = V(h.data)
        n = length(d)
        from pyvc.dsl import idiv, imod
        ln = seq([idiv(n, 16777216), imod(idiv(n, 65536), 256), imod(idiv(n, 256), 256), imod(n, 256)])
        return {'name-exact-length-data': eq(written(h), cat(seq(list(b'MTrk')), ln, d))}

    def samples(self, cfg):
        return [{'data': []}, {'data': [1, 2, 3]}, {'data': [0] * 300}]


# ====================================================================== DebugFileWrapper is transparent (C08: same result with debug on)
_DBG = Harness('''
    def through_wrapper(DebugFileWrapper, f, n1, n2):
        w = DebugFileWrapper(f)
        a = w.read(n1)
        t = w.tell()
        b = w.read(n2)
        return (a, t, b, w.tell())
''')


class _PrintLoop(LoopSpec):
    header = 'data'

    def inv(self, ip, fr, st):
        return []


@contract
class DebugWrapperTransparent(Contract):
    key = 'C08.DebugFileWrapper'
    target = MFM + 'DebugFileWrapper.read'
    properties = ('C08',)
    loops = {(MFM + 'DebugFileWrapper.read', 0): _PrintLoop()}
    raises = {}

    def callee(self, h, cfg):
        return _DBG.get(h)

    def setup(self, h, cfg, ip):
        # print_byte only prints (chr/isspace/print): replaced by a stub that records the call
        ip.hooks = dict(ip.hooks)
        ip.hooks[raw_function(MFM + 'print_byte')] = lambda ipx, args, kwargs: None

    def inputs(self, h, cfg):
        import mido.midifiles.midifiles as M
        f = infile(h)
        h.n1, h.n2 = h.int('n1', 0), h.int('n2', 0)
        return [M.DebugFileWrapper, f, h.n1, h.n2], {}

    def ensures(self, h, cfg, a, r):
        a1, t, b1, t2 = r
        n1, n2 = V(h.n1), V(h.n2)
        rem = remaining(h)
        k1 = Ite(n1 <= rem, n1, rem)
        k2 = Ite(n2 <= rem - k1, n2, rem - k1)
        return {'first-read-is-what-the-file-returns': eq(V(a1), sub(h.content, h.pos0, h.pos0 + k1)),
                'tell-is-the-file-position': eq(V(t), h.pos0 + k1),
                'second-read-continues': eq(V(b1), sub(h.content, h.pos0 + k1, h.pos0 + k1 + k2)),
                'final-position': eq(V(t2), h.pos0 + k1 + k2)}

    def samples(self, cfg):
        return [{'file': list(range(65, 75)), 'file_pos': p, 'n1': a, 'n2': b} for p in (0, 8) for a in (0, 1, 3) for b in (0, 2, 20)]


# ====================================================================== read_message
FAMILIES = ('note_off', 'note_on', 'polytouch', 'control_change', 'program_change', 'aftertouch', 'pitchwheel',
            'quarter_frame', 'songpos', 'song_select', 'tune_request', 'clock', 'reset', 'undefined-F4', 'undefined-F9', 'sysex-F0')


def _family_status(h, fam):
    """a symbolic status byte of the given family"""
    if fam.startswith('undefined') or fam == 'sysex-F0':
        return {'undefined-F4': 0xF4, 'undefined-F9': 0xF9, 'sysex-F0': 0xF0}[fam]
    info = S.TYPES[fam]
    if info['channel']:
        ch = h.int('channel', 0, 15)
        return SInt(info['status'] + V(ch)) if h.sym else info['status'] + ch
    return info['status']


@contract
class ReadMessage(Contract):
    target = MFM + 'read_message'
    properties = ('C07', 'C08')
    configs = tuple({'family': f, 'peek': p, 'clip': c} for f in FAMILIES for p in (0, 1) for c in (False, True))
    use = (MFM + 'read_bytes', 'mido.messages.checks:check_data')
    raises = {EOFError: 'too_short', OSError: 'bad_byte_or_status', ValueError: 'wrong_count'}

    def inputs(self, h, cfg):
        f = infile(h)
        h.status = _family_status(h, cfg['family'])
        h.peek = [h.int('peek0', 0, 127)] if cfg['peek'] else []
        h.delta = h.int('delta', 0)
        return [f, h.status, list(h.peek), h.delta], {'clip': cfg['clip']}

    def _need(self, cfg):
        fam = cfg['family']
        if fam.startswith('undefined') or fam == 'sysex-F0':
            return None
        return S.TYPES[fam]['length'] - 1 - cfg['peek']

    def too_short(self, h, cfg, a, pr):
        need = self._need(cfg)
        return need is not None and need > 0 and remaining(h) < need

    def bad_byte_or_status(self, h, cfg, a, pr):
        need = self._need(cfg)
        if need is None:
            return True                          # undefined status (or 0xF0 routed here): refused
        if cfg['clip']:
            return False
        return Or(*[at_pos(h, k) > 127 for k in range(max(need, 0))]) if need > 0 else False

    def wrong_count(self, h, cfg, a, pr):
        need = self._need(cfg)
        return need is not None and need < 0      # running-status data byte after a one-byte message: not a legal file

    def ensures(self, h, cfg, a, r):
        import mido.messages.messages as MS
        fam = cfg['family']
        need = self._need(cfg)
        out = {'defined-status': need is not None and need >= 0}
        if need is None or need < 0:
            return out
        data = [V(x) for x in h.peek] + [at_pos(h, k) for k in range(need)]
        out['enough-bytes'] = remaining(h) >= need
        if not cfg['clip']:
            out['data-bytes-in-range'] = And(*[d <= 127 for d in data]) if data else True
        clipped = [Ite(d < 127, d, 127) for d in data] if cfg['clip'] else data
        m = attrs_of(r)
        out['is-Message'] = cls_of(r) is MS.Message
        out['type'] = m.get('type') == fam
        if m.get('type') == fam:
            enc = S.spec_encode(fam, {k: V(m[k]) for k in S.TYPES[fam]['names']})
            out['encodes-status-and-data'] = eq(enc, seq([V(h.status)] + clipped))
            out['delta-time'] = eq(V(m['time']), V(h.delta))
        out['advances'] = eq(pos_now(h), h.pos0 + need)
        return out

    def samples(self, cfg):
        out = []
        for body in ([1, 2, 3], [200, 5, 6], [127, 128, 255], []):
            out.append({'file': body, 'file_pos': 0, 'channel': 3, 'peek0': 9, 'delta': 4})
        return out


# ====================================================================== read_sysex
@contract
class ReadSysex(Contract):
    target = MFM + 'read_sysex'
    properties = ('C07', 'C08')
    configs = ({'clip': False}, {'clip': True})
    use = (MFM + 'read_bytes', MFM + 'read_variable_int', 'mido.messages.checks:check_data')
    raises = {EOFError: 'too_short', OSError: 'too_long', ValueError: 'bad_byte'}

    def inputs(self, h, cfg):
        f = infile(h)
        h.delta = h.int('delta', 0)
        return [f, h.delta], {'clip': cfg['clip']}

    def _parts(self, h):
        reads = h.ctx.__dict__.get('vlq_reads', [])
        return reads[0] if reads else None

    def too_short(self, h, cfg, a, pr):
        return True if not h.sym else z3.BoolVal(True)      # (conditions are those of the callee contracts)

    def too_long(self, h, cfg, a, pr):
        return True

    def bad_byte(self, h, cfg, a, pr):
        return not cfg['clip']

    def ensures(self, h, cfg, a, r):
        import mido.messages.messages as MS
        m = attrs_of(r)
        out = {'is-sysex': cls_of(r) is MS.Message and m.get('type') == 'sysex', 'delta-time': eq(V(m['time']), V(h.delta))}
        if not h.sym:
            rest = list(h.content[h.pos0:])
            L = next(i for i, b in enumerate(rest) if b < 128) + 1
            n = F.vlq_value_py(rest[:L])
            body = rest[L:L + n]
            if body and body[0] == 0xF0:
                body = body[1:]
            if body and body[-1] == 0xF7:
                body = body[:-1]
            if cfg['clip']:
                body = [b if b < 127 else 127 for b in body]
            out['payload-without-framing-bytes'] = list(m['data']) == body
            out['advances-behind-the-event'] = h.f.tell() == h.pos0 + L + n
            return out
        p, L, n = self._parts(h)
        c = h.content
        start = p + L
        d = V(m['data'])
        first = z3.And(n > 0, c[start] == 0xF0)
        lo = z3.If(first, start + 1, start)
        last = z3.And(start + n - lo > 0, c[start + n - 1] == 0xF7)
        hi = z3.If(last, start + n - 1, start + n)
        out['payload-length'] = z3.Length(d) == hi - lo
        out['payload-without-framing-bytes'] = All(0, hi - lo, lambda k: d[k] == (z3.If(c[lo + k] < 127, c[lo + k], 127) if cfg['clip'] else c[lo + k]))
        out['payload-data-bytes'] = All(0, hi - lo, lambda k: z3.And(d[k] >= 0, d[k] <= 127))
        out['advances-behind-the-event'] = pos_now(h) == start + n
        out['is-SysexData'] = cls_of(m['data']) is MS.SysexData
        return out

    def samples(self, cfg):
        out = []
        for body in ([], [1, 2, 3], [0xF0, 1, 2, 0xF7], [1, 2, 0xF7], [0xF7], [0xF0], [0xF0, 0xF7], [1, 200, 3, 0xF7], [5] * 200 + [0xF7]):
            out.append({'file': F.vlq_py(len(body)) + body + [9], 'file_pos': 0, 'delta': 3})
        out.append({'file': [5, 1, 2], 'file_pos': 0, 'delta': 0})
        return out


# ====================================================================== build_meta_message / read_meta_message
class _BuildToken:
    def __call__(self, ip, args, kwargs):
        ip.ctx.__dict__.setdefault('build_calls', []).append((list(args), dict(kwargs)))
        from pyvc.values import Opaque
        return Opaque('meta message')


@contract
class ReadMetaMessage(Contract):
    target = MFM + 'read_meta_message'
    properties = ('C07', 'C08', 'C09')
    use = (MFM + 'read_bytes', MFM + 'read_variable_int')
    raises = {EOFError: 'eof', OSError: 'eof'}
    symbolic_only = True

    def hooks(self, cfg):
        return {raw_function('mido.midifiles.meta:build_meta_message'): _BuildToken()}

    def inputs(self, h, cfg):
        f = infile(h)
        h.delta = h.int('delta', 0)
        return [f, h.delta], {}

    def eof(self, h, cfg, a, pr):
        return True

    def ensures(self, h, cfg, a, r):
        calls = h.ctx.__dict__.get('build_calls', [])
        out = {'builds-one-message': len(calls) == 1}
        if len(calls) != 1:
            return out
        args, kw = calls[0]
        meta_type, data = args[0], args[1]
        delta = args[2] if len(args) > 2 else kw.get('delta')
        reads = h.ctx.__dict__.get('vlq_reads', [])
        out['one-length-prefix'] = len(reads) == 1
        if len(reads) != 1:
            return out
        p, L, n = reads[0]
        c = h.content
        d = V(data)
        out['type-byte-is-the-first-byte'] = And(remaining(h) >= 1, V(meta_type) == c[h.pos0], p == h.pos0 + 1)
        out['payload-length'] = z3.Length(d) == n
        out['payload-is-the-next-length-bytes'] = All(0, n, lambda k: d[k] == c[p + L + k])
        out['delta-passed-on'] = delta is not None and eq(V(delta), V(h.delta))
        out['advances-behind-the-event'] = pos_now(h) == p + L + n
        return out


def _build_cfgs():
    from .c_meta import _valid_cfgs
    return tuple(c for c in _valid_cfgs() if c.get('exp', 3) in (0, 3, 255)) + ({'type': 'unknown'},)


@contract
class BuildMetaMessage(Contract):
    """decoding a meta event read from a track: build_meta_message(type byte, payload, delta), applied to the SMF payload of a
    valid meta message m (the payload that MetaMessage.bytes() is proved to produce, C09), gives m with time delta.
    Unknown type bytes give an UnknownMetaMessage holding the bytes, with time delta."""
    key = 'C07.build_meta_message'
    target = 'mido.midifiles.meta:build_meta_message'
    properties = ('C07', 'C08', 'C09')
    configs = _build_cfgs()
    raises = {}

    def inputs(self, h, cfg):
        import mido.midifiles.meta as MM
        from .c_meta import valid_meta, meta_payload
        from . import spec_meta as M
        h.cfg = dict(cfg)
        h.delta = h.int('delta', 0)
        if cfg['type'] == 'unknown':
            tb = h.int('type_byte', 0x0A, 0x1F)
            data = h.int_seq('data', list, lo=0, hi=255, mutable=True)
            h.want_cls = MM.UnknownMetaMessage
            h.want = {'type': 'unknown_meta', 'type_byte': tb, 'data': data, 'time': h.delta}
            return [tb, data, h.delta], {}
        m = valid_meta(h, cfg['type'])
        h.want_cls = MM.MetaMessage
        h.want = dict(h.attrs0)
        h.want['time'] = h.delta
        pl = meta_payload(cfg['type'], h.attrs0)
        if h.sym:
            n = z3.simplify(z3.Length(pl))
            if z3.is_int_value(n):
                payload = [SInt(z3.simplify(pl[i])) for i in range(n.as_long())]
            else:
                payload = Cell(SSeq(pl, list), list)
        else:
            payload = list(pl)
        return [M.META[cfg['type']][0], payload, h.delta], {}

    def ensures(self, h, cfg, a, r):
        out = {'class': cls_of(r) is h.want_cls}
        ra = attrs_of(r)
        out['attribute-set'] = set(ra.keys()) == set(h.want.keys())
        if out['attribute-set']:
            for k in ra:
                if k == 'data':
                    out['data'] = And(*pointwise_eq(V(ra[k]), V(h.want[k]))) if not h.sym else pointwise_eq(V(ra[k]), V(h.want[k]))
                    out['data-is-tuple'] = cls_of(ra[k]) is tuple
                else:
                    from .c_state import same_value
                    out[k] = same_value(ra[k], h.want[k])
        return out

    def samples(self, cfg):
        if cfg['type'] == 'unknown':
            return [{'type_byte': 0x10, 'data': list(range(n)), 'delta': 77} for n in (0, 3, 127, 128, 200)]
        return []


from .c_meta import SSC as _SSC, _SeqSpecCheckLoop as _SSCL, EVI as _EVI      # noqa: E402
BuildMetaMessage.loops = {_SSC: _SSCL()}
BuildMetaMessage.use = (_EVI,)




# ====================================================================== whole events: writer and reader on tracks of one or two events
# Running status and framing depend only on the previous event, so all transitions are covered by pairs of events.  The
# attribute values, delta times, sysex/text payloads (any length) are symbolic; the messages are REAL message objects, so
# bytes(), is_realtime, is_meta, fix_end_of_track, Message.from_bytes, build_meta_message ... are the real code.
# 'sysex2' / 'unknown_meta2': payload of two symbolic bytes (used in pairs); 'sysex' / 'unknown_meta' / 'meta:track_name':
# payload of ANY length (single-event tracks only: the sequence solver is slow on long symbolic concatenations)
EVENT_FAMILIES = ('note_on', 'note_off', 'control_change', 'program_change', 'pitchwheel', 'songpos', 'song_select', 'quarter_frame',
                  'tune_request', 'polytouch', 'aftertouch', 'sysex2', 'meta:set_tempo', 'meta:key_signature', 'meta:end_of_track',
                  'unknown_meta2')
SINGLE_ONLY = ('sysex', 'unknown_meta', 'meta:track_name', 'meta:sequencer_specific')
FIRST_FAMILIES = ('note_on', 'note_off', 'program_change', 'tune_request', 'sysex2', 'meta:set_tempo', 'unknown_meta2')
REALTIME_FAMILIES = S.REALTIME_TYPES


def event_obj(h, fam, idx):
    """a valid storable message of the family with symbolic attributes and a symbolic non-negative integer delta time;
    returns (object, spec) where spec = dict(full=MIDI bytes (spec), status, channel_msg, kind)"""
    import mido.messages.messages as MS
    import mido.midifiles.meta as MM
    from . import spec_meta as M
    p = 'e%d_' % idx
    t = h.int(p + 'time', 0, 2 ** 28 - 1)
    if fam in ('unknown_meta', 'unknown_meta2'):
        tb = h.int(p + 'type_byte', 0x0A, 0x1F)
        if fam == 'unknown_meta2':
            data = (h.int(p + 'd0', 0, 255), h.int(p + 'd1', 0, 255))
        else:
            data = h.int_seq(p + 'data', tuple, lo=0, hi=255, mutable=False)
            if h.sym:
                h.assume(z3.Length(V(data)) < 1000000)
        attrs = {'type': 'unknown_meta', 'type_byte': tb, 'data': data, 'time': t}
        o = h.obj(MM.UnknownMetaMessage, attrs)
        return o, dict(kind='meta', tb=V(tb), payload=V(data), attrs=attrs, cls=MM.UnknownMetaMessage, time=t)
    if fam.startswith('meta:'):
        from .c_meta import valid_meta, meta_payload
        mt = fam[5:]
        h.cfg = {'key': 'F#m'}
        o = valid_meta(h, mt, p)
        attrs_of(o)['time'] = t
        attrs = dict(h.attrs0)
        attrs['time'] = t
        return o, dict(kind='meta', tb=M.META[mt][0], payload=meta_payload(mt, attrs), attrs=attrs, cls=MM.MetaMessage, time=t)
    two = fam == 'sysex2'
    if two:
        fam = 'sysex'
    info = S.TYPES[fam]
    attrs = {'type': fam, 'time': t}
    for nm in info['names']:
        if nm == 'data':
            if two:
                d0, d1 = h.int(p + 'd0', 0, 127), h.int(p + 'd1', 0, 127)
                attrs['data'] = SSeq(zseq([d0, d1]), MS.SysexData) if h.sym else MS.SysexData((d0, d1))
            else:
                attrs['data'] = h.int_seq(p + 'data', MS.SysexData, lo=0, hi=127, mutable=False)
                if h.sym:
                    h.assume(z3.Length(V(attrs['data'])) < 1000000)
        else:
            lo, hi = S.RANGES[nm]
            attrs[nm] = h.int(p + nm, lo, hi)
    o = h.obj(MS.Message, attrs)
    mv = {k: V(v) for k, v in attrs.items() if k not in ('type', 'time')}
    if fam == 'sysex':
        return o, dict(kind='sysex', payload=mv['data'], attrs=attrs, cls=MS.Message, time=t)
    full = S.spec_encode(fam, mv)
    status = info['status'] + (mv['channel'] if info['channel'] else 0)
    return o, dict(kind='chan', full=full, status=status, nbytes=info['length'], is_channel=info['channel'], attrs=attrs,
                   cls=MS.Message, time=t)


def canonical_vlq_of(n):
    return seq(F.vlq_py(n))


class _RecordingEvi:
    """encode_variable_int through its proved contract; records (argument, result) so that the postcondition can name
    the canonical VLQs that were written"""
    def __call__(self, ip, args, kwargs):
        from pyvc.contract import REGISTRY
        c = REGISTRY['mido.midifiles.meta:encode_variable_int']
        r = c.call_site(ip, raw_function('mido.midifiles.meta:encode_variable_int'), args, kwargs)   # concrete args: real body
        ip.ctx.__dict__.setdefault('evi_calls', []).append((args[0], r))
        return r


def _pair_cfgs():
    out = [{'n': 1, 'a': f} for f in EVENT_FAMILIES + SINGLE_ONLY]
    out += [{'n': 2, 'a': a, 'b': b} for a in FIRST_FAMILIES for b in EVENT_FAMILIES]
    # triples: a channel message, something that must cancel running status (or not), the same kind of channel message again
    out += [{'n': 3, 'a': a, 'b': b, 'c': a} for a in ('note_on', 'program_change')
            for b in ('sysex2', 'meta:set_tempo', 'unknown_meta2', 'tune_request', 'meta:end_of_track', 'note_off')]
    # an end_of_track inside a track that also ENDS with one (e.g. two complete tracks concatenated): still exactly one FF 2F 00
    out += [{'n': 3, 'a': 'note_on', 'b': 'meta:end_of_track', 'c': 'meta:end_of_track'},
            {'n': 3, 'a': 'meta:end_of_track', 'b': 'note_on', 'c': 'meta:end_of_track'}]
    return tuple(out)


def expected_track_data(h, specs, vlqs):
    """the canonical encoding of the events (C08): delta VLQ, then full event - or data bytes only directly after a channel
    message with the same status; sysex as F0 vlq(len+1) data F7; meta as FF type vlq(len) payload; 00 FF 2F 00 at the end.
    vlqs: the VLQ byte strings in the order they were produced (symbolic) / None (concrete: computed here)"""
    parts = []
    rs = None
    vi = [0]

    def vlq(n):
        if vlqs is None:
            return canonical_vlq_of(n)
        r = vlqs[vi[0]]
        vi[0] += 1
        return r
    for sp in specs:
        parts.append(vlq(V(sp['time'])))
        if sp['kind'] == 'meta':
            parts.append(seq([0xFF, sp['tb']]))
            parts.append(vlq(length(sp['payload'])))
            parts.append(sp['payload'])
            rs = None
        elif sp['kind'] == 'sysex':
            parts.append(seq([0xF0]))
            parts.append(vlq(length(sp['payload']) + 1))
            parts.append(sp['payload'])
            parts.append(seq([0xF7]))
            rs = None
        else:
            parts.append(('chan', sp, rs))
            rs = sp['status'] if sp['is_channel'] else None
    return parts


def flatten_parts(parts, use_running):
    """turn the parts into one sequence; ('chan', spec, rs) becomes data-only when rs equals the status (clause!)"""
    out = []
    conds = []
    for p in parts:
        if isinstance(p, tuple) and p and p[0] == 'chan':
            _, sp, rs = p
            if rs is not None and use_running(sp, rs):
                conds.append(sp['status'] == rs)
                out.append(sub(sp['full'], 1, sp['nbytes']))
            else:
                if rs is not None:
                    conds.append(Not(sp['status'] == rs))
                out.append(sp['full'])
        else:
            out.append(p)
    return cat(*out) if out else seq([]), conds


@contract
class WriteTrackEvents(Contract):
    key = 'C08.write_track-events'
    target = MFM + 'write_track'
    properties = ('C07', 'C08')
    configs = _pair_cfgs()
    raises = {struct.error: 'chunk_too_big'}
    # precondition: delta times below 2**28 (the SMF limit: four VLQ bytes), so that the chunk length fits 32 bits

    def hooks(self, cfg):
        return {raw_function('mido.midifiles.meta:encode_variable_int'): _RecordingEvi()}

    def inputs(self, h, cfg):
        h.specs = []
        msgs = []
        for i, fam in enumerate([cfg['a']] + ([cfg['b']] if cfg['n'] >= 2 else []) + ([cfg['c']] if cfg['n'] >= 3 else [])):
            o, sp = event_obj(h, fam, i)
            msgs.append(o)
            h.specs.append(sp)
        h.msgs = msgs
        return [outfile(h), list(msgs)], {}

    def ensures(self, h, cfg, a, r):
        w = written(h)
        # fix_end_of_track (proved under C12): end_of_track events are dropped, their delta is carried to the next event,
        # and one end_of_track with the trailing delta closes the track
        specs, acc = [], 0
        for sp in h.specs:
            if sp['kind'] == 'meta' and sp.get('tb') == 0x2F and not is_z(sp.get('tb')):
                acc = acc + V(sp['time'])
            else:
                specs.append(dict(sp, time=acc + V(sp['time'])))
                acc = 0
        specs.append(dict(kind='meta', tb=0x2F, payload=seq([]), time=acc))
        out = {}
        if h.sym:
            calls = h.ctx.__dict__.get('evi_calls', [])
            vlqs = [V(r_) for (_, r_) in calls]
            # which numbers were encoded, in order: per event its delta time and (meta / sysex) its payload length
            want_args = []
            for sp in specs:
                want_args.append(V(sp['time']))
                if sp['kind'] == 'meta':
                    want_args.append(length(sp['payload']))
                elif sp['kind'] == 'sysex':
                    want_args.append(length(sp['payload']) + 1)
            out['one-vlq-per-delta-time-and-length'] = len(calls) == len(want_args)
            if len(calls) != len(want_args):
                return out
            out['vlq-arguments-are-the-delta-times-and-lengths'] = And(*[eq(V(a_), wa) for (a_, r_), wa in zip(calls, want_args)])
            full_vlqs = [V(r_) for (a_, r_) in calls]
            parts = expected_track_data(h, specs, full_vlqs)
        else:
            parts = expected_track_data(h, specs, None)
        # the writer must use running status exactly when the previous event was a channel message with the same status
        data_rs, conds_rs = flatten_parts(parts, lambda sp, rs: True)
        data_full, conds_full = flatten_parts(parts, lambda sp, rs: False)
        L1, L2 = length(data_rs), length(data_full)

        def chunk(d, L):
            from pyvc.dsl import idiv, imod
            return cat(seq(list(b"MTrk")), seq([imod(idiv(L, 16777216), 256), imod(idiv(L, 65536), 256), imod(idiv(L, 256), 256), imod(L, 256)]), d)
        chans = [i for i, p in enumerate(parts) if isinstance(p, tuple) and p and p[0] == 'chan' and p[2] is not None]
        if chans:
            import itertools
            for choice in itertools.product((True, False), repeat=len(chans)):
                pick = dict(zip(chans, choice))
                idx = [0]

                def use(sp, rs, pick=pick, idx=idx):
                    # called once per channel part that has a previous running status, in order
                    k = chans[idx[0]]
                    idx[0] += 1
                    return pick[k]
                d, conds = flatten_parts(parts, use)
                Ld = length(d)
                out['canonical-encoding[running-status=%s]' % ','.join('yes' if x else 'no' for x in choice)] = \
                    Implies(And(*conds) if conds else True, And(*concat_eq(w, chunk(d, Ld))))
        else:
            out['canonical-encoding'] = And(*concat_eq(w, chunk(data_full, L2)))
        h.chunk_lengths = (L1, L2)
        return out

    def chunk_too_big(self, h, cfg, a, pr):
        # struct.pack('>L', len(data)) fails only for track data of 4 GiB or more (the VLQ contract does not bound the
        # number of bytes of a canonical VLQ, so this exit stays reachable in the proof; it needs a payload that large)
        if not h.sym:
            return False
        calls = h.ctx.__dict__.get('evi_calls', [])
        total = sum([length(V(r_)) for (_, r_) in calls], 0)
        return total + 64 + sum([length(sp['payload']) for sp in h.specs if 'payload' in sp], 0) >= 2 ** 32

    def frame(self, h, cfg, a):
        from .c_state import unchanged
        return {'message%d-unchanged' % i: unchanged(attrs_of(m), sp['attrs']) for i, (m, sp) in enumerate(zip(h.msgs, h.specs))}

    def samples(self, cfg):
        return []


from .c_meta import SSC as _SSC2, _SeqSpecCheckLoop as _SSCL2      # noqa: E402
WriteTrackEvents.loops = {_SSC2: _SSCL2()}


@contract
class SaveLeavesTrackUnchanged(WriteTrackEvents):
    """C16: save is an observer - writing a track (incl. the end_of_track folding done on the way) must not change the
    track's messages, otherwise everything observed after a save differs from a freshly built file.  The writer contract
    is re-run on the configurations in which a delta has to be carried over an end_of_track inside the track."""
    key = 'C16.save-leaves-the-track-unchanged'
    properties = ('C16',)
    configs = tuple([{'n': 3, 'a': a, 'b': 'meta:end_of_track', 'c': a} for a in ('note_on', 'program_change')]
                    + [{'n': 2, 'a': 'note_on', 'b': b} for b in ('meta:end_of_track', 'note_on', 'sysex2')]
                    + [{'n': 1, 'a': 'meta:end_of_track'}])


SaveLeavesTrackUnchanged.loops = {_SSC2: _SSCL2()}


@contract
class WriteTrackRefuses(Contract):
    """what cannot be stored makes write_track raise ValueError before anything is written: a real-time message (the six
    MIDI 1.0 real-time types), a negative delta time, a non-integer delta time"""
    key = 'C07.write_track-refuses'
    target = MFM + 'write_track'
    properties = ('C07', 'C08')
    configs = tuple({'bad': b, 'pos': p} for b in tuple('rt:' + t for t in REALTIME_FAMILIES) + ('negative-time', 'float-time', 'real-time-value')
                    for p in (0, 1))
    raises = {ValueError: 'nothing_written'}

    def hooks(self, cfg):
        return {raw_function('mido.midifiles.meta:encode_variable_int'): _RecordingEvi()}

    def inputs(self, h, cfg):
        import mido.messages.messages as MS
        good, _ = event_obj(h, 'note_on', 9)
        bad = cfg['bad']
        if bad.startswith('rt:'):
            m = h.obj(MS.Message, {'type': bad[3:], 'time': h.int('bad_time', 0)})
        elif bad == 'negative-time':
            m, _ = event_obj(h, 'control_change', 8)
            t = h.int('bad_time')
            h.assume(V(t) < 0)
            attrs_of(m)['time'] = t
        elif bad == 'float-time':
            m, _ = event_obj(h, 'control_change', 8)
            attrs_of(m)['time'] = 1.5
        else:
            m, _ = event_obj(h, 'control_change', 8)
            attrs_of(m)['time'] = h.real('bad_time')
        track = [m, good] if cfg['pos'] == 0 else [good, m]
        return [outfile(h), track], {}

    def ensures(self, h, cfg, a, r):
        return {'unstorable-content-is-refused': False}

    def nothing_written(self, h, cfg, a, pr):
        return eq(length(written(h)), 0)

    def samples(self, cfg):
        return [{'e9_time': 3, 'e9_channel': 1, 'e9_note': 60, 'e9_velocity': 64, 'e8_time': 0, 'e8_channel': 0, 'e8_control': 7, 'e8_value': 100,
                 'bad_time': -2 if cfg['bad'] == 'negative-time' else (2.5 if cfg['bad'] == 'real-time-value' else 2)}]


# ====================================================================== MidiFile.save / _save / _load: header and track order
class _TrackToken:
    def __init__(self, name):
        self.name = name

    def __call__(self, ip, args, kwargs):
        ip.ctx.__dict__.setdefault('track_calls', []).append((self.name, list(args), dict(kwargs)))
        from pyvc.values import Opaque
        return Opaque('track read') if self.name == 'read_track' else None


_SAVE = Harness('''
    def save_to(mf, f):
        mf.save(file=f)
''')


@contract
class SaveFile(Contract):
    """save(): a type 0 file with a track count other than one is refused (nothing written); otherwise the header chunk is
    'MThd' 00000006 <type> <number of tracks> <ticks per beat> (16-bit big-endian) followed by the tracks in order"""
    key = 'C07.save'
    target = MFM + 'MidiFile.save'
    properties = ('C07', 'C08')
    configs = tuple({'type': t, 'ntracks': n} for t in (0, 1, 2) for n in (0, 1, 2, 3))
    raises = {ValueError: 'type0_needs_one_track'}
    symbolic_only = True

    def callee(self, h, cfg):
        return _SAVE.get(h)

    def hooks(self, cfg):
        return {raw_function(MFM + 'write_track'): _TrackToken('write_track')}

    def inputs(self, h, cfg):
        from .c_midifile import midifile
        from pyvc.values import Opaque
        h.tracks = [Opaque('track%d' % i) for i in range(cfg['ntracks'])]
        h.tpb = h.int('ticks_per_beat', 1, 32767)
        mf = midifile(h, cfg['type'], h.tracks, 'junk', tpb=h.tpb)
        return [mf, outfile(h)], {}

    def type0_needs_one_track(self, h, cfg, a, pr):
        return [cfg['type'] == 0 and cfg['ntracks'] != 1, eq(length(written(h)), 0)]

    def ensures(self, h, cfg, a, r):
        from pyvc.dsl import idiv, imod
        tpb = V(h.tpb)
        hdr = cat(seq(list(b'MThd')), seq([0, 0, 0, 6, 0, cfg['type'], 0, cfg['ntracks'], idiv(tpb, 256), imod(tpb, 256)]))
        calls = h.ctx.__dict__.get('track_calls', [])
        return {'type0-has-exactly-one-track': not (cfg['type'] == 0 and cfg['ntracks'] != 1),
                'header-chunk': And(*concat_eq(written(h), hdr)),
                'tracks-written-in-order-to-the-same-file': [c[1][1] for c in calls] == h.tracks and all(c[1][0] is h.f for c in calls)}


class _LoadLoop(LoopSpec):
    header = 'range(num_tracks)'

    def enter(self, ip, fr, seqv):
        st = LoopSpec.enter(self, ip, fr, seqv)
        st.n0 = len(ip.ctx.__dict__.get('track_calls', []))
        return st

    def havoc(self, ip, fr, st):
        # tracks read so far: unknown number; represented by the ghost counter i
        fr.env['self'].attrs['tracks'] = []

    def step(self, ip, fr, st):
        calls = ip.ctx.__dict__.get('track_calls', [])
        ip.ctx.oblige('load.one-read_track-per-iteration', len(calls) - st.n0 == 1 or len(calls) == 1)
        tr = fr.env['self'].attrs['tracks']
        ip.ctx.oblige('load.track-appended', len(tr) >= 1 and tr[-1] is not None)

    def inv(self, ip, fr, st):
        return []


@contract
class LoadFile(Contract):
    key = 'C07._load'
    target = MFM + 'MidiFile._load'
    properties = ('C07', 'C08')
    configs = ({'debug': False, 'clip': False}, {'debug': False, 'clip': True})     # debug=True: see C08.DebugFileWrapper (transparency of the wrapper)
    use = (MFM + 'read_file_header',)
    loops = {(MFM + 'MidiFile._load', 0): _LoadLoop()}
    raises = {EOFError: 'from_header', OSError: 'from_header'}
    symbolic_only = True

    def from_header(self, h, cfg, a, pr):
        # only the header reader raises here (its conditions are in its own contract); read_track is a token
        return len(h.ctx.__dict__.get('track_calls', [])) == 0

    def hooks(self, cfg):
        return {raw_function(MFM + 'read_track'): _TrackToken('read_track'),
                raw_function(MFM + 'print_byte'): (lambda ip, a, k: None)}

    def inputs(self, h, cfg):
        from .c_midifile import midifile
        f = infile(h)
        mf = midifile(h, 1, [], 'junk', tpb=480)
        attrs_of(mf)['debug'] = cfg['debug']
        attrs_of(mf)['clip'] = cfg['clip']
        return [mf, f], {}

    def ensures(self, h, cfg, a, r):
        calls = h.ctx.__dict__.get('track_calls', [])
        hd = h.ctx.__dict__.get('header_reads', [])
        out = {'one-header-read': len(hd) == 1}
        if len(hd) == 1:
            t, n, d = hd[0]
            ma = attrs_of(h.mf)
            out['type-and-resolution-from-the-header'] = And(eq(V(ma['type']), t), eq(V(ma['ticks_per_beat']), d))
        out['options-passed-to-every-read_track'] = all(c[2].get('debug') is cfg['debug'] and c[2].get('clip') is cfg['clip'] for c in calls)
        return out



# ====================================================================== read_track: one iteration of the event loop (dispatch rules)
class _Recorder2:
    def __init__(self, name, result):
        self.name, self.result = name, result

    def __call__(self, ip, args, kwargs):
        r = self.result(ip)
        ip.ctx.__dict__.setdefault('reader_calls', []).append((self.name, list(args), dict(kwargs), r))
        return r


class _EventLoop(LoopSpec):
    """while True: ... one event per iteration.  State: last_status (None or a status byte >= 0x80 that is not 0xFF), the
    file position, the track read so far.  Per iteration (checked in `step`):
      - the loop ends exactly when position - start == size
      - delta := read_variable_int(), then one status/data byte is read
      - a data byte (< 0x80) needs a running status: without one the file is refused (OSError); with one the byte is the
        first data byte of a message with that status
      - 0xFF -> meta event (never becomes running status); 0xF0 / 0xF7 -> sysex event; anything else -> read_message
      - the message returned by the callee is appended to the track; delta / clip are passed on"""
    header = 'True'
    modifies = ('last_status', 'track')

    def enter(self, ip, fr, seqv):
        st = LoopSpec.enter(self, ip, fr, None)
        return st

    def havoc(self, ip, fr, st):
        ctx = ip.ctx
        h = ctx.h
        if ctx.fork(2) == 0:
            fr.env['last_status'] = None
        else:
            ls = ctx.fresh('last_status')
            ctx.assume([ls >= 0x80, ls <= 0xFF, ls != 0xFF])
            fr.env['last_status'] = SInt(ls)
        h.f.attrs['pos'] = ctx.fresh('pos')
        ctx.assume([h.f.attrs['pos'] >= 0, h.f.attrs['pos'] <= z3.Length(h.content)])
        from pyvc.interp import TrackList
        import mido.midifiles.tracks as TR
        fr.env['track'] = TrackList([], TR.MidiTrack)
        st.ls0 = fr.env['last_status']
        st.pos_h = h.f.attrs['pos']
        st.ncalls0 = len(ctx.__dict__.get('reader_calls', []))

    def step(self, ip, fr, st):
        ctx = ip.ctx
        h = ctx.h
        calls = ctx.__dict__.get('reader_calls', [])[st.ncalls0:]
        names = [c[0] for c in calls]
        ob = lambda n, g: ctx.oblige('read_track.' + n, g)
        ob('starts-with-the-delta-time', len(calls) >= 1 and names[0] == 'read_variable_int')
        if not calls or names[0] != 'read_variable_int':
            return
        delta = calls[0][3]
        p1 = calls[0][4] if len(calls[0]) > 4 else None
        # the byte read after the delta time
        c = h.content
        pos_after_delta = h.ghost_pos_after_vlq[-1]
        b = c[pos_after_delta]
        ls0 = st.ls0
        ob('one-event-reader-call', len(calls) == 2)
        if len(calls) != 2:
            return
        name, args, kwargs, res = calls[1]
        running = b < 0x80
        status = z3.If(running, V(ls0) if ls0 is not None else z3.IntVal(-1), b)
        if name == 'read_meta_message':
            ob('meta-event-iff-status-FF', status == 0xFF)
            ob('meta-args', args[0] is h.f and eq(V(args[1]), V(delta)))
        elif name == 'read_sysex':
            ob('sysex-event-iff-status-F0-or-F7', z3.Or(status == 0xF0, status == 0xF7))
            ob('sysex-args', args[0] is h.f and eq(V(args[1]), V(delta)) and (args[2] if len(args) > 2 else kwargs.get('clip')) is h.clip)
        else:
            ob('channel-or-system-event', z3.And(status != 0xFF, status != 0xF0, status != 0xF7))
            ob('message-args-status', eq(V(args[1]), status))
            peek = args[2]
            ob('message-args-peeked-data-byte', z3.If(running, z3.BoolVal(len(peek) == 1) if len(peek) != 1 else V(peek[0]) == b,
                                                      z3.BoolVal(len(peek) == 0)))
            ob('message-args-delta-and-clip', eq(V(args[3]), V(delta)) and (args[4] if len(args) > 4 else kwargs.get('clip')) is h.clip)
        ls1 = fr.env['last_status']
        new_ls = z3.If(z3.And(z3.Not(running), b != 0xFF), b, V(ls0) if ls0 is not None else z3.IntVal(-1))
        ob('running-status-update', (V(ls1) if ls1 is not None else z3.IntVal(-1)) == new_ls)
        tr = fr.env['track']
        items = tr.items if hasattr(tr, 'items') and not isinstance(tr, list) else list(tr)
        ob('message-appended', len(items) == 1 and items[0] is res)

    def inv(self, ip, fr, st):
        return []


@contract
class ReadTrackStep(Contract):
    key = 'C08.read_track-step'
    target = MFM + 'read_track'
    properties = ('C07', 'C08')
    configs = ({'clip': False}, {'clip': True})
    use = (MFM + 'read_chunk_header',) if False else ()
    loops = {(MFM + 'read_track', 0): _EventLoop()}
    raises = {OSError: 'refused', EOFError: 'refused'}
    symbolic_only = True

    def hooks(self, cfg):
        from pyvc.values import Opaque

        def vlq(ip):
            h = ip.ctx.h
            # consumes at least one byte
            p = h.f.attrs['pos']
            np_ = ip.ctx.fresh('pos_after_vlq')
            ip.ctx.assume([np_ > p, np_ < z3.Length(h.content)])
            h.f.attrs['pos'] = np_
            h.ghost_pos_after_vlq.append(np_)
            return SInt(ip.ctx.fresh('delta'))

        def ev(ip):
            h = ip.ctx.h
            np_ = ip.ctx.fresh('pos_after_event')
            ip.ctx.assume([np_ >= h.f.attrs['pos'], np_ <= z3.Length(h.content)])
            h.f.attrs['pos'] = np_
            return Opaque('message')
        return {raw_function(MFM + 'read_variable_int'): _Recorder2('read_variable_int', vlq),
                raw_function(MFM + 'read_message'): _Recorder2('read_message', ev),
                raw_function(MFM + 'read_sysex'): _Recorder2('read_sysex', ev),
                raw_function(MFM + 'read_meta_message'): _Recorder2('read_meta_message', ev)}

    def inputs(self, h, cfg):
        f = infile(h)
        h.clip = cfg['clip']
        h.ghost_pos_after_vlq = []
        return [f], {'clip': cfg['clip']}

    def refused(self, h, cfg, a, pr):
        return True        # (not an MTrk chunk, truncated header, running status without a status)

    def ensures(self, h, cfg, a, r):
        import mido.midifiles.tracks as TR
        c = h.content
        p = h.pos0
        size = ((c[p + 4] * 256 + c[p + 5]) * 256 + c[p + 6]) * 256 + c[p + 7]
        return {'is-MidiTrack': cls_of(r) is TR.MidiTrack,
                'chunk-is-MTrk': z3.Extract(c, p, z3.IntVal(4)) == zseq(list(b'MTrk')),
                'stops-exactly-at-the-end-of-the-chunk': pos_now(h) == p + 8 + size}
