"""Contracts for mido/tokenizer.py and mido/parser.py  (C04, C05, C06).

Abstract view of a Tokenizer:  cur = the bytes of the message being assembled (empty when idle),
queue = tokens already emitted.  WF(state) is the representation invariant; every public step is proved
to preserve it from an ARBITRARY well-formed state (this is "any prefix P" of C06) and to satisfy a relational
step specification written from the property statements.  Lemmas over the step specification (sublist,
real-time one-to-one, resynchronisation, chunking) are in l_parser.py.
"""
import collections

from pyvc.contract import Contract, contract, LoopSpec, V, attrs_of, cls_of, Harness, raw_function
from pyvc.dsl import (And, Or, Not, Implies, Iff, Ite, All, Ex, AnyOf, eq, at, cat, seq, length, sub, is_z, holds, empty)
from . import spec_midi as S

try:
    import z3
    from pyvc.values import SInt, SBool, SSeq, Cell, Obj, PyRaise, zseq, IntSeq, INT_EK
except ImportError:
    z3 = None

INF = float('inf')


class Sentinel(list):
    """stands for 'whatever was queued before'; the code under verification may only append after it"""
    def __repr__(self):
        return '<earlier items>'


def dsl_symbolic():
    from pyvc import dsl
    return bool(dsl._SYMBOLIC[0])


def defined_rt(b):
    return Or(b == 0xF8, b == 0xFA, b == 0xFB, b == 0xFC, b == 0xFE, b == 0xFF)


# ---------------------------------------------------------------- tokenizer states
MODES = ('idle', 'idle-after-sysex', 'idle-fresh', 'fixed', 'sysex')


def tok_obj(h, mode, prefix=''):
    """an arbitrary well-formed Tokenizer state of the given mode (the three modes cover WF exactly)"""
    import mido.tokenizer as T
    p = prefix
    bs = h.int_seq(p + 'bytes', list, mutable=True)
    b = V(bs)
    attrs = {'_messages': collections.deque([Sentinel()]), '_datalen': 0, '_bytes': bs}
    if mode.startswith('idle'):
        attrs['_status'] = 0
        # _len is whatever an earlier message left behind (an int, inf after a sysex, or not set at all yet)
        if mode == 'idle':
            attrs['_len'] = h.int(p + 'len')
        elif mode == 'idle-after-sysex':
            attrs['_len'] = INF
    elif mode == 'fixed':
        st = h.int(p + 'status')
        ln = h.int(p + 'len')
        sv = V(st)
        h.assume([Or(S.status_len(sv) == 2, S.status_len(sv) == 3), V(ln) == S.status_len(sv),
                  length(b) >= 1, length(b) < V(ln), at(b, 0) == sv])
        h.assume(All(1, length(b), lambda k: S.data_byte(at(b, k))))
        attrs['_status'] = st
        attrs['_len'] = ln
    else:
        h.assume([length(b) >= 1, at(b, 0) == 0xF0])
        h.assume(All(1, length(b), lambda k: S.data_byte(at(b, k))))
        attrs['_status'] = 0xF0
        attrs['_len'] = INF
    if h.sym:
        del Cell.MUTATED_SEALED[:]
        if mode.startswith('idle') and isinstance(bs, Cell):
            # an idle tokenizer's `_bytes` may still be the list object of the last completed message, which sits in the queue
            bs.sealed = 'possibly a queued token (tokenizer idle)'
    t = h.obj(T.Tokenizer, attrs)
    h.tok = t
    h.tok0 = dict(attrs)
    h.cur0 = cur_of(attrs)
    return t


def havoc_buffer(term, status):
    """an arbitrary `_bytes` list for a cut loop / summary: if the tokenizer is idle it may be a queued token"""
    c = Cell(SSeq(term, list), list)
    if is_z(status):
        c.sealed = ('possibly a queued token (tokenizer idle)', status == 0)
    elif status == 0:
        c.sealed = 'possibly a queued token (tokenizer idle)'
    return c


def alias_clauses(attrs):
    """ALIAS DISCIPLINE of the tokenizer (part of its representation invariant): a list object that is in the queue is never
    changed again, and the buffer of an open message is not in the queue.  The tokenizer queues `self._bytes` itself, so
    any in-place change of it after completion would corrupt a message that was already recognised."""
    if z3 is None:
        return {}              # run-time evaluation on the real code: aliasing is real there, nothing to track
    bad = []
    for sealed, cell in Cell.MUTATED_SEALED:
        bad.append(Not(sealed[1]) if isinstance(sealed, tuple) else False)
    out = {'alias.queued-token-never-mutated': And(*bad) if bad else True}
    toks = new_tokens(attrs) if isinstance(attrs.get('_messages'), collections.deque) else None
    st = V(attrs['_status'])
    for tk in toks or []:
        if tk is attrs.get('_bytes'):
            out['alias.open-message-buffer-is-not-in-the-queue'] = (st == 0)
    return out


def cur_of(attrs):
    """bytes of the partial message (empty when idle)"""
    st = V(attrs['_status'])
    b = V(attrs['_bytes'])
    if is_z(st):
        return Ite(st != 0, b, empty())
    if st != 0:
        return b
    return empty()


def wf_clauses(attrs):
    """the representation invariant as clauses over a Tokenizer attribute dict"""
    st = V(attrs['_status'])
    b = V(attrs['_bytes'])
    ln = attrs.get('_len')
    out = {}
    if not is_z(st) and st == 0:
        out['idle'] = True
        return out
    idle = (st == 0)
    data_ok = All(1, length(b), lambda k: Implies(Not(idle), S.data_byte(at(b, k))))
    out['partial-data-bytes'] = data_ok
    if isinstance(ln, float):
        out['shape'] = Or(idle, And(ln == INF, st == 0xF0, length(b) >= 1, at(b, 0) == 0xF0))
    else:
        lv = V(ln)
        sl = S.status_len(st)
        out['shape'] = Or(idle, And(Or(sl == 2, sl == 3), lv == sl, length(b) >= 1, length(b) < lv, at(b, 0) == st))
    return out


def new_tokens(attrs):
    """tokens appended to the queue by the code under verification (views)"""
    q = list(attrs['_messages'])
    if not q or not isinstance(q[0], Sentinel):
        return None
    return q[1:]


# ====================================================================== Tokenizer.feed_byte: the step contract
@contract
class TokFeedByte(Contract):
    target = 'mido.tokenizer:Tokenizer.feed_byte'
    properties = ('C04', 'C05', 'C06', 'C18', 'C19')
    configs = tuple({'mode': m} for m in MODES)
    raises = {ValueError: 'not_a_byte'}

    def inputs(self, h, cfg):
        t = tok_obj(h, cfg['mode'])
        h.byte = h.int('byte')
        return [t, h.byte], {}

    def not_a_byte(self, h, cfg, a, pr):
        return [Not(And(0 <= V(h.byte), V(h.byte) <= 255)), self._unchanged(h)]

    def _unchanged(self, h):
        cur = attrs_of(h.tok)
        return And(eq(V(cur['_status']), V(h.tok0['_status'])), eq(V(cur['_bytes']), V(h.tok0['_bytes'])),
                   len(list(cur['_messages'])) == 1)

    def ensures(self, h, cfg, a, r):
        byte = V(h.byte)
        attrs = attrs_of(h.tok)
        out = {'byte-in-range': And(0 <= byte, byte <= 255), 'returns-None': r is None}
        out.update({'WF.' + k: v for k, v in wf_clauses(attrs).items()})
        out.update(alias_clauses(attrs))
        toks = new_tokens(attrs)
        out['queue-only-appended'] = toks is not None
        if toks is None:
            return out
        out['at-most-one-token'] = len(toks) <= 1
        if len(toks) > 1:
            return out
        cur0 = h.cur0
        cur1 = cur_of(attrs)
        st0 = V(h.tok0['_status'])
        tok = V(toks[0]) if toks else empty()
        if toks:
            for i, c in enumerate(S.wellformed(tok)):
                out['token-wellformed.%d' % i] = c
        # ---- real-time bytes: one token per defined real-time byte, nothing else emitted
        if toks:
            out['rt-token-iff-defined-rt-byte'] = Or(And(defined_rt(byte), eq(tok, seq([byte]))),
                                                     And(Not(defined_rt(byte)), at(tok, 0) < 0xF8))
        else:
            out['rt-token-iff-defined-rt-byte'] = Not(defined_rt(byte))
        kept = cat(tok, cur1) if toks else cur1
        one = seq([byte])
        out['rt-does-not-enter-messages'] = Implies(byte >= 0xF8, Or(eq(cur1, cur0), eq(cur1, empty())))
        # ---- nothing invented / duplicated / reordered: the kept bytes evolve in one of four ways
        out['kept-bytes-step'] = Implies(byte < 0xF8, Or(eq(kept, cat(cur0, one)), eq(kept, cur0),
                                                         eq(kept, empty()), eq(kept, one)))
        # ---- resynchronisation facts (C06)
        sl = S.status_len(byte)
        out['new-status-discards-partial'] = Implies(And(byte >= 0x80, byte < 0xF8, Or(sl == 2, sl == 3, sl == S.SYSEX_LEN)),
                                                     And(len(toks) == 0, eq(cur1, one)))
        out['one-byte-message'] = Implies(And(byte < 0xF8, sl == 1), And(len(toks) == 1, eq(tok, one), eq(cur1, empty())))
        out['data-byte-extends-partial'] = Implies(And(byte < 0x80, length(cur0) > 0), eq(kept, cat(cur0, one)))
        out['data-byte-completes-exactly-at-length'] = Implies(
            And(byte < 0x80, length(cur0) > 0, st0 != 0xF0),
            Iff(len(toks) == 1, length(cur0) + 1 == S.status_len(st0)))
        out['stray-data-byte-ignored'] = Implies(And(byte < 0x80, length(cur0) == 0), And(len(toks) == 0, eq(cur1, empty())))
        out['sysex-data-never-completes'] = Implies(And(byte < 0x80, st0 == 0xF0), len(toks) == 0)
        out['rt-inside-sysex-keeps-payload'] = Implies(And(byte >= 0xF8, st0 == 0xF0), eq(cur1, cur0))
        out['sysex-end'] = Implies(And(byte == 0xF7, st0 == 0xF0),
                                   And(len(toks) == 1, eq(tok, cat(cur0, one)), eq(cur1, empty())))
        out['stray-sysex-end'] = Implies(And(byte == 0xF7, st0 != 0xF0), And(len(toks) == 0, eq(cur1, empty())))
        return out

    def samples(self, cfg):
        return []


# ====================================================================== Tokenizer.feed: loop over feed_byte
class _FeedLoop(LoopSpec):
    header = 'data'

    def enter(self, ip, fr, seqv):
        st = LoopSpec.enter(self, ip, fr, seqv)
        st.tok = fr.env['self']
        st.checked = 0
        st.n = 0
        return st

    def havoc(self, ip, fr, st):
        # an arbitrary tokenizer state; the invariant (assumed next) restricts it to WF
        ctx = ip.ctx
        t = st.tok
        stv = ctx.fresh('h_status')
        ln = ctx.fresh('h_len')
        bs = ctx.fresh('h_bytes', IntSeq)
        t.attrs['_status'] = SInt(stv)
        t.attrs['_bytes'] = havoc_buffer(bs, stv)
        # `_len` is an int while a fixed-length message is open and inf while a sysex is open
        which = ctx.fork(2)
        t.attrs['_len'] = SInt(ln) if which == 0 else INF
        t.attrs['_messages'] = collections.deque([Sentinel()])
        st.checked = 0

    def step(self, ip, fr, st):
        # every token appended during the iteration must be a well-formed message
        toks = new_tokens(st.tok.attrs)
        if toks is None:
            ip.ctx.oblige('%s.queue-only-appended' % fr.name, False)
            return
        for i, tk in enumerate(toks[st.checked:]):
            for j, c in enumerate(S.wellformed(V(tk))):
                ip.ctx.oblige('feed.token-wellformed.%d' % j, c, kind='ensures')
        st.checked = len(toks)
        for k, c in alias_clauses(st.tok.attrs).items():
            ip.ctx.oblige('feed.' + k, c, kind='ensures')

    def inv(self, ip, fr, st):
        a = st.tok.attrs
        stv = V(a['_status'])
        out = list(wf_clauses(a).values())
        if isinstance(a.get('_len'), float):
            out.append(Or(stv == 0, stv == 0xF0) if is_z(stv) else (stv in (0, 0xF0)))
        else:
            out.append(stv != 0xF0 if is_z(stv) else (stv != 0xF0))
        return out


@contract
class TokFeed(Contract):
    target = 'mido.tokenizer:Tokenizer.feed'
    properties = ('C04', 'C05', 'C06')      # C06: a prefix and a message fed in ONE call share the queue (alias discipline)
    configs = tuple({'mode': m, 'seq': s} for m in MODES for s in ('bytes', 'list'))
    loops = {('mido.tokenizer:Tokenizer.feed', 0): _FeedLoop()}
    raises = {}

    def inputs(self, h, cfg):
        t = tok_obj(h, cfg['mode'])
        h.data = h.int_seq('data', bytes if cfg['seq'] == 'bytes' else list, lo=0, hi=255, mutable=False)
        return [t, h.data], {}

    def ensures(self, h, cfg, a, r):
        attrs = attrs_of(h.tok)
        out = {'WF.' + k: v for k, v in wf_clauses(attrs).items()}
        out.update(alias_clauses(attrs))
        toks = new_tokens(attrs)
        out['queue-only-appended'] = toks is not None
        for i, tk in enumerate(toks or []):
            for j, c in enumerate(S.wellformed(V(tk))):
                out['token%d-wellformed.%d' % (i, j)] = c
        return out


# ====================================================================== Parser
class AbstractTokenQueue:
    """model of the tokenizer's deque when it holds an UNKNOWN number of tokens, each of which is one complete
    well-formed message (that is the postcondition of Tokenizer.feed, proved by TokFeed).  Only the length is
    tracked; popleft() hands out a fresh token about which exactly `wellformed` is known; append() must
    re-establish the abstraction (obligation)."""
    _pyvc_model = True

    def __len__(ip, self):
        return self.attrs['n']
    __len__._pyvc_native = True

    def popleft(ip, self):
        n = self.attrs['n']
        if not ip.ctx.branch(V(n) > 0):
            raise PyRaise(IndexError, ('pop from an empty deque',))
        t = ip.ctx.fresh('token', IntSeq)
        ip.ctx.assume(S.wellformed(t))
        self.attrs['n'] = SInt(V(n) - 1)
        return SSeq(t, list)
    popleft._pyvc_native = True

    def append(ip, self, x):
        for j, c in enumerate(S.wellformed(V(x))):
            ip.ctx.oblige('token-queue.append.wellformed.%d' % j, c, kind='ensures')
        if isinstance(x, Cell):
            # the queue holds this very list object: it must not change any more (checked by queued_tokens_untouched)
            x.sealed = 'queued token'
        self.attrs['n'] = SInt(V(self.attrs['n']) + 1)
    append._pyvc_native = True


def abstract_queue(ctx, name):
    n = ctx.fresh(name)
    ctx.assume(n >= 0)
    return Obj(AbstractTokenQueue, {'n': SInt(n)})


def parser_obj(h, mode):
    import mido.parser as P
    t = tok_obj(h, mode)
    attrs_of(t)['_messages'] = collections.deque()       # invariant of Parser: the tokenizer queue is drained
    h.tok0 = dict(attrs_of(t))
    p = h.obj(P.Parser, {'messages': collections.deque([Sentinel()]), '_tok': t})
    h.parser = p
    return p


def new_messages(p):
    q = list(attrs_of(p)['messages'])
    if not q or not isinstance(q[0], Sentinel):
        return None
    return q[1:]


def message_clauses(m, prefix):
    """a queued object is a valid Message; returns (clauses, its spec encoding or None)"""
    import mido.messages.messages as M
    from .c_state import valid_state
    out = {prefix + 'is-Message': cls_of(m) is M.Message}
    if z3 is not None and dsl_symbolic():
        # a queued object that was not built during this call existed before it (module-level table, cache): every parser
        # would hand out the same mutable object, and stamping one received message would change all later ones
        out[prefix + 'is-a-new-object (not shared with other calls)'] = isinstance(m, Obj)
    if cls_of(m) is not M.Message:
        return out, None
    a = attrs_of(m)
    t = a.get('type')
    if t not in S.TYPES:
        out[prefix + 'type-defined'] = False
        return out, None
    vs = valid_state(a, t)
    out.update({prefix + 'valid.' + k: v for k, v in vs.items()})
    if not vs.get('attribute-set'):
        return out, None
    enc = S.spec_encode(t, {k: V(a[k]) for k in S.TYPES[t]['names']})
    return out, enc


@contract
class ParserFeedByte(Contract):
    target = 'mido.parser:Parser.feed_byte'
    properties = ('C04', 'C05', 'C06', 'C18')
    configs = tuple({'mode': m} for m in MODES)
    use = ('mido.messages.checks:check_data',)
    raises = {ValueError: 'not_a_byte'}

    def inputs(self, h, cfg):
        p = parser_obj(h, cfg['mode'])
        h.byte = h.int('byte')
        return [p, h.byte], {}

    def not_a_byte(self, h, cfg, a, pr):
        return [Not(And(0 <= V(h.byte), V(h.byte) <= 255)), new_messages(h.parser) == []]

    def ensures(self, h, cfg, a, r):
        byte = V(h.byte)
        tattrs = attrs_of(h.tok)
        out = {'byte-in-range': And(0 <= byte, byte <= 255)}
        out.update({'WF.' + k: v for k, v in wf_clauses(tattrs).items()})
        out.update(alias_clauses(tattrs))
        out['tokenizer-queue-drained'] = len(tattrs['_messages']) == 0
        msgs = new_messages(h.parser)
        out['queue-only-appended'] = msgs is not None
        if msgs is None:
            return out
        out['at-most-one-message'] = len(msgs) <= 1
        if len(msgs) > 1:
            return out
        enc = None
        if msgs:
            cl, enc = message_clauses(msgs[0], 'message.')
            out.update(cl)
            if enc is None:
                return out
        # the message's encoding obeys the step specification of the tokenizer (same clauses as TokFeedByte)
        cur0, cur1 = h.cur0, cur_of(tattrs)
        st0 = V(h.tok0['_status'])
        one = seq([byte])
        n = len(msgs)
        if msgs:
            out['rt-message-iff-defined-rt-byte'] = Or(And(defined_rt(byte), eq(enc, one)), And(Not(defined_rt(byte)), at(enc, 0) < 0xF8))
        else:
            out['rt-message-iff-defined-rt-byte'] = Not(defined_rt(byte))
        kept = cat(enc, cur1) if msgs else cur1
        out['kept-bytes-step'] = Implies(byte < 0xF8, Or(eq(kept, cat(cur0, one)), eq(kept, cur0), eq(kept, empty()), eq(kept, one)))
        out['rt-does-not-enter-messages'] = Implies(byte >= 0xF8, Or(eq(cur1, cur0), eq(cur1, empty())))
        out['sysex-end'] = Implies(And(byte == 0xF7, st0 == 0xF0), And(n == 1, eq(kept, cat(cur0, one)), eq(cur1, empty())))
        out['rt-inside-sysex-keeps-payload'] = Implies(And(byte >= 0xF8, st0 == 0xF0), eq(cur1, cur0))
        out['data-byte-extends-partial'] = Implies(And(byte < 0x80, length(cur0) > 0), eq(kept, cat(cur0, one)))
        return out


class _TokFeedSummary:
    """call-site contract of Tokenizer.feed (proved by TokFeed): the state stays well-formed and every token
    appended to the queue is one complete well-formed message"""
    def __call__(self, ip, args, kwargs):
        tok, data = args
        ctx = ip.ctx
        v = data.v if isinstance(data, Cell) else data
        if not (isinstance(v, SSeq) and v.ek is INT_EK):
            raise PyRaise(TypeError, ('unsupported data kind in summary',))
        e = v.e
        ctx.oblige('call-pre.Tokenizer.feed.bytes-in-range', All(0, z3.Length(e), lambda k: z3.And(e[k] >= 0, e[k] <= 255)), kind='call-pre')
        prior = tok.attrs['_messages']
        if not (isinstance(prior, collections.deque) and len(prior) == 0):
            raise PyRaise(AssertionError, ('summary needs a drained tokenizer queue',))
        which = ctx.fork(3)
        stv = ctx.fresh('s_status')
        bs = ctx.fresh('s_bytes', IntSeq)
        tok.attrs['_bytes'] = havoc_buffer(bs, 0 if which == 0 else stv)
        if which == 0:
            tok.attrs['_status'] = 0
        elif which == 1:
            tok.attrs['_status'] = SInt(stv)
            tok.attrs['_len'] = SInt(ctx.fresh('s_len'))
            ctx.assume(stv != 0xF0)
        else:
            tok.attrs['_status'] = 0xF0
            tok.attrs['_len'] = INF
        ctx.assume(list(wf_clauses(tok.attrs).values()))
        tok.attrs['_messages'] = abstract_queue(ctx, 's_ntokens')
        return None


class _DecodeLoop(LoopSpec):
    header = 'self._tok'

    def enter(self, ip, fr, seqv):
        st = LoopSpec.enter(self, ip, fr, seqv)
        st.parser = fr.env['self']
        st.checked = 0
        return st

    def havoc(self, ip, fr, st):
        ctx = ip.ctx
        tok = st.parser.attrs['_tok']
        tok.attrs['_messages'] = abstract_queue(ctx, 'd_ntokens')
        st.parser.attrs['messages'] = collections.deque([Sentinel()])
        st.checked = 0

    def step(self, ip, fr, st):
        msgs = new_messages(st.parser)
        if msgs is None:
            ip.ctx.oblige('decode.queue-only-appended', False)
            return
        for m in msgs[st.checked:]:
            cl, enc = message_clauses(m, 'decode.message.')
            for k, c in cl.items():
                ip.ctx.oblige(k, c, kind='ensures')
        st.checked = len(msgs)

    def inv(self, ip, fr, st):
        tok = st.parser.attrs['_tok']
        q = tok.attrs['_messages']
        if not (isinstance(q, Obj) and q.cls is AbstractTokenQueue):
            return [False]
        return [V(q.attrs['n']) >= 0]


@contract
class ParserFeed(Contract):
    target = 'mido.parser:Parser.feed'
    properties = ('C04', 'C05', 'C06', 'C19')
    configs = tuple({'mode': m} for m in MODES)
    use = ('mido.messages.checks:check_data',)
    loops = {('mido.parser:Parser._decode', 0): _DecodeLoop()}
    raises = {}

    def hooks(self, cfg):
        return {raw_function('mido.tokenizer:Tokenizer.feed'): _TokFeedSummary()}

    def inputs(self, h, cfg):
        p = parser_obj(h, cfg['mode'])
        h.data = h.int_seq('data', bytes, lo=0, hi=255, mutable=False)
        return [p, h.data], {}

    def ensures(self, h, cfg, a, r):
        tattrs = attrs_of(h.tok)
        out = {'WF.' + k: v for k, v in wf_clauses(tattrs).items()}
        out.update(alias_clauses(tattrs))
        q = tattrs['_messages']
        out['tokenizer-queue-drained'] = (len(q) == 0) if isinstance(q, collections.deque) else eq(V(attrs_of(q)['n']), 0)
        msgs = new_messages(h.parser)
        out['queue-only-appended'] = msgs is not None
        for i, m in enumerate(msgs or []):
            cl, enc = message_clauses(m, 'message%d.' % i)
            out.update(cl)
        return out

    def samples(self, cfg):
        out = []
        for d in ([], [0x90, 1, 2], [0x90, 1, 0xF8, 2], [0xF0, 1, 0xF8, 2, 0xF7, 5, 0xF7], [0xF4, 0xF5, 0xF9, 0xFD, 0xF7],
                  [0x80] * 5 + [1, 2, 3, 4], [0xF6, 0xF1, 5, 0xF2, 1, 2, 0xF3, 9, 0xC1, 2, 0xD3, 4, 0xE5, 6, 7],
                  # undefined status bytes / stray bytes right after a complete, still queued message
                  [0x90, 1, 2, 0xF4, 0x80, 3, 4], [0xF0, 1, 2, 0xF7, 0xF5, 0xF0, 9, 0xF7], [0xF2, 1, 2, 0xF4, 0xFA], [2, 0xF5, 0xC0, 1, 0xF4, 5, 0xF7]):
            v = {'data': d, 'bytes': [0x90, 1] if cfg['mode'] == 'fixed' else ([0xF0, 3] if cfg['mode'] == 'sysex' else [7])}
            if cfg['mode'] == 'fixed':
                v.update(status=0x90, len=3)
            if cfg['mode'] == 'idle':
                v.update(len=3)
            out.append(v)
        return out


# ---- retrieval: FIFO, pending(), get_message() is None exactly when nothing is pending (C05)
def parser_with_queue(h):
    """a Parser whose queue holds an arbitrary number of items.  Items are only ever MOVED by the retrieval
    functions, so they are represented by integers (identities); any inspection of an item would show up as a
    failing obligation (AttributeError / TypeError path)."""
    import mido.parser as P
    import mido.tokenizer as T
    q = h.int_seq('queue', collections.deque, mutable=True) if h.sym else collections.deque(h.values['queue'])
    t = h.obj(T.Tokenizer, {'_status': 0, '_bytes': [], '_messages': collections.deque(), '_datalen': 0})
    p = h.obj(P.Parser, {'messages': q, '_tok': t})
    h.parser = p
    h.q0 = V(q) if h.sym else tuple(q)
    return p


def queue_now(h):
    q = attrs_of(h.parser)['messages']
    return V(q) if not isinstance(q, collections.deque) else tuple(q)


@contract
class ParserGetMessage(Contract):
    target = 'mido.parser:Parser.get_message'
    properties = ('C05',)
    raises = {}

    def inputs(self, h, cfg):
        return [parser_with_queue(h)], {}

    def ensures(self, h, cfg, a, r):
        q0, q1 = h.q0, queue_now(h)
        n = length(q0)
        rv = V(r)
        if r is None:
            return {'None-exactly-when-nothing-pending': eq(n, 0), 'queue-unchanged': eq(q1, q0)}
        return {'None-exactly-when-nothing-pending': n > 0,
                'returns-the-oldest': eq(rv, at(q0, 0)),
                'removes-exactly-it': eq(q1, sub(q0, 1, n))}


@contract
class ParserPending(Contract):
    target = 'mido.parser:Parser.pending'
    properties = ('C05',)
    raises = {}

    def inputs(self, h, cfg):
        return [parser_with_queue(h)], {}

    def ensures(self, h, cfg, a, r):
        return {'pending-is-queue-length': eq(V(r), length(h.q0)), 'queue-unchanged': eq(queue_now(h), h.q0)}


class _IterLoop(LoopSpec):
    header = 'len(self.messages) > 0'

    def enter(self, ip, fr, seqv):
        st = LoopSpec.enter(self, ip, fr, None)
        st.parser = fr.env['self']
        st.q0 = st.parser.attrs['messages'].v.e
        st.out = z3.Empty(IntSeq)          # ghost: items yielded so far
        st.parser.ghost['out'] = st
        return st

    def havoc(self, ip, fr, st):
        ctx = ip.ctx
        st.out = ctx.fresh('yielded', IntSeq)
        st.parser.attrs['messages'] = Cell(SSeq(ctx.fresh('rest', IntSeq), collections.deque), collections.deque)

    def step(self, ip, fr, st):
        for y in st.yields:
            st.out = z3.Concat(st.out, z3.Unit(V(y)))

    def inv(self, ip, fr, st):
        return [z3.Concat(st.out, st.parser.attrs['messages'].v.e) == st.q0]


@contract
class ParserIter(Contract):
    """iteration drains the queue first-in first-out: yielded ++ remaining == queue at every yield"""
    target = 'mido.parser:Parser.__iter__'
    properties = ('C05',)
    loops = {('mido.parser:Parser.__iter__', 0): _IterLoop()}
    collect = True
    raises = {}

    def inputs(self, h, cfg):
        return [parser_with_queue(h)], {}

    def ensures(self, h, cfg, a, r):
        # reached on the exit path of the loop: everything has been yielded in order
        q1 = queue_now(h)
        out = {'queue-empty-at-exhaustion': eq(length(q1), 0)}
        if h.sym:
            st = h.parser.ghost.get('out')
            out['yielded-everything-in-order'] = st.out == st.q0 if st is not None else False
        else:
            out['yielded-everything-in-order'] = tuple(r) == tuple(h.q0)
        return out


# ---- the tokenizer's own queue: Parser._decode takes the tokens out through Tokenizer.__iter__, so the order in which
# messages come out of a parser is the order in which THIS iteration hands the tokens over (C05: first-in first-out)
class _TokIterLoop(LoopSpec):
    header = 'len(self._messages)'

    def enter(self, ip, fr, seqv):
        st = LoopSpec.enter(self, ip, fr, None)
        st.tok = fr.env['self']
        st.q0 = st.tok.attrs['_messages'].v.e
        st.out = z3.Empty(IntSeq)          # ghost: items yielded so far
        st.tok.ghost['out'] = st
        return st

    def havoc(self, ip, fr, st):
        ctx = ip.ctx
        st.out = ctx.fresh('yielded', IntSeq)
        st.tok.attrs['_messages'] = Cell(SSeq(ctx.fresh('rest', IntSeq), collections.deque), collections.deque)

    def step(self, ip, fr, st):
        for y in st.yields:
            st.out = z3.Concat(st.out, z3.Unit(V(y)))

    def inv(self, ip, fr, st):
        return [z3.Concat(st.out, st.tok.attrs['_messages'].v.e) == st.q0]


def tokenizer_with_queue(h):
    """a Tokenizer whose queue holds an arbitrary number of tokens; iteration only MOVES them, so they are
    represented by integers (identities)"""
    import mido.tokenizer as T
    q = h.int_seq('queue', collections.deque, mutable=True) if h.sym else collections.deque(h.values['queue'])
    t = h.obj(T.Tokenizer, {'_status': 0, '_bytes': [], '_messages': q, '_datalen': 0})
    h.tok = t
    h.q0 = V(q) if h.sym else tuple(q)
    return t


@contract
class TokIter(Contract):
    """iterating a tokenizer hands out the queued tokens first-in first-out and leaves the queue empty"""
    target = 'mido.tokenizer:Tokenizer.__iter__'
    properties = ('C05', 'C04')
    loops = {('mido.tokenizer:Tokenizer.__iter__', 0): _TokIterLoop()}
    collect = True
    raises = {}

    def inputs(self, h, cfg):
        return [tokenizer_with_queue(h)], {}

    def ensures(self, h, cfg, a, r):
        q = attrs_of(h.tok)['_messages']
        q1 = V(q) if not isinstance(q, collections.deque) else tuple(q)
        out = {'queue-empty-at-exhaustion': eq(length(q1), 0)}
        if h.sym:
            st = h.tok.ghost.get('out')
            out['yielded-everything-in-order'] = st.out == st.q0 if st is not None else False
        else:
            out['yielded-everything-in-order'] = tuple(r) == tuple(h.q0)
        return out

    def samples(self, cfg):
        return [{'queue': []}, {'queue': [5]}, {'queue': [3, 1, 2]}, {'queue': list(range(20))}]


@contract
class TokLen(Contract):
    target = 'mido.tokenizer:Tokenizer.__len__'
    properties = ('C05',)
    raises = {}

    def inputs(self, h, cfg):
        return [tokenizer_with_queue(h)], {}

    def ensures(self, h, cfg, a, r):
        q = attrs_of(h.tok)['_messages']
        q1 = V(q) if not isinstance(q, collections.deque) else tuple(q)
        return {'is-the-queue-length': eq(V(r), length(h.q0)), 'queue-unchanged': eq(q1, h.q0)}

    def samples(self, cfg):
        return [{'queue': []}, {'queue': [5]}, {'queue': [3, 1, 2]}]


# ====================================================================== C06: resynchronisation on the real code
@contract
class ResyncFixed(Contract):
    """from ANY well-formed parser state (= after any prefix P), feeding the encoding of a valid non-sysex message M
    queues exactly M, and leaves no partial message behind.  The bytes have concrete length (1..3) so the real
    loops of Tokenizer.feed / Parser._decode are executed exactly; the attribute values are symbolic."""
    key = 'C06.resync-fixed'
    target = 'mido.parser:Parser.feed'
    properties = ('C06',)
    configs = tuple({'mode': m, 'type': t, 'seq': sq} for m in MODES for t in S.ALL_TYPES if t != 'sysex'
                    for sq in (('list',) if m != 'fixed' else ('list', 'bytes')))
    use = ('mido.messages.checks:check_data',)
    raises = {}

    def inputs(self, h, cfg):
        from .c_messages import _msg_inputs
        p = parser_obj(h, cfg['mode'])
        h.m = _msg_inputs(h, cfg['type'])
        enc = S.spec_encode(cfg['type'], {k: V(v) for k, v in h.m.items() if k != 'type'})
        if h.sym:
            n = S.TYPES[cfg['type']]['length']
            data = [SInt(z3.simplify(enc[i])) for i in range(n)]
        else:
            data = list(enc)
        if cfg['seq'] == 'bytes' and not h.sym:
            data = bytes(data)
        h.enc = enc
        return [p, data], {}

    def ensures(self, h, cfg, a, r):
        tattrs = attrs_of(h.tok)
        msgs = new_messages(h.parser)
        out = {'queue-only-appended': msgs is not None}
        out.update(alias_clauses(tattrs))
        if msgs is None:
            return out
        out['exactly-one-message'] = len(msgs) == 1
        if cfg['type'] in S.REALTIME_TYPES:
            # a real-time message may arrive inside a message; it never becomes part of it (an open sysex stays open)
            cur1 = cur_of(tattrs)
            out['realtime-does-not-touch-partial-message'] = Or(eq(cur1, h.cur0), eq(cur1, empty()))
            out['open-sysex-stays-open'] = Implies(eq(V(h.tok0['_status']), 0xF0), eq(cur1, h.cur0))
        else:
            out['no-partial-message-left'] = eq(V(tattrs['_status']), 0)
        if len(msgs) != 1:
            return out
        cl, enc = message_clauses(msgs[0], 'message.')
        out.update(cl)
        ma = attrs_of(msgs[0])
        out['type'] = ma.get('type') == cfg['type']
        if ma.get('type') == cfg['type']:
            for nm in S.TYPES[cfg['type']]['names']:
                out['%s-equal' % nm] = eq(V(ma[nm]), V(h.m[nm]))
        return out


class _SysexFeedLoop(LoopSpec):
    """Tokenizer.feed over x = [0xF0] ++ y ++ [0xF7] where every y[k] is a data byte or a real-time byte.
    F(y, i) = the data bytes among y[:i] (spec function, unfolded one step per iteration)."""
    header = 'data'

    def enter(self, ip, fr, seqv):
        st = LoopSpec.enter(self, ip, fr, seqv)
        st.tok = fr.env['self']
        st.a0 = dict(st.tok.attrs)
        st.y = ip.ctx.h.yv
        st.n = z3.Length(st.y)
        st.checked = 0
        return st

    def havoc(self, ip, fr, st):
        ctx = ip.ctx
        t = st.tok
        hst = ctx.fresh('h_status')
        t.attrs['_status'] = SInt(hst)
        t.attrs['_bytes'] = havoc_buffer(ctx.fresh('h_bytes', IntSeq), hst)
        which = ctx.fork(2)
        t.attrs['_len'] = SInt(ctx.fresh('h_len')) if which == 0 else INF
        t.attrs['_messages'] = collections.deque([Sentinel()])
        st.i0 = None

    def hints(self, ip, fr, st, phase):
        y = st.y
        F = ip.ctx.h.F
        i = st.i
        out = [F(y, z3.IntVal(0)) == z3.Empty(IntSeq)]
        for j in (i - 1, i - 2):
            out.append(z3.Implies(z3.And(j >= 0, j < st.n),
                                  F(y, j + 1) == z3.If(y[j] < 0x80, z3.Concat(F(y, j), z3.Unit(y[j])), F(y, j))))
        return out

    def step(self, ip, fr, st):
        # tokens appended by the iteration that consumed x[i]  (i = st.i before the increment)
        i = st.i
        y, n = st.y, st.n
        F = ip.ctx.h.F
        toks = new_tokens(st.tok.attrs)
        if toks is None:
            ip.ctx.oblige('sysex.queue-only-appended', False)
            return
        hints = self.hints(ip, fr, _Shift(st, i + 1), 'step')
        for kk, c in alias_clauses(st.tok.attrs).items():
            ip.ctx.oblige('sysex.' + kk, c, kind='ensures')
        k = len(toks)
        b = z3.If(i == 0, 0xF0, z3.If(i == n + 1, 0xF7, y[i - 1]))
        ip.ctx.oblige('sysex.at-most-one-token-per-byte', k <= 1, hints=hints)
        tokv = V(toks[0]) if k == 1 else None
        ip.ctx.oblige('sysex.rt-delivered-immediately',
                      z3.Implies(z3.And(i >= 1, i <= n, defined_rt(b)), z3.BoolVal(k == 1) if k != 1 else tokv == z3.Unit(b)), hints=hints)
        ip.ctx.oblige('sysex.nothing-else-delivered-before-the-end',
                      z3.Implies(z3.And(i <= n, z3.Not(z3.And(i >= 1, defined_rt(b)))), z3.BoolVal(k == 0)), hints=hints)
        full = z3.Concat(z3.Unit(z3.IntVal(0xF0)), F(y, n), z3.Unit(z3.IntVal(0xF7)))
        ip.ctx.oblige('sysex.complete-message-with-unchanged-payload',
                      z3.Implies(i == n + 1, z3.BoolVal(False) if k != 1 else tokv == full), hints=hints)

    def inv(self, ip, fr, st):
        a = st.tok.attrs
        i, y, n = st.i, st.y, st.n
        F = ip.ctx.h.F
        stv, bv = V(a['_status']), V(a['_bytes'])
        inside = z3.And(i >= 1, i <= n + 1)
        lenok = isinstance(a.get('_len'), float)
        out = [z3.Implies(inside, z3.And(stv == 0xF0, z3.BoolVal(lenok), bv == z3.Concat(z3.Unit(z3.IntVal(0xF0)), F(y, i - 1)))),
               z3.Implies(i == n + 2, stv == 0)]
        if i is not None and z3.is_int_value(z3.simplify(i)) and z3.simplify(i).as_long() == 0:
            return out
        return out


class _Shift:
    def __init__(self, st, i):
        self.__dict__.update(st.__dict__)
        self.i = i


@contract
class ResyncSysex(Contract):
    key = 'C06.resync-sysex'
    target = 'mido.tokenizer:Tokenizer.feed'
    properties = ('C06',)
    configs = tuple({'mode': m} for m in MODES)
    loops = {('mido.tokenizer:Tokenizer.feed', 0): _SysexFeedLoop()}
    raises = {}

    def inputs(self, h, cfg):
        t = tok_obj(h, cfg['mode'])
        y = h.int_seq('y', list, mutable=False)
        yv = V(y)
        # every inserted byte is a data byte or a real-time byte (defined or not)
        h.assume(All(0, length(yv), lambda k: Or(And(0 <= at(yv, k), at(yv, k) < 0x80), And(0xF8 <= at(yv, k), at(yv, k) <= 0xFF))))
        h.yv = yv
        if h.sym:
            h.F = z3.Function('datafilter', IntSeq, z3.IntSort(), IntSeq)
            x = SSeq(z3.Concat(z3.Unit(z3.IntVal(0xF0)), yv, z3.Unit(z3.IntVal(0xF7))), list)
        else:
            x = [0xF0] + list(yv) + [0xF7]
        return [t, x], {}

    def ensures(self, h, cfg, a, r):
        attrs = attrs_of(h.tok)
        out = {'no-partial-message-left': eq(V(attrs['_status']), 0)}
        if not h.sym:
            toks = [tuple(t) for t in new_tokens(attrs)]
            y = list(h.yv)
            rts = [(b,) for b in y if b in S.REALTIME_STATUS]
            full = tuple([0xF0] + [b for b in y if b < 0x80] + [0xF7])
            out['rt-delivered-ahead-then-sysex-with-unchanged-payload'] = toks == rts + [full]
        return out

    def samples(self, cfg):
        base = {'bytes': [0x90, 1] if cfg['mode'] == 'fixed' else ([0xF0, 3] if cfg['mode'] == 'sysex' else [7])}
        if cfg['mode'] == 'fixed':
            base.update(status=0x90, len=3)
        if cfg['mode'] == 'idle':
            base.update(len=3)
        out = []
        for y in ([], [1, 2, 3], [0xF8], [1, 0xF8, 2, 0xFE, 0xFF, 3], [0xF9, 0xFD, 5], [0xFA] * 3):
            out.append(dict(base, y=y))
        return out


# ====================================================================== C04: the whole-stream clauses as a loop invariant of the real feed
def _fold_tokens(g, toks):
    """ghost bookkeeping: a real-time token goes to rts, any other token to flat"""
    for tk in toks:
        tok = V(tk)
        if not is_z(tok):
            tok = zseq(list(tok)) if len(tok) else z3.Empty(IntSeq)
        isrt = z3.And(z3.Length(tok) > 0, tok[0] >= 0xF8)
        g['flat'], g['rts'] = z3.If(isrt, g['flat'], z3.Concat(g['flat'], tok)), z3.If(isrt, z3.Concat(g['rts'], tok), g['rts'])


class _StreamLoop(_FeedLoop):
    """Tokenizer.feed over ANY byte string, with ghost state  flat = bytes of the non-real-time tokens emitted so far
    (preceded by F0, those emitted before the call)  and  rts = bytes of the real-time tokens emitted in this call.
    Invariant (on top of WF):     Sublist(flat ++ cur, hist ++ data[:i])     and     rts == RT(data, i)
    where RT(data, i) = the defined real-time bytes among data[:i] (spec function, unfolded one step per iteration) and
    `Sublist` is the uninterpreted predicate of l_parser.py, used only through instances of A1..A3 (proved in Lean).
    This is the induction over the input that lifts the step lemmas to whole streams, done on the real loop."""
    header = 'data'

    def _g(self, ip):
        return ip.ctx.__dict__['ghost_stream']

    def enter(self, ip, fr, seqv):
        st = _FeedLoop.enter(self, ip, fr, seqv)
        h = ip.ctx.h
        g = ip.ctx.__dict__['ghost_stream'] = {'flat': h.F0, 'rts': z3.Empty(IntSeq)}
        _fold_tokens(g, new_tokens(st.tok.attrs) or [])        # tokens queued by feed itself before the loop
        return st

    def havoc(self, ip, fr, st):
        _FeedLoop.havoc(self, ip, fr, st)
        g = self._g(ip)
        g['flat'] = ip.ctx.fresh('g_flat', IntSeq)
        g['rts'] = ip.ctx.fresh('g_rts', IntSeq)
        st.flat0 = g['flat']
        st.cur0 = cur_of(st.tok.attrs)
        st.stepped = False

    def _unfold(self, ip, st, j):
        RT, d, n = ip.ctx.h.RT, st.seq, z3.Length(st.seq)
        return z3.Implies(z3.And(j >= 0, j < n),
                          RT(d, j + 1) == z3.If(defined_rt(d[j]), z3.Concat(RT(d, j), z3.Unit(d[j])), RT(d, j)))

    def hints(self, ip, fr, st, phase):
        from .l_parser import A1, A2, A3
        h = ip.ctx.h
        d = st.seq
        out = [h.RT(d, z3.IntVal(0)) == z3.Empty(IntSeq)]
        if phase != 'preserved':
            return out
        i = st.i - 1                                  # the iteration consumed data[i]
        b = d[i]
        inp = z3.Concat(h.hist, z3.Extract(d, z3.IntVal(0), i))
        K0 = z3.Concat(st.flat0, st.cur0)
        out.append(self._unfold(ip, st, i))
        # sequence-theory fact: data[:i+1] == data[:i] ++ [data[i]]   (0 <= i < len)
        out.append(z3.Concat(h.hist, z3.Extract(d, z3.IntVal(0), i + 1)) == z3.Concat(inp, z3.Unit(b)))
        # instances of the Sublist axioms (l_parser.py; proved in lean/ListTheory.lean)
        out += [A1(K0, inp, b), A2(K0, inp, b), A3(st.flat0, st.cur0, inp), A1(st.flat0, inp, b), A2(st.flat0, inp, b)]
        return out

    def step(self, ip, fr, st):
        _FeedLoop.step(self, ip, fr, st)
        toks = new_tokens(st.tok.attrs)
        if toks is None:
            return
        g = self._g(ip)
        b = st.seq[st.i]
        ip.ctx.oblige('stream.at-most-one-token-per-byte', len(toks) <= 1, kind='ensures')
        if len(toks) > 1:
            return
        if toks:
            tok = V(toks[0])
            isrt = tok[0] >= 0xF8
            # one real-time message per defined real-time byte and it is that byte; any other token is a non-real-time message
            ip.ctx.oblige('stream.rt-token-iff-defined-rt-byte',
                          z3.Or(z3.And(defined_rt(b), tok == z3.Unit(b)), z3.And(z3.Not(defined_rt(b)), tok[0] < 0xF8)), kind='ensures')
            g['flat'] = z3.If(isrt, g['flat'], z3.Concat(g['flat'], tok))
            g['rts'] = z3.If(isrt, z3.Concat(g['rts'], tok), g['rts'])
        else:
            ip.ctx.oblige('stream.rt-token-iff-defined-rt-byte', z3.Not(defined_rt(b)), kind='ensures')

    def inv(self, ip, fr, st):
        out = _FeedLoop.inv(self, ip, fr, st)
        h = ip.ctx.h
        g = self._g(ip)
        d = st.seq
        cur = cur_of(st.tok.attrs)
        if not is_z(cur):
            cur = zseq(list(cur)) if len(cur) else z3.Empty(IntSeq)
        from .l_parser import Sublist
        out.append(Sublist(z3.Concat(g['flat'], cur), z3.Concat(h.hist, z3.Extract(d, z3.IntVal(0), st.i))))
        out.append(g['rts'] == h.RT(d, st.i))
        return out


def _is_subsequence(xs, ys):
    it = iter(ys)
    return all(any(x == y for y in it) for x in xs)


@contract
class TokFeedStream(Contract):
    """C04 for whole streams, by a loop invariant of the real Tokenizer.feed (not by an assumed induction): from ANY
    well-formed state whose kept bytes K0 = F0 ++ cur0 are a subsequence of the history `hist` consumed so far, after
    feed(data) the kept bytes (non-real-time tokens ++ partial message) are a subsequence of hist ++ data, and the
    real-time tokens emitted by the call are exactly the defined real-time bytes of data, in order."""
    key = 'C04.stream-invariants'
    target = 'mido.tokenizer:Tokenizer.feed'
    properties = ('C04', 'C05')
    configs = tuple({'mode': m, 'seq': sq} for m in MODES for sq in ('list', 'bytes', 'bytearray', 'tuple'))
    loops = {('mido.tokenizer:Tokenizer.feed', 0): _StreamLoop()}
    raises = {}

    def inputs(self, h, cfg):
        t = tok_obj(h, cfg['mode'])
        h.data = h.int_seq('data', {'list': list, 'bytes': bytes, 'bytearray': bytearray, 'tuple': tuple}[cfg['seq']], lo=0, hi=255, mutable=False)
        if h.sym:
            from .l_parser import Sublist
            h.F0 = z3.Const('ghost_F0', IntSeq)
            h.hist = z3.Const('ghost_hist', IntSeq)
            h.RT = z3.Function('rtfilter', IntSeq, z3.IntSort(), IntSeq)
            cur0 = h.cur0 if is_z(h.cur0) else (zseq(list(h.cur0)) if len(h.cur0) else z3.Empty(IntSeq))
            h.assume(Sublist(z3.Concat(h.F0, cur0), h.hist))
        return [t, h.data], {}

    def ensures(self, h, cfg, a, r):
        attrs = attrs_of(h.tok)
        toks = new_tokens(attrs)
        out = {'queue-only-appended': toks is not None}
        if toks is None:
            return out
        if h.sym:
            from .l_parser import Sublist
            g = h.ctx.__dict__.get('ghost_stream')
            if g is None:                # a path that returns without reaching the loop: nothing consumed, nothing emitted so far
                g = {'flat': h.F0, 'rts': z3.Empty(IntSeq)}
            g = dict(g)
            _fold_tokens(g, toks)        # tokens queued after the loop (or by a path without the loop) by feed itself
            d = V(h.data)
            cur = cur_of(attrs)
            if not is_z(cur):
                cur = zseq(list(cur)) if len(cur) else z3.Empty(IntSeq)
            out['kept-bytes-are-a-subsequence-of-the-whole-input'] = Sublist(z3.Concat(g['flat'], cur), z3.Concat(h.hist, d))
            out['real-time-tokens-are-exactly-the-defined-real-time-bytes-in-order'] = g['rts'] == h.RT(d, z3.Length(d))
        else:
            data = list(h.data)
            cur0 = list(h.cur0)
            cur1 = list(cur_of(attrs))
            flat = [x for t in toks if t[0] < 0xF8 for x in t]
            rts = [list(t) for t in toks if t[0] >= 0xF8]
            out['kept-bytes-are-a-subsequence-of-the-whole-input'] = _is_subsequence(flat + cur1, cur0 + data)
            out['real-time-tokens-are-exactly-the-defined-real-time-bytes-in-order'] = rts == [[x] for x in data if x in S.REALTIME_STATUS]
        return out

    def ensure_hints(self, h, cfg, a, r):
        if not h.sym:
            return []
        d = V(h.data)
        return [z3.Extract(d, z3.IntVal(0), z3.Length(d)) == d, h.RT(d, z3.IntVal(0)) == z3.Empty(IntSeq)]

    def samples(self, cfg):
        base = {'bytes': [0x90, 1] if cfg['mode'] == 'fixed' else ([0xF0, 3] if cfg['mode'] == 'sysex' else [7])}
        if cfg['mode'] == 'fixed':
            base.update(status=0x90, len=3)
        if cfg['mode'] == 'idle':
            base.update(len=3)
        out = []
        for d in ([], [1, 2, 3], [0xF8], [0x90, 1, 0xF8, 2, 0xFE, 0xFF, 3], [0xF9, 0xFD, 5], [0xF0, 1, 0xFA, 2, 0xF7, 0xC0],
                  [0x80, 0x90, 0xF7, 0xF4, 1, 2, 3, 4, 0xF1], list(range(256))):
            out.append(dict(base, data=d))
        return out


# ====================================================================== C05: feed(data) is exactly the calls feed_byte(data[0]), ...
class _Recorder:
    """call-site stand-in for feed_byte: records the argument in a ghost sequence and does nothing else"""
    def __init__(self):
        pass

    def __call__(self, ip, args, kwargs):
        slf, byte = args
        g = ip.ctx.__dict__.setdefault('ghost_calls', {'seq': z3.Empty(IntSeq), 'self': []})
        g['seq'] = z3.Concat(g['seq'], z3.Unit(V(byte)))
        g['self'].append(slf)
        return None


class _CallSeqLoop(LoopSpec):
    header = 'data'

    def havoc(self, ip, fr, st):
        g = ip.ctx.__dict__.setdefault('ghost_calls', {'seq': z3.Empty(IntSeq), 'self': []})
        g['seq'] = ip.ctx.fresh('calls', IntSeq)

    def inv(self, ip, fr, st):
        g = ip.ctx.__dict__.setdefault('ghost_calls', {'seq': z3.Empty(IntSeq), 'self': []})
        return [g['seq'] == z3.Extract(st.seq, z3.IntVal(0), st.i)]


@contract
class TokFeedCallSequence(Contract):
    """chunking independence, code side: Tokenizer.feed(data) performs exactly the calls
    self.feed_byte(data[0]), ..., self.feed_byte(data[n-1]) in this order and writes nothing itself, so feeding
    a ++ b in one call and feeding a then b perform the same sequence of steps on the same state."""
    key = 'C05.feed-is-a-fold-of-feed_byte'
    target = 'mido.tokenizer:Tokenizer.feed'
    properties = ('C05', 'C06')      # C06: hypothesis `run` of lean/StreamInduction.lean
    configs = tuple({'mode': m, 'seq': sq} for m in ('idle', 'fixed', 'sysex') for sq in ('list', 'bytes', 'bytearray', 'tuple'))
    loops = {('mido.tokenizer:Tokenizer.feed', 0): _CallSeqLoop()}
    raises = {}
    symbolic_only = True

    def hooks(self, cfg):
        return {raw_function('mido.tokenizer:Tokenizer.feed_byte'): _Recorder()}

    def inputs(self, h, cfg):
        t = tok_obj(h, cfg['mode'])
        h.data = h.int_seq('data', {'list': list, 'bytes': bytes, 'bytearray': bytearray, 'tuple': tuple}[cfg['seq']], lo=0, hi=255, mutable=False)
        return [t, h.data], {}

    def ensures(self, h, cfg, a, r):
        if not h.sym:
            return {}
        g = h.ctx.__dict__.get('ghost_calls', {'seq': z3.Empty(IntSeq), 'self': []})
        writes = [e for e in h.ctx.log if e[0] == 'write']
        return {'calls-are-exactly-the-bytes-in-order': g['seq'] == V(h.data),
                'all-calls-on-self': all(s is h.tok for s in g['self']),
                'no-writes-of-its-own': len(writes) == 0}


# ====================================================================== C05: Parser.feed / feed_byte hand every byte to the tokenizer
class _CallLog:
    """call-site stand-in that records the call (ghost) and does nothing else"""
    def __init__(self, what):
        self.what = what

    def __call__(self, ip, args, kwargs):
        ip.ctx.__dict__.setdefault('ghost_parser_calls', []).append((self.what, args, kwargs))
        return None


@contract
class ParserFeedThroughTokenizer(Contract):
    """chunking independence, parser side: Parser.feed(data) is exactly `self._tok.feed(data)` followed by one
    `self._decode()` - for data of ANY kind and length, in particular for one-element chunks - and queues nothing by
    itself.  With C05.feed-is-a-fold-of-feed_byte (Tokenizer.feed(data) = feed_byte over its bytes) every chunking of a
    stream performs the same tokenizer steps; a shortcut that answers some chunk shapes without the tokenizer (and so
    without its state) fails here."""
    key = 'C05.parser-feed-goes-through-the-tokenizer'
    target = 'mido.parser:Parser.feed'
    properties = ('C05', 'C04', 'C06')
    configs = tuple({'mode': m, 'seq': sq, 'len': ln} for m in ('idle', 'fixed', 'sysex')
                    for sq in ('bytes', 'bytearray', 'list', 'tuple') for ln in ('any', 1, 2))
    raises = {}
    symbolic_only = True

    def hooks(self, cfg):
        return {raw_function('mido.tokenizer:Tokenizer.feed'): _CallLog('tok.feed'),
                raw_function('mido.tokenizer:Tokenizer.feed_byte'): _CallLog('tok.feed_byte'),
                raw_function('mido.parser:Parser._decode'): _CallLog('decode')}

    def inputs(self, h, cfg):
        p = parser_obj(h, cfg['mode'])
        pycls = {'bytes': bytes, 'bytearray': bytearray, 'list': list, 'tuple': tuple}[cfg['seq']]
        h.data = h.int_seq('data', pycls, lo=0, hi=255)
        if cfg['len'] != 'any':
            h.assume(length(V(h.data)) == cfg['len'])
        return [p, h.data], {}

    def ensures(self, h, cfg, a, r):
        if not h.sym:
            return {}
        return _through_tokenizer(h, V(h.data))


def _through_tokenizer(h, expected):
    """the clauses do not depend on HOW the code hands the bytes over (one feed call, several, or feed_byte calls):
    the bytes given to the parser's own tokenizer, in call order, are exactly `expected`; after the last tokenizer call
    comes a _decode(); the function queues nothing and changes no tokenizer state by itself."""
    calls = h.ctx.__dict__.get('ghost_parser_calls', [])
    tok = attrs_of(h.parser)['_tok']
    fed = z3.Empty(IntSeq)
    own, shape = True, True
    for what, args, kw in calls:
        if what == 'decode':
            own = own and args[0] is h.parser and len(args) == 1 and not kw
            continue
        own = own and args[0] is tok
        if len(args) != 2 or kw:
            shape = False
            continue
        x = V(args[1])
        fed = z3.Concat(fed, z3.Unit(x) if what == 'tok.feed_byte' else x)
    tcalls = [i for i, c in enumerate(calls) if c[0] != 'decode']
    out = {'tokenizer-calls-well-formed': shape, 'calls-are-on-the-parsers-own-objects': own}
    if shape:
        out['bytes-handed-to-the-tokenizer-are-exactly-the-data-in-order'] = fed == expected
    out['decode-after-the-last-tokenizer-call'] = (not tcalls) or (calls[-1][0] == 'decode')
    out['queues-nothing-by-itself'] = new_messages(h.parser) == []
    out['tokenizer-state-not-touched-by-the-parser-itself'] = all(attrs_of(h.tok)[k] is h.tok0[k] for k in h.tok0)
    return out


@contract
class ParserFeedByteThroughTokenizer(Contract):
    key = 'C05.parser-feed_byte-goes-through-the-tokenizer'
    target = 'mido.parser:Parser.feed_byte'
    properties = ('C05', 'C04', 'C06')
    configs = tuple({'mode': m} for m in ('idle', 'fixed', 'sysex'))
    raises = {}
    symbolic_only = True

    def hooks(self, cfg):
        return {raw_function('mido.tokenizer:Tokenizer.feed'): _CallLog('tok.feed'),
                raw_function('mido.tokenizer:Tokenizer.feed_byte'): _CallLog('tok.feed_byte'),
                raw_function('mido.parser:Parser._decode'): _CallLog('decode')}

    def inputs(self, h, cfg):
        p = parser_obj(h, cfg['mode'])
        h.byte = h.int('byte', 0, 255)
        return [p, h.byte], {}

    def ensures(self, h, cfg, a, r):
        if not h.sym:
            return {}
        return _through_tokenizer(h, z3.Unit(V(h.byte)))


# ====================================================================== ParserQueue (C05, queue-backed variant)
class FifoModel:
    """ASSUMED contract of queue.Queue (single consumer/producer view): put appends at the tail, get/get_nowait
    remove the head, get_nowait raises queue.Empty when empty"""
    _pyvc_model = True

    def put(ip, self, x):
        ip.ctx.event('queue.put', id(self), x, tuple(id(l) for l in ip.ctx.held))
        self.attrs['items'].append(x)
    put._pyvc_native = True

    def get_nowait(ip, self):
        import queue
        if not self.attrs['items']:
            raise PyRaise(queue.Empty, ())
        return self.attrs['items'].pop(0)
    get_nowait._pyvc_native = True

    def get(ip, self, *a, **k):
        if not self.attrs['items']:
            from pyvc.values import Unsupported
            raise Unsupported('blocking get on an empty queue (would wait for another thread)')
        return self.attrs['items'].pop(0)
    get._pyvc_native = True


class LockModel:
    """re-entrant lock: only enter/exit bookkeeping (sequential semantics); used as context manager"""
    _pyvc_model = True

    def __enter__(ip, self):
        self.attrs['depth'] = self.attrs.get('depth', 0) + 1
        ip.ctx.held.append(self)
        return self
    __enter__._pyvc_native = True

    def __exit__(ip, self, *exc):
        self.attrs['depth'] -= 1
        ip.ctx.held.remove(self)
        return False
    __exit__._pyvc_native = True


def parser_queue_obj(h, mode, pending):
    import mido.backends._parser_queue as PQ
    import queue
    import threading
    p = parser_obj(h, mode)
    attrs_of(p)['messages'] = collections.deque()
    if h.sym:
        q = Obj(FifoModel, {'items': list(pending)})
        lock = Obj(LockModel, {})
    else:
        q = queue.Queue()
        for x in pending:
            q.put(x)
        lock = threading.RLock()
    o = h.obj(PQ.ParserQueue, {'_queue': q, '_parser': p, '_parser_lock': lock})
    h.pq = o
    return o


def pq_items(h):
    q = attrs_of(h.pq)['_queue']
    if h.sym:
        return list(q.attrs['items'])
    return list(q.queue)


class Earlier:
    def __init__(self, i):
        self.i = i

    def __repr__(self):
        return '<earlier message %d>' % self.i


@contract
class ParserQueuePutBytes(Contract):
    key = 'C05.ParserQueue.put_bytes'
    target = 'mido.backends._parser_queue:ParserQueue.put_bytes'
    properties = ('C05',)
    configs = tuple({'mode': m, 'type': t} for m in ('idle', 'fixed', 'sysex') for t in ('note_on', 'program_change', 'pitchwheel', 'songpos', 'clock', 'tune_request'))
    use = ('mido.messages.checks:check_data',)
    raises = {}

    def inputs(self, h, cfg):
        from .c_messages import _msg_inputs
        h.earlier = [Earlier(0), Earlier(1)]
        o = parser_queue_obj(h, cfg['mode'], h.earlier)
        h.m = _msg_inputs(h, cfg['type'])
        enc = S.spec_encode(cfg['type'], {k: V(v) for k, v in h.m.items() if k != 'type'})
        n = S.TYPES[cfg['type']]['length']
        data = [SInt(z3.simplify(enc[i])) for i in range(n)] if h.sym else list(enc)
        return [o, data], {}

    def ensures(self, h, cfg, a, r):
        items = pq_items(h)
        out = {'earlier-messages-stay-in-front': items[:2] == h.earlier, 'exactly-one-added': len(items) == 3,
               'parser-queue-drained': len(attrs_of(h.parser)['messages']) == 0}
        # the bytes went THROUGH the parser: a complete message ends whatever was open before (else a later data byte would
        # complete the stale partial message - the result would depend on how the stream was chunked)
        tattrs = attrs_of(h.tok)
        if cfg['type'] in S.REALTIME_TYPES:
            out['realtime-does-not-extend-the-partial-message'] = Or(eq(cur_of(tattrs), h.cur0), eq(cur_of(tattrs), empty()))
        else:
            out['no-partial-message-left'] = eq(V(tattrs['_status']), 0)
        if len(items) == 3:
            cl, enc = message_clauses(items[2], 'message.')
            out.update(cl)
            ma = attrs_of(items[2])
            for nm in S.TYPES[cfg['type']]['names']:
                out['%s-equal' % nm] = eq(V(ma[nm]), V(h.m[nm])) if nm in ma else False
        return out


class _FeedRecorder:
    """call-site stand-in for Parser.feed in the discipline contract: logs the call and makes two messages pending"""
    def __call__(self, ip, args, kwargs):
        slf, data = args
        ip.ctx.event('parser.feed', id(slf), data, tuple(id(l) for l in ip.ctx.held))
        slf.attrs['messages'].append(Earlier(100))
        slf.attrs['messages'].append(Earlier(101))
        return None


@contract
class ParserQueueDiscipline(Contract):
    """put_bytes for ANY data: the parser is fed exactly once with exactly the object given, every access to the (shared, not
    thread-safe) parser - the feed and each removal from its queue - happens while the parser lock is held, and everything
    taken from the parser is put on the thread-safe queue in order, still under the lock (otherwise two callers interleave
    their messages).  With the ASSUMED serialisability of the critical sections of one lock this gives per-sender order."""
    key = 'C10.ParserQueue.put_bytes-discipline'
    target = 'mido.backends._parser_queue:ParserQueue.put_bytes'
    properties = ('C10', 'C05')
    configs = ({'pending': 0}, {'pending': 1})
    raises = {}
    symbolic_only = True

    def hooks(self, cfg):
        return {raw_function('mido.parser:Parser.feed'): _FeedRecorder()}

    def inputs(self, h, cfg):
        h.earlier = [Earlier(0)]
        o = parser_queue_obj(h, 'idle', h.earlier)
        h.left = [Earlier(50 + i) for i in range(cfg['pending'])]     # left in the parser by an earlier call (not expected, but harmless)
        for x in h.left:
            attrs_of(h.parser)['messages'].append(x)
        h.data = h.int_seq('data', bytes, lo=0, hi=255, mutable=False)
        return [o, h.data], {}

    def ensures(self, h, cfg, a, r):
        log = h.ctx.log
        lock = attrs_of(h.pq)['_parser_lock']
        pq = attrs_of(h.parser)['messages']
        feeds = [e for e in log if e[0] == 'parser.feed']
        touches = [e for e in log if e[0] in ('deque.read', 'deque.popleft', 'deque.append') and e[1] == id(pq)]
        puts = [e for e in log if e[0] == 'queue.put']
        items = pq_items(h)
        return {'parser-fed-exactly-once-with-the-data-given': len(feeds) == 1 and feeds[0][1] == id(h.parser) and feeds[0][2] is h.data,
                'parser-fed-under-the-parser-lock': all(id(lock) in e[3] for e in feeds),
                'parser-queue-only-touched-under-the-parser-lock': all(id(lock) in e[2] for e in touches),
                'messages-handed-over-under-the-parser-lock': all(id(lock) in e[3] for e in puts),
                'everything-parsed-is-queued-in-order-behind-the-earlier-messages': [x.i for x in items] == [0] + [x.i for x in h.left] + [100, 101],
                'parser-queue-drained': len(pq) == 0}


@contract
class ParserQueuePoll(Contract):
    key = 'C05.ParserQueue.poll'
    target = 'mido.backends._parser_queue:ParserQueue.poll'
    properties = ('C05',)
    configs = tuple({'n': n} for n in (0, 1, 2, 3))
    raises = {}

    def inputs(self, h, cfg):
        h.earlier = [Earlier(i) for i in range(cfg['n'])]
        return [parser_queue_obj(h, 'idle', h.earlier)], {}

    def ensures(self, h, cfg, a, r):
        items = pq_items(h)
        if cfg['n'] == 0:
            return {'None-when-empty': r is None, 'unchanged': items == []}
        return {'returns-oldest': r is h.earlier[0], 'rest-in-order': items == h.earlier[1:]}


@contract
class ParserQueueIterpoll(Contract):
    key = 'C05.ParserQueue.iterpoll'
    target = 'mido.backends._parser_queue:ParserQueue.iterpoll'
    properties = ('C05',)
    configs = tuple({'n': n} for n in (0, 1, 2, 3))
    collect = True
    raises = {}

    def inputs(self, h, cfg):
        h.earlier = [Earlier(i) for i in range(cfg['n'])]
        return [parser_queue_obj(h, 'idle', h.earlier)], {}

    def ensures(self, h, cfg, a, r):
        return {'yields-all-in-order': list(r) == h.earlier, 'drained': pq_items(h) == []}


# ====================================================================== construction: empty, idle, UNBOUNDED queues
_NEW = Harness('''
    def do(cls, data):
        if data is None:
            return cls()
        return cls(data)
''')


@contract
class FreshParser(Contract):
    """every other parser/tokenizer contract starts from an object satisfying the representation invariant; this one proves
    that the constructors establish it: idle tokenizer, empty queues - and queues WITHOUT a length bound (a bounded deque
    silently drops the oldest message, which breaks 'pending() equals the number that can still be retrieved')"""
    key = 'C05.fresh-parser'
    target = 'mido.parser:Parser.__init__'
    properties = ('C04', 'C05', 'C06', 'C18', 'C19')
    configs = ({'cls': 'Parser', 'data': None}, {'cls': 'Tokenizer', 'data': None}, {'cls': 'Parser', 'data': 'clock'}, {'cls': 'Tokenizer', 'data': 'clock'},
               {'cls': 'ParserQueue', 'data': None})
    raises = {}
    symbolic_only = True

    def callee(self, h, cfg):
        return _NEW.get(h)

    def setup(self, h, cfg, ip):
        import queue
        import threading
        ip.models.table[queue.Queue] = lambda ipx, *a, **k: queue.Queue(*a, **k)          # concrete arguments only
        ip.models.table[threading.RLock] = lambda ipx, *a, **k: threading.RLock()

    def inputs(self, h, cfg):
        import mido.parser as P
        import mido.tokenizer as T
        import mido.backends._parser_queue as PQ
        cls = {'Parser': P.Parser, 'Tokenizer': T.Tokenizer, 'ParserQueue': PQ.ParserQueue}[cfg['cls']]
        return [cls, None if cfg['data'] is None else [0xF8]], {}

    def ensures(self, h, cfg, a, r):
        ra = attrs_of(r)
        if cfg['cls'] == 'ParserQueue':
            import queue
            import threading
            import mido.parser as P
            q, par, lk = ra.get('_queue'), ra.get('_parser'), ra.get('_parser_lock')
            pa = attrs_of(par) if cls_of(par) is P.Parser else {}
            return {'thread-safe-unbounded-queue': isinstance(q, queue.Queue) and q.maxsize == 0 and q.qsize() == 0,
                    'own-fresh-parser-with-empty-unbounded-queue': cls_of(par) is P.Parser and isinstance(pa.get('messages'), collections.deque)
                    and pa['messages'].maxlen is None and len(pa['messages']) == 0,
                    're-entrant-parser-lock': type(lk) is type(threading.RLock())}
        ta = attrs_of(ra['_tok']) if cfg['cls'] == 'Parser' else ra
        tq = ta.get('_messages')
        out = {'tokenizer-idle': ta.get('_status') == 0 and list(ta.get('_bytes', [None])) == [],
               'tokenizer-queue-is-an-unbounded-deque': isinstance(tq, collections.deque) and tq.maxlen is None}
        n = 0 if cfg['data'] is None else 1
        if cfg['cls'] == 'Parser':
            q = ra.get('messages')
            out['message-queue-is-an-unbounded-deque'] = isinstance(q, collections.deque) and q.maxlen is None
            out['holds-exactly-the-messages-of-the-data-given'] = isinstance(q, collections.deque) and len(q) == n and len(tq) == 0
        else:
            out['holds-exactly-the-tokens-of-the-data-given'] = len(tq) == n
        return out


# ====================================================================== C05: retrieval calls interleaved with each other and with feeding
_INTERLEAVE = Harness('''
    def do(p, how, late):
        out = []
        it = iter(p)
        if how == 'get-inside-iteration':
            out.append(('iter', next(it)))
            out.append(('get', p.get_message()))
            for m in it:
                out.append(('iter', m))
        elif how == 'arrival-during-iteration':
            out.append(('iter', next(it)))
            for x in late:
                p.messages.append(x)              # what a feed() between two next() calls does to the queue
            for m in it:
                out.append(('iter', m))
        elif how == 'two-iterators':
            it2 = iter(p)
            out.append(('iter', next(it)))
            out.append(('iter2', next(it2)))
            for m in it:
                out.append(('iter', m))
            for m in it2:
                out.append(('iter2', m))
        out.append(('pending', p.pending()))
        out.append(('get', p.get_message()))
        return out
''')


@contract
class RetrievalInterleaved(Contract):
    """an open iterator, get_message() and a second iterator share one queue: whatever the interleaving, every message comes out
    exactly once and in FIFO order, an iterator stops (without exception) exactly when nothing is pending at that moment, and
    messages that arrive while it is open are delivered by it"""
    key = 'C05.retrieval-interleaved'
    target = 'mido.parser:Parser.__iter__'
    properties = ('C05',)
    configs = tuple({'how': how, 'n': n, 'late': k} for how in ('get-inside-iteration', 'arrival-during-iteration', 'two-iterators')
                    for n in (1, 2, 3, 4) for k in ((0, 2) if how == 'arrival-during-iteration' else (0,)) if not (how == 'two-iterators' and n < 2))
    raises = {}
    symbolic_only = True

    def callee(self, h, cfg):
        return _INTERLEAVE.get(h)

    def inputs(self, h, cfg):
        import mido.parser as P
        import mido.tokenizer as T
        h.items = [Earlier(i) for i in range(cfg['n'])]
        h.late = [Earlier(100 + i) for i in range(cfg['late'])]
        t = h.obj(T.Tokenizer, {'_status': 0, '_bytes': [], '_messages': collections.deque(), '_datalen': 0})
        h.p = h.obj(P.Parser, {'messages': collections.deque(h.items), '_tok': t})
        return [h.p, cfg['how'], list(h.late)], {}

    def ensures(self, h, cfg, a, r):
        body = r[:-2]
        got = [x for (k, x) in body if x is not None]
        want = h.items + h.late
        nones = [k for (k, x) in body if x is None]
        out = {'every-message-exactly-once-in-fifo-order': len(got) == len(want) and all(x is y for x, y in zip(got, want)),
               'nothing-pending-afterwards': r[-2] == ('pending', 0) and r[-1] == ('get', None),
               'None-only-from-get_message-on-an-empty-queue': nones == (['get'] if (cfg['how'] == 'get-inside-iteration' and cfg['n'] == 1) else [])}
        return out
