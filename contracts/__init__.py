"""Sidecar contracts for mido (nothing here is imported by /repo)."""
from . import spec_midi          # noqa: F401
from . import c_messages         # noqa: F401
from . import b_messages         # noqa: F401
from . import c_state            # noqa: F401
from . import c_parser           # noqa: F401
try:
    from . import l_parser       # noqa: F401  (lemmas need z3; absent on the replay side)
    HAVE_Z3 = True
except ImportError:
    HAVE_Z3 = False
from . import spec_smf           # noqa: F401
from . import c_meta             # noqa: F401
from . import c_frozen           # noqa: F401
from . import c_charset          # noqa: F401
from . import b_charset          # noqa: F401
from . import c_strings          # noqa: F401
from . import b_strings          # noqa: F401
from . import c_tracks           # noqa: F401
if HAVE_Z3:
    from . import l_tracks       # noqa: F401
    from . import l_bits         # noqa: F401
from . import c_midifile         # noqa: F401
from . import b_midifile         # noqa: F401
from . import c_files            # noqa: F401
from . import b_files            # noqa: F401
from . import c_ports            # noqa: F401
from . import b_ports            # noqa: F401
from . import c_syx              # noqa: F401
from . import b_misc             # noqa: F401
from . import b_parser           # noqa: F401
from . import c_backend          # noqa: F401
from . import c_sockets         # noqa: F401
