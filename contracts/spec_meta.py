"""SMF 1.0 meta events: payload layouts and documented attribute domains — the oracle for C09.
Written from the Standard MIDI Files 1.0 specification and docs/meta_message_types.rst; does not import
mido.midifiles.meta.  Dual-mode (z3 terms / Python values)."""
from pyvc.dsl import And, Or, Not, Implies, Ite, All, Ex, eq, at, cat, seq, length, is_z, imod, idiv

# circle of fifths: number of sharps (+) / flats (-)  ->  key name
_MAJOR = {-7: 'Cb', -6: 'Gb', -5: 'Db', -4: 'Ab', -3: 'Eb', -2: 'Bb', -1: 'F', 0: 'C', 1: 'G', 2: 'D', 3: 'A',
          4: 'E', 5: 'B', 6: 'F#', 7: 'C#'}
_MINOR = {-7: 'Abm', -6: 'Ebm', -5: 'Bbm', -4: 'Fm', -3: 'Cm', -2: 'Gm', -1: 'Dm', 0: 'Am', 1: 'Em', 2: 'Bm',
          3: 'F#m', 4: 'C#m', 5: 'G#m', 6: 'D#m', 7: 'A#m'}
KEYS = {}
for _sf, _k in _MAJOR.items():
    KEYS[_k] = (_sf, 0)
for _sf, _k in _MINOR.items():
    KEYS[_k] = (_sf, 1)
assert len(KEYS) == 30

FRAME_RATES = {24: 0, 25: 1, 29.97: 2, 30: 3}      # SMPTE rate code in bits 5-6 of the hour byte

TEXT_TYPES = {'text': (0x01, 'text'), 'copyright': (0x02, 'text'), 'track_name': (0x03, 'name'),
              'instrument_name': (0x04, 'name'), 'lyrics': (0x05, 'text'), 'marker': (0x06, 'text'),
              'cue_marker': (0x07, 'text'), 'device_name': (0x09, 'name')}

# type -> (type byte, [(attribute, kind, lo, hi, default)])
META = {
    'sequence_number': (0x00, [('number', 'int', 0, 65535, 0)]),
    'channel_prefix': (0x20, [('channel', 'int', 0, 255, 0)]),
    'midi_port': (0x21, [('port', 'int', 0, 255, 0)]),
    'end_of_track': (0x2F, []),
    'set_tempo': (0x51, [('tempo', 'int', 0, 16777215, 500000)]),
    'smpte_offset': (0x54, [('frame_rate', 'rate', None, None, 24), ('hours', 'int', 0, 255, 0),
                            ('minutes', 'int', 0, 59, 0), ('seconds', 'int', 0, 59, 0),
                            ('frames', 'int', 0, 255, 0), ('sub_frames', 'int', 0, 99, 0)]),
    'time_signature': (0x58, [('numerator', 'int', 0, 255, 4), ('denominator', 'pow2', 1, 2 ** 255, 4),
                              ('clocks_per_click', 'int', 0, 255, 24),
                              ('notated_32nd_notes_per_beat', 'int', 0, 255, 8)]),
    'key_signature': (0x59, [('key', 'key', None, None, 'C')]),
    'sequencer_specific': (0x7F, [('data', 'bytes', None, None, ())]),
}
for _t, (_tb, _attr) in TEXT_TYPES.items():
    META[_t] = (_tb, [(_attr, 'text', None, None, '')])
ALL_META = tuple(META)
TYPE_BYTES = {v[0]: k for k, v in META.items()}


def attrs_of_type(t):
    return [a[0] for a in META[t][1]]


def in_domain(t, name, v):
    """clause: integer v is inside the documented range of attribute `name` (int attributes only)"""
    for (nm, kind, lo, hi, dflt) in META[t][1]:
        if nm == name:
            assert kind == 'int'
            return And(lo <= v, v <= hi)
    raise KeyError(name)


def payload(t, m, enc_text=None):
    """SMF payload bytes of a meta event (m: attribute -> value; enc_text: function text -> byte sequence)"""
    if t in TEXT_TYPES:
        return enc_text(m[TEXT_TYPES[t][1]])
    if t == 'sequence_number':
        return seq([idiv(m['number'], 256), imod(m['number'], 256)])
    if t == 'channel_prefix':
        return seq([m['channel']])
    if t == 'midi_port':
        return seq([m['port']])
    if t == 'end_of_track':
        return seq([])
    if t == 'set_tempo':
        return seq([idiv(m['tempo'], 65536), imod(idiv(m['tempo'], 256), 256), imod(m['tempo'], 256)])
    if t == 'smpte_offset':
        return seq([FRAME_RATES[m['frame_rate']] * 32 + m['hours'], m['minutes'], m['seconds'], m['frames'], m['sub_frames']])
    if t == 'time_signature':
        return seq([m['numerator'], m['denominator'].bit_length() - 1, m['clocks_per_click'], m['notated_32nd_notes_per_beat']])
    if t == 'key_signature':
        sf, mi = KEYS[m['key']]
        return seq([sf % 256, mi])
    if t == 'sequencer_specific':
        return m['data']
    raise KeyError(t)
