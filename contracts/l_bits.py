"""Bit-level theory lemmas, discharged in bit-vector mode (pure BitVec queries, no Int2BV).

pyvc models Python ints as mathematical integers; `x & (x - 1)` with both operands symbolic has no linear encoding.
The interpreter (interp.bitand) therefore introduces the result r of `x & (x - 1)` for a provably bounded 0 <= x < 2**w as a
fresh integer about which exactly the facts below are known.  For 1 <= x < 2**w Python's `&` and `-` agree with the w-bit
vector operations (no wrap-around); for x == 0 Python gives 0 & -1 == 0 and the w-bit vectors give 0 & 1...1 == 0 as well,
so the lemma over BitVec(w) is the statement about Python ints.
"""
import z3
from pyvc.contract import Lemma, lemma
from pyvc.interp import AND_MINUS_ONE_WIDTHS


@lemma
class AndMinusOne(Lemma):
    name = 'bv.x-and-x-minus-one'
    properties = ('C09',)

    def vcs(self, ctx):
        for w in AND_MINUS_ONE_WIDTHS:
            x = z3.BitVec('x%d' % w, w)
            r = x & (x - 1)
            pow2 = z3.Or([x == 0] + [x == (1 << k) for k in range(w)])
            yield ('zero-iff-zero-or-power-of-two[%d]' % w, [], (r == 0) == pow2)
            yield ('result-not-above-operand[%d]' % w, [], z3.ULE(r, x))
