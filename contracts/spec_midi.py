"""MIDI 1.0 message specification — the oracle for C01..C06.

Written from the MIDI 1.0 Detailed Specification (status byte table, data byte counts, 14-bit
little-endian pitch bend / song position, MTC quarter frame layout) and from the property statements.
It deliberately does NOT import mido.messages.specs: code that disagrees with the standard must fail.

All functions are dual-mode (z3 terms or plain Python values), see pyvc.dsl.
"""
from pyvc.dsl import (And, Or, Not, Implies, Ite, All, Ex, AnyOf, eq, at, cat, seq, length, sub, idiv, imod,
                      is_z, between, empty)

# channel voice messages: status high nibble -> (type, names of the data-byte attributes)
CHANNEL = {
    0x80: ('note_off', ('note', 'velocity')),
    0x90: ('note_on', ('note', 'velocity')),
    0xA0: ('polytouch', ('note', 'value')),
    0xB0: ('control_change', ('control', 'value')),
    0xC0: ('program_change', ('program',)),
    0xD0: ('aftertouch', ('value',)),
    0xE0: ('pitchwheel', ('pitch',)),
}
# system common / real time: status -> (type, attribute names, total length or None for sysex)
SYSTEM = {
    0xF0: ('sysex', ('data',), None),
    0xF1: ('quarter_frame', ('frame_type', 'frame_value'), 2),
    0xF2: ('songpos', ('pos',), 3),
    0xF3: ('song_select', ('song',), 2),
    0xF6: ('tune_request', (), 1),
    0xF8: ('clock', (), 1),
    0xFA: ('start', (), 1),
    0xFB: ('continue', (), 1),
    0xFC: ('stop', (), 1),
    0xFE: ('active_sensing', (), 1),
    0xFF: ('reset', (), 1),
}
REALTIME_STATUS = (0xF8, 0xFA, 0xFB, 0xFC, 0xFE, 0xFF)          # defined real-time status bytes
REALTIME_TYPES = ('clock', 'start', 'continue', 'stop', 'active_sensing', 'reset')

TYPES = {}          # type -> dict(status, names (incl. channel), length, channel: bool)
for _st, (_t, _names) in CHANNEL.items():
    TYPES[_t] = dict(status=_st, names=('channel',) + _names, length=1 + (2 if _t == 'pitchwheel' else len(_names)),
                     channel=True)
for _st, (_t, _names, _ln) in SYSTEM.items():
    TYPES[_t] = dict(status=_st, names=_names, length=_ln, channel=False)
ALL_TYPES = tuple(TYPES)

# documented attribute ranges
RANGES = {
    'channel': (0, 15), 'note': (0, 127), 'velocity': (0, 127), 'value': (0, 127), 'control': (0, 127),
    'program': (0, 127), 'pitch': (-8192, 8191), 'frame_type': (0, 7), 'frame_value': (0, 15),
    'pos': (0, 16383), 'song': (0, 127),
}
DEFAULTS = {'channel': 0, 'note': 0, 'velocity': 64, 'value': 0, 'control': 0, 'program': 0, 'pitch': 0,
            'frame_type': 0, 'frame_value': 0, 'pos': 0, 'song': 0, 'data': (), 'time': 0}

SYSEX_LEN = -2
UNDEFINED = -1


def status_len(st):
    """total message length for a status byte; SYSEX_LEN for 0xF0; UNDEFINED otherwise (incl. data bytes,
    0xF4, 0xF5, 0xF7, 0xF9, 0xFD and anything outside 0..255)"""
    if is_z(st):
        e = UNDEFINED
        for base, (t, names) in CHANNEL.items():
            e = Ite(And(base <= st, st < base + 16), TYPES[t]['length'], e)
        for k, (t, names, ln) in SYSTEM.items():
            e = Ite(st == k, SYSEX_LEN if ln is None else ln, e)
        return e
    if not isinstance(st, int):
        return UNDEFINED
    if 0x80 <= st < 0xF0:
        return TYPES[CHANNEL[st & 0xF0][0]]['length']
    if st in SYSTEM:
        ln = SYSTEM[st][2]
        return SYSEX_LEN if ln is None else ln
    return UNDEFINED


def status_type(st):
    """concrete status byte -> type name (None if undefined)"""
    if 0x80 <= st < 0xF0:
        return CHANNEL[st & 0xF0][0]
    if st in SYSTEM:
        return SYSTEM[st][0]
    return None


def data_byte(x):
    return And(0 <= x, x <= 127)


def wellformed(b):
    """clauses: b is exactly one complete, well-formed MIDI message"""
    n = length(b)
    if is_z(b):
        st = at(b, 0)
        ln = status_len(st)
        return [n >= 1, ln != UNDEFINED,
                Ite(st == 0xF0, And(n >= 2, at(b, n - 1) == 0xF7), n == ln),
                All(1, Ite(st == 0xF0, n - 1, n), lambda k: data_byte(at(b, k)))]
    if n < 1:
        return [False]
    if not all(isinstance(x, int) for x in b):
        return [False]
    st = b[0]
    ln = status_len(st)
    if ln == UNDEFINED:
        return [False]
    if st == 0xF0:
        return [n >= 2 and b[-1] == 0xF7 and all(0 <= x <= 127 for x in b[1:-1])]
    return [n == ln and all(0 <= x <= 127 for x in b[1:])]


def not_wellformed(b):
    """clause: negation of wellformed(b) (with an explicit witness position for a bad data byte)"""
    n = length(b)
    if is_z(b):
        st = at(b, 0)
        ln = status_len(st)
        hi = Ite(st == 0xF0, n - 1, n)
        return AnyOf([Or(n < 1, ln == UNDEFINED,
                         And(st == 0xF0, Or(n < 2, at(b, n - 1) != 0xF7)),
                         And(st != 0xF0, n != ln)),
                      Ex(1, hi, lambda k: Not(data_byte(at(b, k))))])
    from pyvc.dsl import holds
    return not holds(wellformed(b))


def valid_attr(name, v):
    lo, hi = RANGES[name]
    return And(lo <= v, v <= hi)


def valid_data(d):
    return All(0, length(d), lambda k: data_byte(at(d, k)))


def spec_encode(type_, m):
    """the MIDI 1.0 byte encoding of a message given as type + mapping attribute -> value"""
    info = TYPES[type_]
    st = info['status']
    if info['channel']:
        first = st + m['channel']
        if type_ == 'pitchwheel':
            p = m['pitch'] + 8192
            return seq([first, imod(p, 128), idiv(p, 128)])
        return seq([first] + [m[nm] for nm in info['names'][1:]])
    if type_ == 'sysex':
        return cat(seq([0xF0]), m['data'], seq([0xF7]))
    if type_ == 'quarter_frame':
        return seq([st, m['frame_type'] * 16 + m['frame_value']])
    if type_ == 'songpos':
        return seq([st, imod(m['pos'], 128), idiv(m['pos'], 128)])
    if type_ == 'song_select':
        return seq([st, m['song']])
    return seq([st])


def spec_length(type_, m):
    info = TYPES[type_]
    if type_ == 'sysex':
        return 2 + length(m['data'])
    return info['length']


def valid_message(type_, m):
    """clauses: every attribute is inside its documented range (time is not constrained here)"""
    info = TYPES[type_]
    out = []
    for nm in info['names']:
        if nm == 'data':
            out.append(valid_data(m['data']))
        else:
            out.append(valid_attr(nm, m[nm]))
    return out
