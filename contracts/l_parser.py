"""Lemmas over the tokenizer step specification (C04: nothing invented / duplicated / reordered).

The step contract of Tokenizer.feed_byte (c_parser.TokFeedByte, proved on the real code) says how the
"kept bytes"  K = flat(non-real-time tokens emitted so far) ++ cur  evolve with one input byte b:
      b < 0xF8 :  K' in { K ++ [b],  K,  flat,  flat ++ [b] }          (kept / dropped / reset / reset+kept)
      b >= 0xF8:  K' in { K, flat }                                     (real-time bytes never enter K)
The lemma below shows that each alternative preserves   Sublist(K, input)   when the input grows by b, so by
induction over the input  K  is always a subsequence of the bytes consumed -- which is the C04 clause.
`Sublist` is an uninterpreted predicate; the only facts used about it are the four axioms A0..A3, which are
proved from Mathlib's List.Sublist in /verif/lean/ListTheory.lean (checked in the thorough tier).
"""
import z3
from pyvc.contract import Lemma, lemma

IntSeq = z3.SeqSort(z3.IntSort())
Sublist = z3.Function('Sublist', IntSeq, IntSeq, z3.BoolSort())


def unit(b):
    return z3.Unit(b)


def A1(x, y, b):      # append-right
    return z3.Implies(Sublist(x, y), Sublist(x, z3.Concat(y, unit(b))))


def A2(x, y, b):      # append-both
    return z3.Implies(Sublist(x, y), Sublist(z3.Concat(x, unit(b)), z3.Concat(y, unit(b))))


def A3(x, z, y):      # drop-suffix
    return z3.Implies(Sublist(z3.Concat(x, z), y), Sublist(x, y))


def A0(y):
    return Sublist(z3.Empty(IntSeq), y)


@lemma
class KeptBytesAreASubsequence(Lemma):
    name = 'C04.kept-bytes-subsequence-step'
    properties = ('C04',)

    def vcs(self, ctx):
        flat, cur, inp = z3.Consts('flat cur inp', IntSeq)
        b = z3.Int('b')
        K = z3.Concat(flat, cur)
        inp2 = z3.Concat(inp, unit(b))
        IH = Sublist(K, inp)
        # the four alternatives of the step contract (and the two of the real-time case, which are among them)
        yield ('kept', [IH, A2(K, inp, b)], Sublist(z3.Concat(K, unit(b)), inp2))
        yield ('kept-assoc', [IH, A2(K, inp, b)], Sublist(z3.Concat(flat, z3.Concat(cur, unit(b))), inp2))
        yield ('dropped', [IH, A1(K, inp, b)], Sublist(K, inp2))
        yield ('reset', [IH, A3(flat, cur, inp), A1(flat, inp, b)], Sublist(flat, inp2))
        yield ('reset-kept', [IH, A3(flat, cur, inp), A2(flat, inp, b)], Sublist(z3.Concat(flat, unit(b)), inp2))
        yield ('base', [A0(z3.Empty(IntSeq))], Sublist(z3.Concat(z3.Empty(IntSeq), z3.Empty(IntSeq)), z3.Empty(IntSeq)))
        # a completed token moves from cur to flat without changing K:  (flat ++ tok) ++ cur' == flat ++ (tok ++ cur')
        tok, cur1 = z3.Consts('tok cur1', IntSeq)
        yield ('emission-keeps-K', [], z3.Concat(z3.Concat(flat, tok), cur1) == z3.Concat(flat, z3.Concat(tok, cur1)))


@lemma
class RealTimeOneToOne(Lemma):
    """rts = bytes of the real-time tokens emitted so far.  Step contract: a token [b] is emitted iff b is a defined
    real-time byte, and it is the only token of that step.  With RT(inp) defined by
    RT([]) = [], RT(inp ++ [b]) = RT(inp) ++ ([b] if defined_rt(b) else []) the invariant rts == RT(inp) is preserved."""
    name = 'C04.realtime-one-to-one-step'
    properties = ('C04',)

    def vcs(self, ctx):
        RT = z3.Function('RT', IntSeq, IntSeq)
        rts, inp = z3.Consts('rts inp', IntSeq)
        b = z3.Int('b')
        drt = z3.Or([b == v for v in (0xF8, 0xFA, 0xFB, 0xFC, 0xFE, 0xFF)])
        inp2 = z3.Concat(inp, unit(b))
        defn = RT(inp2) == z3.If(drt, z3.Concat(RT(inp), unit(b)), RT(inp))
        yield ('defined-rt-byte', [rts == RT(inp), defn, drt], z3.Concat(rts, unit(b)) == RT(inp2))
        yield ('other-byte', [rts == RT(inp), defn, z3.Not(drt)], rts == RT(inp2))
