"""C18 — socket ports (mido/sockets.py).

The operating system side is an ASSUMED device contract (SockModel / SockFile below):
  * the peer's byte stream is an arbitrary byte sequence `stream`; the reader stands at an arbitrary position pos0 in it;
  * select() may report "readable" only if a byte is left or the peer has gone (spurious "not readable" is allowed at any
    time: that is how every segmentation of the stream shows up at the receiver);
  * read(1) on the unbuffered file returns the next byte, or b'' when the stream is exhausted and the peer has gone, or
    raises OSError(errno, text) (configuration);
  * the connection is released (and the peer sees EOF) once the socket AND the two makefile() objects are closed.
The real SocketPort.__init__/_receive/_send/_close, BasePort.close, PortServer.accept/_update_ports/_receive/_send and
format_address/parse_address are executed symbolically against it.  The parser is abstract here: Parser.feed_byte is
logged (ghost sequence `fed`); that the parser turns the fed bytes into exactly the complete messages is C04-C06.
"""
import collections

from pyvc.contract import Contract, contract, LoopSpec, V, attrs_of, cls_of, Harness, raw_function
from pyvc.dsl import And, Or, Not, Implies, eq, All, length, at

try:
    import z3
    from pyvc.values import SInt, SBool, SStr, SSeq, Cell, Obj, PyRaise, Unsupported, Opaque, IntSeq
    from .c_parser import LockModel
except ImportError:
    z3 = None

S = 'mido.sockets:'
P = 'mido.ports:'


def _held(ip):
    return tuple(id(l) for l in ip.ctx.held)


class SockFile:
    """file object made by socket.makefile(mode, buffering=0)"""
    _pyvc_model = True

    def read(ip, self, n=-1):
        h = ip.ctx.h
        ip.ctx.event('rfile.read', n)
        ip.ctx.oblige('C18.read-only-after-select-said-readable (a read on an idle connection would block)', h.last_readable)
        ip.ctx.oblige('C18.reads-one-byte-at-a-time (select only promises one byte; asking for more can block mid-message)', n == 1)
        ip.ctx.oblige('C18.read-on-open-file', self.attrs['closed'] is False and self.attrs['mode'] == 'rb')
        h.last_readable = z3.BoolVal(False)
        if h.read_error is not None:
            if ip.ctx.fork(2) == 1:
                raise PyRaise(OSError, h.read_error)
        L = z3.Length(h.stream)
        if ip.ctx.branch(h.pos < L):
            b = SSeq(z3.Unit(h.stream[h.pos]), bytes)
            np_ = ip.ctx.fresh('pos')
            ip.ctx.assume(np_ == h.pos + 1)
            h.pos = np_
            return b
        h.eof_reads += 1
        return b''
    read._pyvc_native = True

    def write(ip, self, data):
        h = ip.ctx.h
        ip.ctx.event('wfile.write', data, _held(ip))
        if h.write_error is not None and h.write_error[0] == 'write':
            raise PyRaise(OSError, h.write_error[1])
        return None
    write._pyvc_native = True

    def flush(ip, self):
        h = ip.ctx.h
        ip.ctx.event('wfile.flush', _held(ip))
        if h.write_error is not None and h.write_error[0] == 'flush':
            raise PyRaise(OSError, h.write_error[1])
        return None
    flush._pyvc_native = True

    def close(ip, self):
        ip.ctx.event('file.close', self.attrs['mode'])
        self.attrs['closed'] = True
        return None
    close._pyvc_native = True


class SockModel:
    _pyvc_model = True

    def fileno(ip, self):
        return 7
    fileno._pyvc_native = True

    def makefile(ip, self, mode='r', **kw):
        f = Obj(SockFile, {'mode': mode, 'buffering': kw.get('buffering'), 'sock': self, 'closed': False})
        self.attrs.setdefault('files', []).append(f)
        ip.ctx.event('makefile', mode, kw.get('buffering'))
        return f
    makefile._pyvc_native = True

    def close(ip, self):
        ip.ctx.event('sock.close', id(self))
        self.attrs['closed'] = True
        return None
    close._pyvc_native = True

    def accept(ip, self):
        h = ip.ctx.h
        ip.ctx.event('accept')
        if not h.may_block:
            ip.ctx.oblige('C18.accept-only-when-a-connection-is-waiting (otherwise it blocks forever)', h.last_readable)
        h.last_readable = z3.BoolVal(False)
        conn = Obj(SockModel, {'closed': False})
        h.accepted.append(conn)
        return (conn, (h.peer_host, h.peer_port))
    accept._pyvc_native = True


def _sock_recorder(name):
    def f(ip, self, *args, **kw):
        ip.ctx.event('sock.' + name, id(self), args)
        return None
    f._pyvc_native = True
    return f


for _nm in ('setsockopt', 'setblocking', 'bind', 'listen', 'connect'):
    setattr(SockModel, _nm, _sock_recorder(_nm))


def released(sock):
    """the connection is released <=> socket and all file objects made from it are closed (ASSUMED OS semantics)"""
    return sock.attrs['closed'] is True and all(f.attrs['closed'] is True for f in sock.attrs.get('files', []))


def is_readable_hook(ip, args, kwargs):
    h = ip.ctx.h
    sock = args[0]
    ip.ctx.event('select', id(sock))
    ip.ctx.oblige('C18.no-select-on-a-closed-socket (it raises ValueError)', sock.attrs['closed'] is False)
    r = ip.ctx.fresh('readable', z3.BoolSort())
    if sock is getattr(h, 'listener', None):
        pass                            # a connection may or may not be waiting
    else:
        ip.ctx.assume(z3.Implies(r, z3.Or(h.pos < z3.Length(h.stream), h.peer_gone)))
    h.last_readable = r
    return SBool(r)


def feed_byte_hook(ip, args, kwargs):
    h = ip.ctx.h
    b = args[1]
    ip.ctx.event('feed_byte')
    nf = ip.ctx.fresh('fed', IntSeq)
    bz = b.e if isinstance(b, SInt) else z3.IntVal(b)
    old = h.fed
    # nf == old ++ [b], stated pointwise (extensional sequence equalities are what the solvers are slow on)
    ip.ctx.assume([z3.Length(nf) == z3.Length(old) + 1, nf[z3.Length(old)] == bz, All(0, z3.Length(old), lambda k: nf[k] == old[k])])
    h.fed = nf
    return None


def socket_port(h, closed=False):
    import mido.sockets as MS
    h.lock = Obj(LockModel, {})
    h.sock = Obj(SockModel, {'closed': closed})
    h.rfile = Obj(SockFile, {'mode': 'rb', 'buffering': 0, 'sock': h.sock, 'closed': closed})
    h.wfile = Obj(SockFile, {'mode': 'wb', 'buffering': 0, 'sock': h.sock, 'closed': closed})
    h.sock.attrs['files'] = [h.rfile, h.wfile]
    h.queue = collections.deque()
    h.parser = Obj(_parser_cls(), {'messages': h.queue})
    h.port = Obj(MS.SocketPort, {'name': 'host:1', '_lock': h.lock, 'closed': closed, 'autoreset': False, '_messages': h.queue,
                                 '_parser': h.parser, '_socket': h.sock, '_rfile': h.rfile, '_wfile': h.wfile})
    return h.port


def _parser_cls():
    import mido.parser as MP
    return MP.Parser


def stream_state(h):
    if h.sym:
        h.stream = V(h.int_seq('stream', bytes, lo=0, hi=255, mutable=False))
        h.fed0 = V(h.int_seq('fed_before', list, lo=0, hi=255, mutable=False))
        h.pos0 = V(h.int('pos'))
        h.assume(And(h.pos0 >= 0, h.pos0 <= z3.Length(h.stream)))
        h.peer_gone = V(h.bool('peer_gone'))
    h.pos, h.fed = h.pos0, h.fed0
    h.last_readable = z3.BoolVal(False)
    h.eof_reads = 0


def fed_is(h, fed, pos):
    """fed == fed0 ++ stream[pos0:pos]   (pointwise)"""
    n0 = z3.Length(h.fed0)
    return [z3.Length(fed) == n0 + pos - h.pos0,
            All(0, n0, lambda k: fed[k] == h.fed0[k]),
            All(0, pos - h.pos0, lambda k: fed[n0 + k] == h.stream[h.pos0 + k])]


# ====================================================================== SocketPort._receive
class _ReadLoop(LoopSpec):
    """while _is_readable(sock): every byte read is fed to the parser, in stream order, exactly once; the loop only goes
    round while the port is open"""
    header = '_is_readable(self._socket)'

    def havoc(self, ip, fr, st):
        h = ip.ctx.h
        h.pos = ip.ctx.fresh('pos')
        h.fed = ip.ctx.fresh('fed', IntSeq)
        h.last_readable = z3.BoolVal(False)
        st.n0 = len(ip.ctx.log)

    def inv(self, ip, fr, st):
        h = ip.ctx.h
        return [h.pos0 <= h.pos, h.pos <= z3.Length(h.stream)] + fed_is(h, h.fed, h.pos) + \
               [attrs_of(h.port)['closed'] is False, h.eof_reads == 0, not released(h.sock)]

    def step(self, ip, fr, st):
        ev = ip.ctx.log[st.n0:]
        ip.ctx.oblige('C18._receive.one-read-and-one-feed-per-iteration',
                      [e[0] for e in ev if e[0] in ('rfile.read', 'feed_byte')] == ['rfile.read', 'feed_byte'])


_RECV = Harness('''
    def do(p):
        return p._receive(block=False)
''')


@contract
class SocketReceive(Contract):
    key = 'C18.SocketPort._receive'
    target = S + 'SocketPort._receive'
    properties = ('C18',)
    configs = ({'read_error': None}, {'read_error': 'reset'})
    loops = {(S + 'SocketPort._receive', 0): _ReadLoop()}
    raises = {OSError: 'device_error'}
    symbolic_only = True

    def callee(self, h, cfg):
        return _RECV.get(h)

    def hooks(self, cfg):
        return {raw_function(S + '_is_readable'): is_readable_hook, raw_function('mido.parser:Parser.feed_byte'): feed_byte_hook}

    def inputs(self, h, cfg):
        stream_state(h)
        h.read_error = {None: None, 'reset': (104, 'Connection reset by peer'), 'one-arg': ('boom',)}[cfg['read_error']]
        h.write_error = None
        return [socket_port(h)], {}

    def device_error(self, h, cfg, a, exc):
        # an OSError only comes from the device (and is re-raised with its text)
        return cfg['read_error'] is not None

    def ensures(self, h, cfg, a, r):
        pa = attrs_of(h.port)
        closed = pa['closed'] is True
        out = {'returns-None': r is None,
               'parser-was-fed-exactly-the-bytes-read-in-stream-order': And(*fed_is(h, h.fed, h.pos)),
               'position-stays-inside-the-stream': And(h.pos0 <= h.pos, h.pos <= z3.Length(h.stream)),
               'port-closes-iff-end-of-stream-was-read': closed == (h.eof_reads == 1),
               'closed-port-releases-the-connection (socket and both file objects)': closed == released(h.sock),
               'nothing-is-read-after-end-of-stream': h.eof_reads <= 1,
               'queue-object-untouched-here (only the parser appends to it)': pa['_messages'] is h.queue and attrs_of(h.parser)['messages'] is h.queue}
        if closed:
            out['end-of-stream-only-when-every-byte-was-delivered-and-the-peer-has-gone'] = And(h.pos == z3.Length(h.stream), h.peer_gone)
        return out


# ====================================================================== SocketPort._send / close / __init__
_SEND = Harness('''
    def do(p, msg):
        return p._send(msg)
''')


def bin_hook(ip, args, kwargs):
    h = ip.ctx.h
    ip.ctx.event('bin', id(args[0]))
    return h.wire


@contract
class SocketSend(Contract):
    key = 'C18.SocketPort._send'
    target = S + 'SocketPort._send'
    properties = ('C18',)
    configs = tuple({'fail': f, 'errno': e} for f in (None, 'write', 'flush') for e in (32, 104) if f or e == 32)
    raises = {OSError: 'device_error'}
    symbolic_only = True

    def callee(self, h, cfg):
        return _SEND.get(h)

    def hooks(self, cfg):
        return {raw_function('mido.messages.messages:BaseMessage.bin'): bin_hook}

    def inputs(self, h, cfg):
        import mido.messages.messages as MM
        stream_state(h)
        h.read_error = None
        h.write_error = (cfg['fail'], (cfg['errno'], 'device says no')) if cfg['fail'] else None
        h.wire = h.int_seq('wire', bytes, lo=0, hi=255, mutable=False) if h.sym else b''
        h.msg = Obj(MM.Message, {'type': 'clock', 'time': 0})
        return [socket_port(h), h.msg], {}

    def device_error(self, h, cfg, a, exc):
        return cfg['fail'] is not None

    def ensures(self, h, cfg, a, r):
        ev = [e for e in h.ctx.log if e[0] in ('wfile.write', 'wfile.flush')]
        closed = attrs_of(h.port)['closed'] is True
        out = {}
        if cfg['fail'] is None:
            out['writes-the-encoding-once-then-flushes'] = [e[0] for e in ev] == ['wfile.write', 'wfile.flush'] and ev[0][1] is h.wire
            out['stays-open'] = not closed
        out['broken-pipe-closes-the-port-and-releases-the-connection'] = closed == (cfg['fail'] is not None and cfg['errno'] == 32) and released(h.sock) == closed
        return out


_CLOSE = Harness('''
    def do(p):
        p.close()
        p.close()
''')


@contract
class SocketClose(Contract):
    key = 'C18.SocketPort.close'
    target = S + 'SocketPort._close'
    properties = ('C18',)
    configs = ({'files': True}, {'files': False})
    raises = {}
    symbolic_only = True

    def callee(self, h, cfg):
        return _CLOSE.get(h)

    def inputs(self, h, cfg):
        stream_state(h)
        h.read_error = h.write_error = None
        p = socket_port(h)
        if not cfg['files']:        # connecting failed before the file objects were made
            del p.attrs['_rfile'], p.attrs['_wfile']
            h.sock.attrs['files'] = []
        return [p], {}

    def ensures(self, h, cfg, a, r):
        ev = [e for e in h.ctx.log if e[0] in ('sock.close', 'file.close')]
        want = [('file.close', 'rb'), ('file.close', 'wb')] if cfg['files'] else []
        return {'port-reports-closed': attrs_of(h.port)['closed'] is True,
                'connection-released: socket and every file object made from it are closed, so the peer sees the disconnect': released(h.sock),
                'each-closed-exactly-once': sorted((e[0], e[1]) for e in ev if e[0] == 'file.close') == want and len([e for e in ev if e[0] == 'sock.close']) == 1}


_INIT = Harness('''
    def do(SocketPort, host, portno, conn):
        return SocketPort(host, portno, conn=conn)
''')


@contract
class SocketInit(Contract):
    key = 'C18.SocketPort.__init__'
    target = S + 'SocketPort.__init__'
    properties = ('C18',)
    configs = ({},)
    raises = {}
    symbolic_only = True

    def callee(self, h, cfg):
        return _INIT.get(h)

    def inputs(self, h, cfg):
        import mido.sockets as MS
        h.conn = Obj(SockModel, {'closed': False})
        h.host = h.str('host')
        h.portno = h.int('portno')
        h.assume(And(V(h.portno) > 0, V(h.portno) < 65536))
        return [MS.SocketPort, h.host, h.portno, h.conn], {}

    def ensures(self, h, cfg, a, r):
        pa = attrs_of(r)
        files = h.conn.attrs.get('files', [])
        return {'uses-the-given-connection': pa['_socket'] is h.conn,
                'open': pa['closed'] is False,
                'queue-is-the-parser-queue (what the parser completes is what receive() hands out)': pa['_messages'] is attrs_of(pa['_parser'])['messages'],
                'queue-starts-empty': len(pa['_messages']) == 0,
                'unbuffered-binary-reader-and-writer-on-the-connection': len(files) == 2 and pa['_rfile'] is files[0] and pa['_wfile'] is files[1]
                and (files[0].attrs['mode'], files[0].attrs['buffering'], files[1].attrs['mode'], files[1].attrs['buffering']) == ('rb', 0, 'wb', 0),
                'name-is-the-address': eq(V(pa['name']), z3.Concat(V(h.host), z3.StringVal(':'), z3.IntToStr(V(h.portno))))}


# ====================================================================== PortServer
def multiport_receive_hook(ip, args, kwargs):
    h = ip.ctx.h
    ip.ctx.event('MultiPort._receive', list(attrs_of(args[0])['ports']), dict(kwargs), len(args))
    return None


def multiport_send_hook(ip, args, kwargs):
    ip.ctx.event('MultiPort._send', list(attrs_of(args[0])['ports']))
    return None


_SRV = Harness('''
    def do(srv, op, block):
        if op == 'receive':
            return srv._receive(block=block)
        if op == 'send':
            return srv._send(None)
        return srv.accept(block=block)
''')


def _client(h, i, closed):
    import mido.sockets as MS
    s = Obj(SockModel, {'closed': closed, 'files': []})
    return Obj(MS.SocketPort, {'name': 'client%d' % i, 'closed': closed, '_socket': s, '_messages': collections.deque(), '_lock': Obj(LockModel, {})})


@contract
class ServerOps(Contract):
    key = 'C18.PortServer'
    target = S + 'PortServer._receive'
    properties = ('C18', 'C11')      # C11: a blocking receive on ANY port type returns as soon as a message is deliverable
    configs = tuple({'op': op, 'block': b, 'clients': c} for op in ('receive', 'send', 'accept') for b in (False, True)
                    for c in ('', 'o', 'c', 'oc', 'coc', 'ooo') if not (op == 'send' and b))
    raises = {}
    symbolic_only = True

    def callee(self, h, cfg):
        return _SRV.get(h)

    def hooks(self, cfg):
        return {raw_function(S + '_is_readable'): is_readable_hook, raw_function(P + 'MultiPort._receive'): multiport_receive_hook,
                raw_function(P + 'MultiPort._send'): multiport_send_hook}

    def inputs(self, h, cfg):
        import mido.sockets as MS
        stream_state(h)
        h.read_error = h.write_error = None
        h.listener = Obj(SockModel, {'closed': False})
        h.accepted = []
        h.may_block = cfg['op'] == 'accept' and cfg['block']      # accept(block=True) is documented to wait for a connection
        h.peer_host = h.str('peer_host')
        h.peer_port = h.int('peer_port')
        h.assume(And(V(h.peer_port) > 0, V(h.peer_port) < 65536))
        h.clients = [_client(h, i, c == 'c') for i, c in enumerate(cfg['clients'])]
        h.srv = Obj(MS.PortServer, {'name': 'srv', 'closed': False, '_socket': h.listener, 'ports': list(h.clients),
                                    '_messages': collections.deque(), '_lock': Obj(LockModel, {})})
        return [h.srv, cfg['op'], cfg['block']], {}

    def ensures(self, h, cfg, a, r):
        log = h.ctx.log
        accepts = [e for e in log if e[0] == 'accept']
        selects = [e for e in log if e[0] == 'select']
        ports = attrs_of(h.srv)['ports']
        open_clients = [c for c in h.clients if c.attrs['closed'] is False]
        out = {}
        if cfg['op'] == 'receive':
            calls = [e for e in log if e[0] == 'MultiPort._receive']
            out['polls-the-listener-without-blocking (both values of block)'] = len(selects) == 1 and len(accepts) <= 1
            out['hands-every-open-client-and-the-new-one-to-MultiPort._receive-once'] = len(calls) == 1 and _same_objs(calls[0][1], open_clients + _new_ports(h, ports))
            out['closed-clients-are-dropped'] = _same_objs(ports, open_clients + _new_ports(h, ports))
        elif cfg['op'] == 'send':
            calls = [e for e in log if e[0] == 'MultiPort._send']
            out['sends-to-the-open-clients-only'] = len(calls) == 1 and _same_objs(calls[0][1], open_clients)
            out['never-touches-the-listener'] = not selects and not accepts
        else:
            out['non-blocking-accept-returns-None-unless-a-connection-waits'] = cfg['block'] or (r is None) == (len(accepts) == 0)
            if r is not None:
                ra = attrs_of(r)
                out['accepted-port-wraps-the-new-connection'] = len(h.accepted) == 1 and ra['_socket'] is h.accepted[0] and ra['closed'] is False
                out['accepted-port-is-named-after-the-peer-address'] = eq(V(ra['name']), z3.Concat(V(h.peer_host), z3.StringVal(':'), z3.IntToStr(V(h.peer_port))))
        return out


def _new_ports(h, ports):
    return [p for p in ports if not any(p is c for c in h.clients)]


def _same_objs(a, b):
    return len(a) == len(b) and all(x is y for x, y in zip(a, b))


# ====================================================================== addresses
_ADDR = Harness('''
    def do(format_address, parse_address, host, portno):
        return parse_address(format_address(host, portno))
''')


@contract
class AddressRoundTrip(Contract):
    key = 'C18.address'
    target = S + 'parse_address'
    properties = ('C18',)
    configs = ({},)
    raises = {}
    symbolic_only = True
    solver = 'cvc5'
    feas_timeout_ms = 1500
    models_used = ('str.split (at most one separator decided, more -> len >= 3)', 'int(str) for canonical decimal digits')

    def callee(self, h, cfg):
        return _ADDR.get(h)

    def inputs(self, h, cfg):
        import mido.sockets as MS
        h.host = h.str('host')
        h.portno = h.int('portno')
        h.assume(And(V(h.portno) > 0, V(h.portno) < 65536, Not(z3.Contains(V(h.host), z3.StringVal(':')))))
        return [MS.format_address, MS.parse_address, h.host, h.portno], {}

    def ensures(self, h, cfg, a, r):
        return {'parse(format(host, port)) == (host, port)': len(r) == 2 and And(eq(V(r[0]), V(h.host)), eq(V(r[1]), V(h.portno)))}


# ====================================================================== construction of servers and clients
_MAKE = Harness('''
    def do(what, PortServer, connect, host, portno):
        if what == 'server':
            return PortServer(host, portno)
        if what == 'server-backlog':
            return PortServer(host, portno, backlog=5)
        return connect(host, portno)
''')


@contract
class SocketConstruction(Contract):
    """PortServer(host, port[, backlog]) and connect(host, port): a TCP stream socket is created, the server binds to exactly the
    address given and listens (address reuse on), the client connects to exactly the address given; the port is open, named
    after the address, a server starts without client ports, a client reads/writes through unbuffered binary files on ITS socket"""
    key = 'C18.construction'
    target = S + 'PortServer.__init__'
    properties = ('C18',)
    configs = ({'what': 'server'}, {'what': 'server-backlog'}, {'what': 'client'})
    raises = {}
    symbolic_only = True

    def callee(self, h, cfg):
        return _MAKE.get(h)

    def setup(self, h, cfg, ip):
        import socket
        import threading
        h.socks = []

        def make(ipx, *args, **kw):
            o = Obj(SockModel, {'closed': False, 'family': args})
            h.socks.append(o)
            return o
        ip.models.table[socket.socket] = make
        ip.models.table[threading.RLock] = lambda ipx, *a, **k: Obj(LockModel, {})

    def inputs(self, h, cfg):
        import mido.sockets as MS
        h.host = h.str('host')
        h.portno = h.int('portno')
        h.assume(And(V(h.portno) > 0, V(h.portno) < 65536))
        return [cfg['what'], MS.PortServer, MS.connect, h.host, h.portno], {}

    def ensures(self, h, cfg, a, r):
        import socket
        import mido.sockets as MS
        ra = attrs_of(r)
        log = h.ctx.log
        name_ok = eq(V(ra['name']), z3.Concat(V(h.host), z3.StringVal(':'), z3.IntToStr(V(h.portno))))
        out = {'one-TCP-stream-socket': len(h.socks) == 1 and h.socks[0].attrs['family'] == (socket.AF_INET, socket.SOCK_STREAM) and ra.get('_socket') is h.socks[0],
               'open': ra.get('closed') is False}
        if cfg['what'] == 'client':
            out['named-after-the-address'] = name_ok          # (a server port is simply called 'multi': not part of the property)
        if len(h.socks) != 1:
            return out

        def calls(nm):
            return [e[2] for e in log if e[0] == 'sock.' + nm and e[1] == id(h.socks[0])]

        def addr_is(args):
            if not (len(args) == 1 and isinstance(args[0], tuple) and len(args[0]) == 2):
                return False
            return And(eq(V(args[0][0]), V(h.host)), eq(V(args[0][1]), V(h.portno)))
        if cfg['what'] == 'client':
            out['class'] = cls_of(r) is MS.SocketPort
            out['connects-once-to-exactly-the-address-given'] = And(len(calls('connect')) == 1 and not calls('bind') and not calls('listen'),
                                                                    addr_is(calls('connect')[0]) if calls('connect') else False)
            files = h.socks[0].attrs.get('files', [])
            out['unbuffered-binary-reader-and-writer-on-its-socket'] = len(files) == 2 and ra.get('_rfile') is files[0] and ra.get('_wfile') is files[1] \
                and (files[0].attrs['mode'], files[0].attrs['buffering'], files[1].attrs['mode'], files[1].attrs['buffering']) == ('rb', 0, 'wb', 0)
            out['queue-is-the-parser-queue'] = ra.get('_messages') is attrs_of(ra['_parser'])['messages']
        else:
            out['class'] = cls_of(r) is MS.PortServer
            order = [e[0] for e in log if e[0] in ('sock.bind', 'sock.listen') and e[1] == id(h.socks[0])]
            out['binds-to-exactly-the-address-given-then-listens'] = And(order == ['sock.bind', 'sock.listen'] and not calls('connect'),
                                                                         addr_is(calls('bind')[0]) if calls('bind') else False)
            out['backlog'] = calls('listen')[0] == ((5,) if cfg['what'] == 'server-backlog' else (1,)) if calls('listen') else False
            out['address-reuse-switched-on'] = (socket.SOL_SOCKET, socket.SO_REUSEADDR, True) in calls('setsockopt')
            out['starts-without-client-ports'] = isinstance(ra.get('ports'), list) and len(ra['ports']) == 0
        return out
