"""Bounded stand-in for C10 on the real code with real threads (schedules are sampled, not enumerated; never counted as proved)."""
import random
import sys
import threading
import time

from pyvc.contract import bounded


@bounded('threads-exactly-once', ('C10',), 'ports: a lock-protected device double, EchoPort, MultiPort over two echo ports; 1-3 sender threads x 200 messages each, '
         '1-2 receiver threads using receive/poll/iter_pending; sys.setswitchinterval(1e-6); 12 (60 thorough) runs per port type with seeded start jitter')
def threads_exactly_once(tier, seed, only=None):
    import mido
    import mido.ports as MP

    class Device(MP.BaseIOPort):
        """device double: _send hands the message to an internal wire, _receive takes one from it (both under the port lock,
        as BaseOutput.send / BaseInput.receive guarantee)"""
        def _open(self, **kw):
            self.wire = []

        def _send(self, msg):
            self.wire.append(msg)

        def _receive(self, block=True):
            if self.wire:
                return self.wire.pop(0)

    rng = random.Random(seed)
    fails, n, seen = [], 0, set()
    old = sys.getswitchinterval()
    sys.setswitchinterval(1e-6)
    try:
        for kind in ('device', 'echo', 'multi'):
            for run in range(12 if tier == 'quick' else 60):
                nsend = rng.choice([1, 2, 3])
                nrecv = rng.choice([1, 2])
                per = 200
                if kind == 'device':
                    port = Device()
                    send_port = port
                elif kind == 'echo':
                    port = MP.EchoPort()
                    send_port = port
                else:
                    subs = [MP.EchoPort(), MP.EchoPort()]
                    port = MP.MultiPort(subs)
                    send_port = None
                total = nsend * per
                got = [[] for _ in range(nrecv)]
                errors = []
                done = threading.Event()

                def sender(sid):
                    try:
                        time.sleep(rng.random() * 0.001)
                        for i in range(per):
                            m = mido.Message('control_change', channel=sid, control=i % 128, value=i // 128)
                            if send_port is not None:
                                send_port.send(m)
                            else:
                                subs[(sid + i) % 2].send(m)
                            m.value = 99            # changing the sent object afterwards must not affect what is received
                    except Exception as ex:
                        errors.append(('send', repr(ex)))

                def receiver(rid, how):
                    try:
                        while not done.is_set():
                            if how == 'poll':
                                m = port.poll()
                                if m is not None:
                                    got[rid].append(m)
                            elif how == 'iter_pending':
                                for m in port.iter_pending():
                                    got[rid].append(m)
                            else:
                                m = port.receive(block=False)
                                if m is not None:
                                    got[rid].append(m)
                    except Exception as ex:
                        errors.append(('receive', repr(ex)))
                threads = [threading.Thread(target=sender, args=(s,)) for s in range(nsend)]
                hows = [rng.choice(['poll', 'iter_pending', 'receive']) for _ in range(nrecv)]
                threads += [threading.Thread(target=receiver, args=(r, hows[r])) for r in range(nrecv)]
                for t in threads:
                    t.start()
                deadline = time.time() + 20
                while sum(len(g) for g in got) < total and time.time() < deadline and not errors:
                    time.sleep(0.001)
                done.set()
                for t in threads:
                    t.join(5)
                n += 1
                seen.add((kind, run))
                allm = [m for g in got for m in g]
                keys = [(m.channel, m.value * 128 + m.control) for m in allm]
                problem = None
                if errors:
                    problem = 'a send/receive call raised: %r' % errors[:2]
                elif len(allm) != total or len(set(keys)) != total:
                    problem = 'received %d messages, %d distinct, expected %d' % (len(allm), len(set(keys)), total)
                elif any(m.type != 'control_change' or m.value == 99 and (m.value * 128 + m.control) >= per for m in allm):
                    problem = 'a received message was affected by a later change of the sent object'
                else:
                    for g in got:
                        last = {}
                        for m in g:
                            k = m.value * 128 + m.control
                            if kind != 'multi' and last.get(m.channel, -1) > k:
                                problem = 'messages of sender %d received out of order' % m.channel
                            last[m.channel] = k
                if problem:
                    fails.append(dict(clause='each message exactly once, intact, per-sender order, no call raises', inputs=dict(seed=seed, port=kind, run=run, senders=nsend, receivers=nrecv, how=hows), detail=problem))
    finally:
        sys.setswitchinterval(old)
    return dict(evaluations=n, distinct_nontrivial=len(seen), failures=fails[:20])
