#!/usr/bin/env python3
"""Regenerates /verif/MANIFEST.json from contracts/properties.py (single source of truth)."""
import json, os, sys
HERE = os.path.dirname(os.path.dirname(os.path.abspath(__file__)))
sys.path.insert(0, HERE)
import importlib.util
spec = importlib.util.spec_from_file_location('props', os.path.join(HERE, 'contracts', 'properties.py'))
mod = importlib.util.module_from_spec(spec); spec.loader.exec_module(mod)
PROPS, NOT_APPLICABLE = mod.PROPS, mod.NOT_APPLICABLE
ids = [json.loads(l)['id'] for l in open(os.path.join(HERE, 'properties.jsonl'))]
checks = []
for pid in ids:
    if pid not in PROPS or not PROPS[pid].get('claimed', True):
        continue
    p = PROPS[pid]
    checks.append(dict(
        property_id=pid,
        quick_cmd='./check %s --tier quick' % pid,
        thorough_cmd='./check %s --tier thorough' % pid,
        evidence_file='evidence/%s.json' % pid,
        replay_cmd_template='./check %s --replay {path}' % pid,
        engine='pyvc',
        level_claimed=dict(category=p['level'], text=p['text'], design_ref=p.get('design_ref', 'DESIGN.md §5 ' + pid)),
        level_note=p['note'],
        technique=p.get('technique', 'contract-based deductive verification: VCs generated from the real Python source by symbolic execution against sidecar contracts, discharged by z3/cvc5'),
    ))
na = [dict(property_id=pid, reason=NOT_APPLICABLE[pid]) for pid in ids if pid in NOT_APPLICABLE]
missing = [pid for pid in ids if pid not in NOT_APPLICABLE and not any(c['property_id'] == pid for c in checks)]
assert not missing, missing
man = dict(
    version=1,
    setup_cmd='python3-vt -m compileall -q pyvc contracts >/dev/null; ./check --selftest',
    hooks=dict(guard='MIDO_VERIF', enable='none: contracts are sidecar files in /verif; /repo is not instrumented',
               baseline_off_cmd='cd /repo && /venv/bin/python -m pytest -ra -q -p no:cacheprovider --timeout=900 --continue-on-collection-errors',
               source_commits=[], add_only=True),
    engines=[dict(name='pyvc', path='pyvc/', serves_properties=[c['property_id'] for c in checks],
                  kind_free_text='verification-condition generator for a Python subset (AST symbolic execution of the real /repo sources, sidecar contracts, loop invariants, lemmas) + z3/cvc5; counterexamples replayed on the real code under /venv/bin/python')],
    checks=checks,
    notes='exit codes: 0 held, 1 VIOLATION, 2 UNDECIDED (never reported as violation), 3 checker error. fix: commits in /repo are listed in known_findings.json.',
    not_applicable=na,
)
json.dump(man, open(os.path.join(HERE, 'MANIFEST.json'), 'w'), indent=1)
print('checks:', [c['property_id'] for c in checks], 'n/a:', [x['property_id'] for x in na])
