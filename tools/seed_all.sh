#!/bin/bash
# regression test of the checks themselves: every stored seeded change must still be reported (exit 1) by the check of its property
cd /verif
for d in seeded/*/; do
  sid=$(basename $d)
  prop=$(python3 -c "import json,re; print(re.findall(r'C\d\d', json.load(open('$d/meta.json'))['property'])[0])")
  out=$(tools/seed_run.sh $sid $prop 2>&1 | grep -E "exit [0-9]" | head -1)
  echo "$out"
done
