#!/bin/bash
# regression test of the checks themselves: every stored seeded change must still be reported (exit 1) by the check of its
# property.  Each patch is applied to a scratch copy of /repo (PYVC_REPO); /repo itself is not touched.
cd /verif
for d in seeded/*/; do
  sid=$(basename $d)
  prop=$(python3 -c "import json,re; print(re.findall(r'C\d\d', json.load(open('$d/meta.json'))['property'])[0])" 2>/dev/null)
  s=$(mktemp -d /tmp/sall.XXXXXX)
  rsync -a --exclude .git --exclude __pycache__ /repo/ "$s/repo/"
  if (cd "$s/repo" && patch -p1 -s < /verif/$d/patch.diff >/dev/null 2>&1); then
    PYVC_REPO="$s/repo" ./check $prop > "$s/out.txt" 2>&1; code=$?
    note=$(python3 -c "import json; d=json.load(open('/verif/$d/meta.json')); print(' (expected: not reported separately, inside an open known finding)' if d['detected_by'][0].startswith('NOT reported') else '')" 2>/dev/null)
    echo "$sid $prop exit $code$note"
  else
    echo "$sid $prop PATCH-DOES-NOT-APPLY (the code it changed was changed by a later fix)"
  fi
  rm -rf "$s"
done
