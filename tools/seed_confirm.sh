#!/bin/bash
# usage: tools/seed_confirm.sh <seed-id> <worktree>   -- first half of seed_eval.sh: confirm (tests pass, demo fails with / passes
# without the change) and store the change under /verif/seeded/<seed-id>/ ; does not touch /repo
sid=$1; wt=$2
out=/verif/seeded/$sid
mkdir -p $out
cp $wt/patch.diff $out/patch.diff
cp $wt/demo.py $out/demo.py
cd $wt
echo "== $sid tests with change: $(PYTHONPATH=$wt /venv/bin/python -m pytest -q -x -p no:cacheprovider --timeout=900 tests 2>&1 | tail -1)"
PYTHONPATH=$wt /venv/bin/python demo.py >/tmp/seed_demo_with_$sid.txt 2>&1; echo "== demo with change: exit $? $(tail -1 /tmp/seed_demo_with_$sid.txt | cut -c1-150)"
git stash push -q -- mido
PYTHONPATH=$wt /venv/bin/python demo.py >/tmp/seed_demo_without_$sid.txt 2>&1; echo "== demo without change: exit $? $(tail -1 /tmp/seed_demo_without_$sid.txt | cut -c1-150)"
git stash pop -q
git -C /repo apply --check $out/patch.diff && echo "== patch applies to /repo"
