#!/bin/bash
# usage: tools/seed_run.sh <seed-id> <prop> [<prop> ...]   -- apply a stored seeded change to /repo, run checks, restore /repo
sid=$1; shift
export PYVC_SCRATCH_EVIDENCE=1     # /repo is patched while these checks run: their evidence must not replace the committed one
cd /repo
if ! git diff --quiet; then echo "/repo is dirty, refusing"; exit 9; fi
git apply /verif/seeded/$sid/patch.diff || { echo "patch does not apply"; exit 9; }
trap 'git -C /repo checkout -- . ' EXIT
for p in "$@"; do
  (cd /verif && ./check $p > /tmp/seed_check_$p.txt 2>&1; echo "$sid $p exit $?"; grep -E "VIOLATION|UNDECIDED|CHECKER-ERROR" /tmp/seed_check_$p.txt | cut -c1-200 | head -3; tail -1 /tmp/seed_check_$p.txt | cut -c1-200)
done
