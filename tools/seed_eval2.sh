#!/bin/bash
# usage: tools/seed_eval2.sh <seed-id> <worktree> <prop> [<prop> ...]
# like seed_eval.sh (confirms the change in its worktree and stores it under seeded/<seed-id>/) but runs the checks against a
# SCRATCH COPY of /repo with the patch applied (PYVC_REPO), so that /repo stays untouched while other runs use it.
sid=$1; wt=$2; shift 2
out=/verif/seeded/$sid
mkdir -p $out
cp $wt/patch.diff $out/patch.diff
cp $wt/demo.py $out/demo.py
[ -f $wt/notes.txt ] && cp $wt/notes.txt $out/notes.txt
cd $wt
echo "== tests with change: $(PYTHONPATH=$wt /venv/bin/python -m pytest -q -x -p no:cacheprovider --timeout=900 -o addopts= tests 2>&1 | tail -1)"
PYTHONPATH=$wt timeout 120 /venv/bin/python demo.py >/tmp/seed_demo_with.txt 2>&1; echo "== demo with change: exit $? :: $(tail -1 /tmp/seed_demo_with.txt | cut -c1-160)"
git apply -R patch.diff
PYTHONPATH=$wt timeout 120 /venv/bin/python demo.py >/tmp/seed_demo_without.txt 2>&1; echo "== demo without change: exit $? :: $(tail -1 /tmp/seed_demo_without.txt | cut -c1-120)"
git apply patch.diff
d=$(mktemp -d /tmp/seval.XXXXXX)
trap 'rm -rf "$d"' EXIT
rsync -a --exclude .git --exclude __pycache__ /repo/ "$d/repo/"
(cd "$d/repo" && patch -p1 -s < $out/patch.diff) || { echo "patch does not apply to a copy of /repo"; exit 9; }
for p in "$@"; do
  PYVC_REPO="$d/repo" /verif/check $p > $d/out_$p.txt 2>&1; code=$?
  echo "== check $p on the seeded copy: exit $code :: $(tail -1 $d/out_$p.txt | cut -c1-170)"
  grep -E "VIOLATION|UNDECIDED|CHECKER-ERROR" $d/out_$p.txt | cut -c1-230 | head -3
done
