"""development helper: run the units of ONE contract serially and print what is not discharged.\n   usage: python3-vt tools/run_contract.py <contract-key> [config-regex]"""
import sys, time, json, re
import os; sys.path.insert(0, os.path.dirname(os.path.dirname(os.path.abspath(__file__)))); sys.path.insert(0, os.environ.get('PYVC_REPO', '/repo'))
from pyvc import runner
from pyvc.contract import REGISTRY
import contracts
from collections import Counter
pat = sys.argv[2] if len(sys.argv) > 2 else ''
tgt = sys.argv[1]
c = REGISTRY[tgt]
tot = Counter(); t00=time.time()
for cfg in c.configs:
    if pat and not re.search(pat, c.config_name(cfg)): continue
    t0 = time.time()
    r = runner.run_unit(tgt, cfg)
    bad = [o for o in r['obligations'] if o['result'] != 'unsat']
    tot['units']+=1; tot['obl']+=len(r['obligations']); tot['bad']+=len(bad); tot['unsup']+=len(r['unsupported']); tot['err']+=len(r['errors']); tot['paths']+=r['paths']
    if bad or r['unsupported'] or r['errors']:
        print(tgt, r['cfg'], 'paths', r['paths'], 'obl', len(r['obligations']), 'bad', len(bad), 'unsup', len(r['unsupported']), 'err', len(r['errors']), round(time.time()-t0,2))
        for o in bad[:4]: print('   ', o['name'], o['result'], o.get('reason'), o.get('inputs'), o.get('info'))
        for u in r['unsupported'][:3]: print('   UNSUP', u['why'])
        for e in r['errors'][:2]: print('   ERR', e[-600:])
print(dict(tot), round(time.time()-t00,1))
