#!/bin/bash
# usage: tools/seed_eval.sh <seed-id> <worktree> <prop> [<prop> ...]
# confirms a seeded change (tests pass, demo fails with / passes without), stores it under /verif/seeded/<seed-id>/,
# applies it to /repo, runs the given checks, and ALWAYS restores /repo afterwards.
sid=$1; wt=$2; shift 2
out=/verif/seeded/$sid
mkdir -p $out
cp $wt/patch.diff $out/patch.diff
cp $wt/demo.py $out/demo.py
cd $wt
echo "== tests with change:"; PYTHONPATH=$wt /venv/bin/python -m pytest -q -x -p no:cacheprovider --timeout=900 tests 2>&1 | tail -1
echo "== demo with change:"; PYTHONPATH=$wt /venv/bin/python demo.py >/tmp/seed_demo_with.txt 2>&1; echo "exit $?"; tail -2 /tmp/seed_demo_with.txt
git stash push -q -- mido
echo "== demo without change:"; PYTHONPATH=$wt /venv/bin/python demo.py >/tmp/seed_demo_without.txt 2>&1; echo "exit $?"; tail -1 /tmp/seed_demo_without.txt
git stash pop -q
export PYVC_SCRATCH_EVIDENCE=1     # /repo is patched while these checks run: their evidence must not replace the committed one
cd /repo
if ! git diff --quiet; then echo "/repo is dirty, refusing"; exit 9; fi
git apply $out/patch.diff || { echo "patch does not apply to /repo"; exit 9; }
trap 'git -C /repo checkout -- . ' EXIT
for p in "$@"; do
  echo "== check $p on the seeded tree:"
  (cd /verif && ./check $p > /tmp/seed_check_$p.txt 2>&1; echo "exit $?"; grep -E "VIOLATION|UNDECIDED|CHECKER-ERROR" /tmp/seed_check_$p.txt | cut -c1-220 | head -4; tail -1 /tmp/seed_check_$p.txt | cut -c1-200)
done
