#!/bin/bash
# usage: tools/mutant_test.sh <prop> <file relative to repo> <sed expression>   -- applies the edit to a scratch copy and runs the check
set -e
prop=$1; file=$2; expr=$3
d=$(mktemp -d /tmp/mut.XXXXXX)
trap 'rm -rf "$d"' EXIT
rsync -a --exclude .git --exclude __pycache__ /repo/ "$d/repo/"
sed -i "$expr" "$d/repo/$file"
if diff -q /repo/$file "$d/repo/$file" >/dev/null; then echo "MUTANT DID NOT CHANGE THE FILE"; exit 9; fi
(cd "$d/repo" && /venv/bin/python -m pytest -q -x -p no:cacheprovider --timeout=900 tests 2>&1 | tail -1)
PYVC_REPO="$d/repo" /verif/check "$prop" | grep -E "VIOLATION|UNDECIDED|CHECKER|obligations" | cut -c1-260 | head -${4:-6}
