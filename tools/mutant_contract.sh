#!/bin/bash
# usage: tools/mutant_contract.sh <contract-key> <file relative to repo> <sed expression>  -- one contract against a scratch mutant
set -e
key=$1; file=$2; expr=$3
d=$(mktemp -d /tmp/mut.XXXXXX)
trap 'rm -rf "$d"' EXIT
rsync -a --exclude .git --exclude __pycache__ /repo/ "$d/repo/"
sed -i "$expr" "$d/repo/$file"
if diff -q /repo/$file "$d/repo/$file" >/dev/null; then echo "MUTANT DID NOT CHANGE THE FILE"; exit 9; fi
diff /repo/$file "$d/repo/$file" | head -6
cd /verif && PYVC_REPO="$d/repo" PYTHONHASHSEED=0 PYTHONDONTWRITEBYTECODE=1 python3-vt tools/run_contract.py "$key" ${4:-} 2>&1 | cut -c1-300 | tail -${5:-8}
