#!/bin/bash
# runs every claimed check (quick tier) and prints one line each; exit 1 if any is not green
cd /verif
rc=0
for p in $(python3 -c "import json; print(' '.join(c['property_id'] for c in json.load(open('MANIFEST.json'))['checks']))"); do
  ./check $p > /tmp/runall_$p.txt 2>&1; e=$?
  echo "exit=$e $(tail -1 /tmp/runall_$p.txt | cut -c1-170)"
  [ $e -ne 0 ] && { rc=1; grep -E "VIOLATION|UNDECIDED|CHECKER" /tmp/runall_$p.txt | head -3 | cut -c1-200; }
done
exit $rc
