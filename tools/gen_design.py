#!/usr/bin/env python3
"""Regenerates the data-driven sections of DESIGN.md (between the GENERATED markers) from contracts/properties.py,
evidence/*.json, known_findings.json and seeded/*/meta.json.   usage: python3 tools/gen_design.py"""
import glob
import importlib.util
import json
import os
import re

V = os.path.dirname(os.path.dirname(os.path.abspath(__file__)))
spec = importlib.util.spec_from_file_location('properties', os.path.join(V, 'contracts', 'properties.py'))
mod = importlib.util.module_from_spec(spec)
spec.loader.exec_module(mod)
PROPS, NA = mod.PROPS, mod.NOT_APPLICABLE
titles = {}
for line in open(os.path.join(V, 'properties.jsonl')):
    d = json.loads(line)
    titles[d['id']] = d['title']
kf = json.load(open(os.path.join(V, 'known_findings.json')))
seeds = []
for mf in sorted(glob.glob(os.path.join(V, 'seeded', '*', 'meta.json'))):
    seeds.append(json.load(open(mf)))


def wrap(s, width=100, indent=''):
    import textwrap
    return '\n'.join(textwrap.wrap(s, width=width, initial_indent=indent, subsequent_indent=indent))


def props_section():
    out = []
    for pid in sorted(titles):
        out.append('### %s — %s\n' % (pid, titles[pid]))
        if pid in NA:
            out.append('**not applicable**: %s\n' % NA[pid])
            continue
        m = PROPS[pid]
        out.append('*claimed level*: **%s**\n' % m['level'])
        out.append(wrap(m['text']) + '\n')
        out.append('| clause | status |\n|---|---|')
        for c, st in m['clauses']:
            out.append('| %s | [%s] |' % (c.replace('|', '/'), st))
        out.append('')
        out.append(wrap('Trusted / assumed: ' + m['note']) + '\n')
        ev = os.path.join(V, 'evidence', pid + '.json')
        if os.path.exists(ev):
            e = json.load(open(ev))
            c = e['coverage']
            fns = c.get('functions_executed_symbolically') or c.get('functions_under_contract', [])
            out.append(wrap('Last committed run (%s tier): %d obligations, %d discharged (%s), solver time %s s, %d symbolic paths, %d '
                            'evaluations of the real code (path witnesses, contract samples, bounded stand-ins), wall %.0f s.'
                            % (e['tier'], c['obligations'], c['discharged'], ', '.join('%s %d' % kv for kv in sorted(c.get('solver_obligations', {}).items())),
                               '/'.join('%s %.0f' % kv for kv in sorted(c.get('solver_time_s', {}).items())), c.get('paths', 0), c.get('evaluations', 0), e.get('wall_s', 0))) + '\n')
            if fns:
                out.append(wrap('Real functions whose bodies are executed symbolically (%d): ' % len(fns) + ', '.join('`%s`' % f.replace('mido.', '') for f in fns)) + '\n')
            for b in c.get('bounded_standins', []):
                out.append(wrap('Bounded stand-in `%s` (never counted as proved): %s — %s evaluations.' % (b['name'], b['bound'], b.get('evaluations'))) + '\n')
        fnd = [f for f in kf['findings'] if f.get('property') == pid]
        for f in fnd:
            out.append(wrap('**Known finding %s**: %s' % (f['id'], f.get('what', f.get('describe', '')))) + '\n')
        fx = [f for f in kf['fixed'] if ('property=%s ' % pid) in f]
        for f in fx:
            out.append(wrap('Defect repaired — ' + f) + '\n')
        sd = [s for s in seeds if s.get('property') == pid]
        for s in sd:
            out.append(wrap('Seeded change `%s`: %s. Needs: %s. Detected by: %s' % (s['seed'], s['breaks'], s.get('needs_to_manifest', '?'), ' ;; '.join(s.get('detected_by', [])))) + '\n')
    return '\n'.join(out)


def seeds_section():
    out = ['| seeded change | property | what breaks | verdict of the checks |', '|---|---|---|---|']
    for s in seeds:
        det = ' ;; '.join(s.get('detected_by', []))
        out.append('| `%s` | %s | %s | %s |' % (s['seed'], s['property'], s['breaks'].replace('|', '/'), det.replace('|', '/')))
    return '\n'.join(out)


def findings_section():
    out = ['Open (listed in `known_findings.json`, printed as KNOWN-FINDING, exit 0):\n']
    for f in kf['findings']:
        out.append('* **%s** (%s): %s' % (f['id'], f.get('property'), f.get('what', '')))
    out.append('\nRepaired (`fix:` commits in /repo; entries suppress nothing):\n')
    for f in kf['fixed']:
        out.append('* ' + f)
    return '\n'.join(out)


path = os.path.join(V, 'DESIGN.md')
text = open(path).read()
for name, fn in (('props', props_section), ('seeds', seeds_section), ('findings', findings_section)):
    a, b = '<!-- BEGIN GENERATED:%s -->' % name, '<!-- END GENERATED:%s -->' % name
    if a in text:
        i, j = text.index(a) + len(a), text.index(b)
        text = text[:i] + '\n' + fn() + '\n' + text[j:]
open(path, 'w').write(text)
print('DESIGN.md regenerated')
