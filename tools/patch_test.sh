#!/bin/bash
# usage: tools/patch_test.sh <patch file> <prop> [<prop> ...]  -- applies a patch to a SCRATCH COPY of /repo (removed afterwards),
# runs the repository's tests there and then the given checks against that copy (PYVC_REPO); /repo itself is not touched.
patch=$1; shift
d=$(mktemp -d /tmp/ptest.XXXXXX)
trap 'rm -rf "$d"' EXIT
rsync -a --exclude .git --exclude __pycache__ /repo/ "$d/repo/"
(cd "$d/repo" && patch -p1 -s < "$patch") || { echo "patch does not apply"; exit 9; }
(cd "$d/repo" && /venv/bin/python -m pytest -q -x -p no:cacheprovider --timeout=900 tests 2>&1 | tail -1)
for p in "$@"; do
  PYVC_REPO="$d/repo" /verif/check "$p" > "$d/out_$p.txt" 2>&1; code=$?
  echo "$(basename $patch) $p exit $code :: $(tail -1 $d/out_$p.txt | cut -c1-160)"
  grep -E "VIOLATION|UNDECIDED|CHECKER-ERROR" "$d/out_$p.txt" | cut -c1-260 | head -${PT_LINES:-3}
done
